"""C16: lowering profile and Lowerer subclass for the bundled server's per-connection handler (src/server/QXmppIncomingClient.cpp).

Unit-local extensions of the lowering (all mechanical, all must-fire):
  * `serializeXml(T{...})` becomes the payload class constant XML_<T> (what is sent is classified by its C++ type; the
    operands must be side-effect free);
  * constants of the *unnamed* enum of QXmppIncomingClientPrivate (`Sasl`, `Sasl2`) become SASLVER_<name>, whose values the unit
    reads from the same record declaration;
  * `X::fromDom(el)` (static parsers of the SASL / STARTTLS nonzas) become contracted callees chosen by the result type;
  * `u"...%1...%2"_s.arg(a, b)` becomes the uninterpreted formatting function of (format literal, a, b);
  * `sendPacket(iq)` becomes the emission event of the static class of its argument (bind result / plain IQ result);
  * `QObject::connect(reply, &QXmppPasswordReply::finished, q, &QXmppIncomingClient::<slot>)` becomes the event "reply is wired to <slot>";
  * `reply->setProperty("name", v)` / `reply->property("name")` become a two-slot dynamic-property table.
"""
import re
from vlib.cxx2c import Lowerer, Unsupported, qt, dqt, strip_type, find_string
from vlib.opaque_profile import opaque_profile

PRIV = 'QXmpp::Private::'


def short(t):
    return strip_type(t).replace(PRIV, '').replace('QXmpp::', '')


def cident(t):
    return re.sub(r'\W+', '_', short(t)).strip('_')


class C16Lowerer(Lowerer):
    def __init__(self, *a, **kw):
        super().__init__(*a, **kw)
        self.need_payload = set()
        self.need_saslver = set()

    def fncall(self, n):
        rd = self.callee_ref(n)
        if rd.get('name') == 'serializeXml':
            return self.lower_serialize(n)
        return super().fncall(n)

    def lower_serialize(self, n):
        arg = self.skip(n['inner'][1])
        t = cident(dqt(arg))
        if not re.fullmatch(r'\w+', t) or t.startswith('std_'):
            raise Unsupported('serializeXml of %s' % qt(arg))
        if not self.pure(arg):
            raise Unsupported('serializeXml argument with side effects')
        self.fire('fn:serializeXml<%s>' % t)
        self.need_payload.add(t)
        return 'XML_' + t

    # QT_USE_QSTRINGBUILDER: every QStringBuilder<A, B> (any nesting) is the concatenated string
    def ctype(self, t, node=None):
        if t is not None and strip_type(t).startswith('QStringBuilder<'):
            return 'qstr'
        return super().ctype(t, node)

    def tkey(self, n):
        for cand in (qt(n), dqt(n)):
            if strip_type(cand).startswith('QStringBuilder<'):
                return 'qstr'
        return super().tkey(n)

    def declref(self, n):
        rd = n['referencedDecl']
        if rd.get('kind') == 'EnumConstantDecl' and re.search(r'\((unnamed|anonymous)', rd.get('type', {}).get('qualType', '')):
            if 'QXmppIncomingClientPrivate' not in rd['type']['qualType']:
                raise Unsupported('constant %s of an unnamed enum outside QXmppIncomingClientPrivate' % rd.get('name'))
            self.fire('enum:unnamed:QXmppIncomingClientPrivate')
            self.need_saslver.add(rd['name'])
            return 'SASLVER_' + rd['name']
        return super().declref(n)


# ---------------------------------------------------------------------------------------------------------------- callable rules
FROM_DOM = {
    'std::optional<StarttlsRequest>': ('OptNonza', 'StarttlsRequest_fromDom'),
    'std::optional<Sasl2::Authenticate>': ('OptSasl2Authenticate', 'Sasl2_Authenticate_fromDom'),
    'std::optional<Sasl2::Response>': ('OptSasl2Response', 'Sasl2_Response_fromDom'),
    'std::optional<Sasl2::Abort>': ('OptSasl2Abort', 'Sasl2_Abort_fromDom'),
    'std::optional<Sasl::Auth>': ('OptSaslAuth', 'Sasl_Auth_fromDom'),
    'std::optional<Sasl::Response>': ('OptSaslResponse', 'Sasl_Response_fromDom'),
}


def from_dom(lw, node, args):
    t = short(dqt(lw.skip(node)))
    if t not in FROM_DOM:
        raise Unsupported('fromDom returning %s' % t)
    ct, fn = FROM_DOM[t]
    tmp = lw.newtmp()
    lw.repo_callees.add(fn)
    lw.pre.append('%s %s; %s(&%s, %s);' % (ct, tmp, fn, tmp, ', '.join(args)))
    return tmp


def _format_literal(lw, node):
    me = lw.skip(node['inner'][0])
    base = lw.skip(me['inner'][0])
    s = find_string(base)
    if s is None and base.get('kind') == 'UserDefinedLiteral':
        s = lw.udl_from_source(base)
    if s is None:
        raise Unsupported('QString::arg on something that is not a string literal')
    return s


def str_arg(lw, node, args):
    """u"..."_s.arg(a, b): uninterpreted function of the format literal and the operands; the result is known to be non-empty
    exactly when the literal contains a character outside the %n placeholders"""
    s = _format_literal(lw, node)
    n = len(args) - 1
    places = set(re.findall(r'%(\d)', s))
    if places != {str(i + 1) for i in range(n)} or n not in (1, 2):
        raise Unsupported('QString::arg: literal %r with %d operands' % (s, n))
    fixed = re.sub(r'%\d', '', s) != ''
    return 'qstr_arg%d(%s, %s)' % (n, ', '.join(args), 'true' if fixed else 'false')


def send_packet(lw, node, args):
    a = node['inner'][1]
    while a.get('kind') in ('ImplicitCastExpr', 'MaterializeTemporaryExpr', 'ExprWithCleanups', 'CXXBindTemporaryExpr'):
        a = a['inner'][0]
    t = short(qt(a))
    if t == 'QXmppBindIq':
        return 'ev_sendPacket_bind(%s)' % ', '.join(args)
    if t == 'QXmppIq':
        return 'ev_sendPacket_iq(%s)' % ', '.join(args)
    raise Unsupported('sendPacket of %s' % qt(a))


def respond_call(lw, node, args):
    """saslServer->respond(request, challenge): `challenge` is a QByteArray& out-parameter (clang's bound-member MemberExpr carries no signature)"""
    out = lw.skip(node['inner'][2])
    if out.get('kind') != 'DeclRefExpr' or lw.ntype(out) != 'qbytes':
        raise Unsupported('respond: second argument is not a QByteArray lvalue')
    lw.repo_callees.add('QXmppSaslServer_respond')
    return 'QXmppSaslServer_respond(%s, %s, %s)' % (args[0], args[1], lw.addr_of(args[2]))


def get_password(lw, node, args):
    """getPassword(request, secret) (virtual): `secret` is a QString& out-parameter"""
    out = lw.skip(node['inner'][2])
    if out.get('kind') != 'DeclRefExpr' or lw.ntype(out) != 'qstr':
        raise Unsupported('getPassword: second argument is not a QString lvalue')
    lw.repo_callees.add('QXmppPasswordChecker_getPassword')
    return 'QXmppPasswordChecker_getPassword(%s, %s, %s)' % (args[0], args[1], lw.addr_of(args[2]))


def new_expr(lw, node):
    """`new QXmppPasswordReply` (default parent): the constructor's member initialisers are the contract of QXmppPasswordReply_new"""
    inner = [c for c in node.get('inner', []) if isinstance(c, dict)]
    if len(inner) != 1 or inner[0].get('kind') != 'CXXConstructExpr' or short(qt(inner[0])) != 'QXmppPasswordReply' or \
            any(a.get('kind') != 'CXXDefaultArgExpr' for a in inner[0].get('inner', [])):
        raise Unsupported('new-expression other than `new QXmppPasswordReply`')
    lw.repo_callees.add('QXmppPasswordReply_new')
    return 'QXmppPasswordReply_new()'


SLOTS = {'onPasswordReply': 'SLOT_onPasswordReply', 'onDigestReply': 'SLOT_onDigestReply'}


def _pmf_name(lw, a):
    a = lw.skip(a)
    if a.get('kind') == 'UnaryOperator' and a.get('opcode') == '&':
        d = lw.skip(a['inner'][0])
        if d.get('kind') == 'DeclRefExpr':
            return d['referencedDecl'].get('name')
    return None


def qobject_connect(lw, node, args):
    argn = [a for a in node['inner'][1:] if a.get('kind') != 'CXXDefaultArgExpr']
    if len(argn) != 4:
        raise Unsupported('QObject::connect with %d arguments' % len(argn))
    sig, slot = _pmf_name(lw, argn[1]), _pmf_name(lw, argn[3])
    if sig != 'finished' or slot not in SLOTS:
        raise Unsupported('QObject::connect(%s -> %s)' % (sig, slot))
    return 'ev_connect_finished(%s, %s, %s)' % (lw.expr(argn[0]), lw.expr(argn[2]), SLOTS[slot])


def profile(saslver_type_keys=()):
    types = {
        'QXmppIncomingClient': 'QXmppIncomingClient', 'QXmppIncomingClientPrivate': 'QXmppIncomingClientPrivate',
        'std::unique_ptr<QXmppIncomingClientPrivate>': 'QXmppIncomingClientPrivate*',
        'std::unique_ptr<QXmppSaslServer>': 'QXmppSaslServer*', 'QXmppSaslServer': 'QXmppSaslServer',
        'QXmppSaslServer::Response': 'int', 'QCryptographicHash::Algorithm': 'int', 'QAbstractSocket::SocketState': 'int', 'QXmppPasswordReply::Error': 'int', 'QXmppIq::Type': 'int',
        'QXmppSaslServerPlain': 'QXmppSaslServer', 'QXmppSaslServerAnonymous': 'QXmppSaslServer', 'QList<QByteArray>': 'QBytesList',
        'QTimer': 'QTimer', 'QSslSocket': 'QSslSocket', 'XmppSocket': 'XmppSocket', PRIV + 'XmppSocket': 'XmppSocket',
        'QXmppPasswordChecker': 'QXmppPasswordChecker', 'QXmppPasswordRequest': 'QXmppPasswordRequest', 'QXmppPasswordReply': 'QXmppPasswordReply',
        'QByteArray': 'qbytes', 'QVariant': 'qvariant',
        # QT_USE_QSTRINGBUILDER: a + b is a lazy concatenation object; its value is the concatenated string
        'QStringBuilder<QString,char16_t>': 'qstr', 'QStringBuilder<QStringBuilder<QString,char16_t>,QString>': 'qstr',
        'QXmppIq': 'QXmppIq', 'QXmppBindIq': 'QXmppIq', 'QXmppNonza': 'QXmppIq',
        'std::optional<' + PRIV + 'StarttlsRequest>': 'OptNonza',
        'std::optional<' + PRIV + 'Sasl2::Authenticate>': 'OptSasl2Authenticate', PRIV + 'Sasl2::Authenticate': 'Sasl2Authenticate',
        'std::optional<Sasl2::Authenticate>': 'OptSasl2Authenticate', 'Sasl2::Authenticate': 'Sasl2Authenticate',
        'std::optional<' + PRIV + 'Sasl2::Response>': 'OptSasl2Response', PRIV + 'Sasl2::Response': 'Sasl2Response',
        'std::optional<' + PRIV + 'Sasl2::Abort>': 'OptSasl2Abort', PRIV + 'Sasl2::Abort': 'Sasl2Abort',
        'std::optional<' + PRIV + 'Sasl::Auth>': 'OptSaslAuth', PRIV + 'Sasl::Auth': 'SaslAuth',
        'std::optional<' + PRIV + 'Sasl::Response>': 'OptSaslResponse', PRIV + 'Sasl::Response': 'SaslResponse',
        'std::optional<' + PRIV + 'Bind2Request>': 'OptBind2Request', PRIV + 'Bind2Request': 'Bind2Request',
        'std::optional<Bind2Request>': 'OptBind2Request', 'Bind2Request': 'Bind2Request',
    }
    for k in saslver_type_keys:
        types[k] = 'int'
    class_types = {'QBytesList', 'QXmppIncomingClient', 'QXmppIncomingClientPrivate', 'QXmppSaslServer', 'QTimer', 'QSslSocket', 'XmppSocket', 'QXmppPasswordChecker',
                   'QXmppPasswordRequest', 'QXmppPasswordReply', 'QXmppIq', 'OptNonza', 'OptSasl2Authenticate', 'Sasl2Authenticate', 'OptSasl2Response',
                   'Sasl2Response', 'OptSasl2Abort', 'Sasl2Abort', 'OptSaslAuth', 'SaslAuth', 'OptSaslResponse', 'SaslResponse', 'OptBind2Request', 'Bind2Request'}
    calls = {
        'op->:QXmppIncomingClientPrivate*': ('expr', '{0}'),
        'op->:QXmppSaslServer*': ('expr', '{0}'),
        'QXmppSaslServer*::operator bool/0': ('expr', '{0} != NULL'),
        # --- Qt (models in units/C16/model.h)
        'QTimer::interval/0': ('fn', 'QTimer_interval'),
        'QTimer::start/0': ('fn', 'QTimer_start'),
        'QSslSocket::flush/0': ('fn', 'QSslSocket_flush'),
        'QSslSocket::state/0': ('expr', '({0})->state'),
        'QXmppIncomingClient::isConnected/0': ('callee', 'QXmppIncomingClient_isConnected'),
        'XmppSocket::isConnected/0': ('callee', 'XmppSocket_isConnected'),
        'QSslSocket::startServerEncryption/0': ('fn', 'QSslSocket_startServerEncryption'),
        'qstr::operator QString/0': ('arg', 0),
        'qstr::toUtf8/0': ('fn', 'qstr_toUtf8'),
        'fn:hash/2': ('fn', 'qbytes_hash'),
        'qstr::arg/1': str_arg, 'qstr::arg/2': str_arg,
        'op+:qstr:quint16': ('fn', 'qstr_append_char'), 'op+:qstr:qstr': ('fn', 'qstr_concat'),
        'qdom::setAttribute/2': ('fn', 'mdom_setAttribute'),
        'qdom::attribute/1': ('fn', 'mdom_attribute'),
        'QXmppPasswordReply::setParent/1': ('fn', 'qobj_setParent'),
        'QXmppPasswordReply::deleteLater/0': ('fn', 'qobj_deleteLater'),
        'QXmppPasswordReply::setProperty/2': ('fn', 'qobj_setProperty'),
        'QXmppPasswordReply::property/1': ('fn', 'qobj_property'),
        'ctor:qvariant(qbytes)': ('expr', '{0}'), 'ctor:qvariant(qstr)': ('expr', '{0}'),
        'qvariant::toByteArray/0': ('arg', 0), 'qvariant::toString/0': ('arg', 0),
        'fn:connect/4': qobject_connect,
        '*::sender/0': ('const', 'gh_sender'),
        'fn:qobject_cast/1': ('fn', 'qobject_cast_reply'),
        # --- std::optional / std::unique_ptr
        'OptNonza::operator bool/0': ('expr', '({0})->has'),
        'OptSasl2Authenticate::operator bool/0': ('expr', '({0})->has'),
        'OptSasl2Response::operator bool/0': ('expr', '({0})->has'),
        'OptSasl2Abort::operator bool/0': ('expr', '({0})->has'),
        'OptSaslAuth::operator bool/0': ('expr', '({0})->has'),
        'OptSaslResponse::operator bool/0': ('expr', '({0})->has'),
        'OptBind2Request::operator bool/0': ('expr', '({0})->has'),
        'op->:OptSasl2Authenticate': ('expr', '(&({0})->v)'),
        'op->:OptSasl2Response': ('expr', '(&({0})->v)'),
        'op->:OptSaslAuth': ('expr', '(&({0})->v)'),
        'op->:OptSaslResponse': ('expr', '(&({0})->v)'),
        'op->:OptBind2Request': ('expr', '(&({0})->v)'),
        'op=:OptSasl2Authenticate:OptSasl2Authenticate': ('expr', '*({0}) = *({1})'),
        'OptSasl2Authenticate::reset/0': ('expr', '({0})->has = false'),
        # --- signals of QXmppIncomingClient / QXmppLoggable (moc-generated emitters): events
        'QXmppIncomingClient::elementReceived/1': ('fn', 'ev_elementReceived'),
        'QXmppIncomingClient::connected/0': ('fn', 'ev_connected'),
        '*::updateCounter/1': ('fn', 'ev_updateCounter'),
        # --- real one-liners of the class, lowered as well
        'QXmppIncomingClient::sendData/1': ('callee', 'QXmppIncomingClient_sendData'),
        'QXmppIncomingClient::disconnectFromHost/0': ('callee', 'QXmppIncomingClient_disconnectFromHost'),
        'QXmppIncomingClient::handleStart/0': ('callee', 'QXmppIncomingClient_handleStart'),
        'QXmppIncomingClient::onSasl2Authenticated/0': ('callee', 'QXmppIncomingClient_onSasl2Authenticated'),
        'QXmppIncomingClientPrivate::checkCredentials/1': ('callee', 'QXmppIncomingClientPrivate_checkCredentials'),
        'XmppSocket::socket/0': ('callee', 'XmppSocket_socket'),
        'QXmppPasswordRequest::setDomain/1': ('callee', 'QXmppPasswordRequest_setDomain'),
        'QXmppPasswordRequest::setUsername/1': ('callee', 'QXmppPasswordRequest_setUsername'),
        'QXmppPasswordRequest::setPassword/1': ('callee', 'QXmppPasswordRequest_setPassword'),
        'QXmppPasswordRequest::domain/0': ('callee', 'QXmppPasswordRequest_domain'),
        'QXmppPasswordRequest::username/0': ('callee', 'QXmppPasswordRequest_username'),
        'QXmppPasswordRequest::password/0': ('callee', 'QXmppPasswordRequest_password'),
        'QXmppPasswordReply::setDigest/1': ('callee', 'QXmppPasswordReply_setDigest'),
        'QXmppPasswordReply::setError/1': ('callee', 'QXmppPasswordReply_setError'),
        'QXmppPasswordReply::finishLater/0': ('callee', 'QXmppPasswordReply_finishLater'),
        'QXmppPasswordChecker::getPassword/2': get_password,
        'expr:CXXNewExpr': new_expr,
        'QXmppPasswordReply::error/0': ('callee', 'QXmppPasswordReply_error'),
        'QXmppPasswordReply::digest/0': ('callee', 'QXmppPasswordReply_digest'),
        'ctor:QXmppPasswordRequest()': ('zero',),
        # --- contracted callees (units/C16/callees.h)
        'XmppSocket::sendData/1': ('callee', 'XmppSocket_sendData'),
        'XmppSocket::disconnectFromHost/0': ('callee', 'XmppSocket_disconnectFromHost'),
        'QXmppIncomingClient::sendStreamFeatures/0': ('callee', 'QXmppIncomingClient_sendStreamFeatures'),
        'QXmppIncomingClient::sendPacket/1': send_packet,
        'fn:create/2': ('callee', 'QXmppSaslServer_create'),
        'QXmppSaslServer::respond/2': respond_call,
        'QXmppSaslServer::mechanism/0': ('callee', 'QXmppSaslServer_mechanism'),
        'QXmppSaslServer::username/0': ('fn', 'QXmppSaslServer_username'),
        'QXmppSaslServer::password/0': ('fn', 'QXmppSaslServer_password'),
        'QXmppSaslServer::setUsername/1': ('fn', 'QXmppSaslServer_setUsername'),
        'QXmppSaslServer::setPassword/1': ('fn', 'QXmppSaslServer_setPassword'),
        'qbytes::isEmpty/0': ('expr', '{0} == 0'),
        'qbytes::split/1': ('fnret', 'qbytes_split', 'QBytesList'),
        'QBytesList::size/0': ('expr', '({0})->n'),
        'op[]:QBytesList:int': ('fn', 'QBytesList_at'),
        'fn:fromUtf8/1': ('fn', 'qstr_fromUtf8'),
        'QXmppSaslServer::realm/0': ('fn', 'QXmppSaslServer_realm'),
        'QXmppSaslServer::setRealm/1': ('fn', 'QXmppSaslServer_setRealm'),
        'QXmppSaslServer::setPasswordDigest/1': ('fn', 'QXmppSaslServer_setPasswordDigest'),
        'QXmppPasswordChecker::checkPassword/1': ('callee', 'QXmppPasswordChecker_checkPassword'),
        'QXmppPasswordChecker::getDigest/1': ('callee', 'QXmppPasswordChecker_getDigest'),
        'fn:fromDom/1': from_dom,
        'fn:isBindIq/1': ('callee', 'QXmppBindIq_isBindIq'),
        'fn:isIqType/3': ('callee', 'isIqType'),
        'fn:generateStanzaHash/0': ('callee', 'QXmppUtils_generateStanzaHash'),   # default length argument: see default_args['int']
        'fn:generateStanzaHash/1': ('callee', 'QXmppUtils_generateStanzaHash'),
        # --- IQ value classes: field accessors (units/C16/model.h), the parser is a contracted callee
        'ctor:QXmppIq()': ('fn', 'QXmppIq_ctor0'),
        'QXmppIq::parse/1': ('callee', 'QXmppBindIq_parse'),
        'QXmppIq::resource/0': ('expr', '{v0}.resource'),
        'QXmppIq::id/0': ('expr', '{v0}.id'),
        'QXmppIq::setType/1': ('fn', 'QXmppIq_setType'),
        'QXmppIq::setId/1': ('fn', 'QXmppIq_setId'),
        'QXmppIq::setTo/1': ('fn', 'QXmppIq_setTo'),
        'QXmppIq::setJid/1': ('fn', 'QXmppIq_setJid'),
    }
    p = opaque_profile(types=types, class_types=class_types, calls=calls,
                       pure_fns={'origin', 'username', 'socket'})
    p.string_types.add('qbytes')
    p.default_args['QXmppIncomingClient*'] = 'NULL'
    # clang's JSON does not expand default arguments; the only int default met is generateStanzaHash(int length = 36), whose
    # contract leaves the result unconstrained for every length
    p.default_args['int'] = 'DEFAULT_LENGTH_ARGUMENT'
    p.default_args['Qt::ConnectionType'] = '0'   # QObject::connect(..., Qt::AutoConnection): the connect rule does not use it
    return p
