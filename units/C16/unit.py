"""C16 -- the bundled server routes only for authenticated clients and stamps their true address.

Real functions lowered on every run:
  src/server/QXmppIncomingClient.cpp: QXmppIncomingClient::{handleStanza, onPasswordReply, onDigestReply, onSasl2Authenticated, sendData,
      disconnectFromHost, handleStart}, QXmppIncomingClientPrivate::checkCredentials
  src/base/QXmppSasl.cpp:             QXmppSaslServerPlain::respond, QXmppSaslServerAnonymous::respond, the three mechanism() overrides,
                                      QXmppSaslServerDigestMd5::respond + calculateDigest + QXmppSaslServer::{username,password,realm,passwordDigest,setUsername} (byte-term model)
  src/base/Stream.cpp:                XmppSocket::isConnected;  QXmppIncomingClient::isConnected
  src/base/XmppSocket.h:              XmppSocket::socket
  src/server/QXmppPasswordChecker.cpp: QXmppPasswordChecker::checkPassword (the bundled base implementation), QXmppPasswordReply::setError, QXmppPasswordRequest::{setDomain, setUsername, setPassword, domain, username, password}, QXmppPasswordReply::{error, digest}
"""
import os, re, sys
from concurrent.futures import ThreadPoolExecutor
from vlib.unit import Builder, Target, Spec, VERIF, scan_assumes
from vlib.runner import Proof, ToolError
from vlib.cxx2c import strip_type, Unsupported
from vlib import ctx, astx, configure, native
import lowering
from lowering import C16Lowerer, profile

QT = os.path.join(VERIF, 'qtmodel')
HERE = os.path.dirname(os.path.abspath(__file__))
IC = 'src/server/QXmppIncomingClient.cpp'
PC = 'src/server/QXmppPasswordChecker.cpp'
SASL = 'src/base/QXmppSasl.cpp'
F1, F2, F3 = 'C16-F1', 'C16-F2', 'C16-F3'


def rd(name):
    return open(os.path.join(HERE, name)).read()


def path(rel):
    return os.path.join(configure.REPO, rel)


def _try_dump(src, filt):
    try:
        astx.dump(src, filt)
    except astx.ExtractError:
        pass


def prewarm(jobs):
    configure.configure()
    with ThreadPoolExecutor(max_workers=4) as ex:
        list(ex.map(lambda j: _try_dump(*j), jobs))


def unnamed_enum_of(record_decl):
    """{name: value} of the single unnamed enum declared inside a class (QXmppIncomingClientPrivate: enum { Sasl, Sasl2 } saslVersion)"""
    enums = [c for c in record_decl.get('inner', []) if c.get('kind') == 'EnumDecl' and not c.get('name')]
    if len(enums) != 1:
        raise Unsupported('QXmppIncomingClientPrivate: %d unnamed enums (renamed/restructured code)' % len(enums))
    vals, nxt = {}, 0
    for c in enums[0].get('inner', []):
        if c.get('kind') != 'EnumConstantDecl':
            continue
        v = None
        for i in c.get('inner', []):
            vi = ctx._const_value(i)
            if vi is not None:
                v = vi
        if v is None:
            v = nxt
        vals[c['name']] = v
        nxt = v + 1
    return vals


def jid_write_inventory():
    """closed world (DESIGN 5.7): every assignment to QXmppIncomingClientPrivate::jid in the TU lies in a function under contract"""
    docs, _ = astx.dump(path(IC), 'QXmppIncomingClient')
    sites = set()

    def is_jid_member(n):
        while n.get('kind') in ('ImplicitCastExpr', 'ParenExpr', 'MaterializeTemporaryExpr', 'ExprWithCleanups'):
            n = n['inner'][0]
        return n.get('kind') == 'MemberExpr' and n.get('name') == 'jid' and 'QString' in n.get('type', {}).get('qualType', '')

    def walk(n, fn):
        k = n.get('kind')
        if k == 'CXXOperatorCallExpr' and len(n.get('inner', [])) >= 2:
            callee = n['inner'][0]
            while 'referencedDecl' not in callee and callee.get('inner'):
                callee = callee['inner'][0]
            nm = callee.get('referencedDecl', {}).get('name', '')
            if nm in ('operator=', 'operator+=') and is_jid_member(n['inner'][1]):
                sites.add(fn)
        if k == 'CXXMemberCallExpr':
            me = n['inner'][0]
            if me.get('kind') == 'MemberExpr' and me.get('inner') and is_jid_member(me['inner'][0]) and \
                    me.get('name') in ('clear', 'append', 'prepend', 'swap', 'insert', 'remove', 'replace', 'resize', 'truncate', 'chop', 'fill', 'push_back'):
                sites.add(fn)
        for c in n.get('inner', []):
            if isinstance(c, dict):
                walk(c, fn)
    for d in docs:
        stack = [d]
        while stack:
            x = stack.pop()
            if x.get('kind') in ('CXXMethodDecl', 'CXXConstructorDecl', 'CXXDestructorDecl', 'FunctionDecl') and astx.has_body(x):
                walk(x, x.get('name'))
            elif x.get('kind') in ('CXXRecordDecl', 'NamespaceDecl'):
                stack.extend(c for c in x.get('inner', []) if isinstance(c, dict))
    return sites


def sasl_object_write_inventory():
    """functions of the TU that assign d->saslServer (operator=) -- only they can install a new SASL object; reset() only removes one"""
    docs, _ = astx.dump(path(IC), 'QXmppIncomingClient')
    sites = set()

    def is_member(n):
        while n.get('kind') in ('ImplicitCastExpr', 'ParenExpr', 'MaterializeTemporaryExpr', 'ExprWithCleanups'):
            n = n['inner'][0]
        return n.get('kind') == 'MemberExpr' and n.get('name') == 'saslServer'

    def walk(n, fn):
        if n.get('kind') == 'CXXOperatorCallExpr' and len(n.get('inner', [])) >= 2:
            callee = n['inner'][0]
            while 'referencedDecl' not in callee and callee.get('inner'):
                callee = callee['inner'][0]
            if callee.get('referencedDecl', {}).get('name') == 'operator=' and is_member(n['inner'][1]):
                sites.add(fn)
        if n.get('kind') == 'CXXMemberCallExpr':
            me = n['inner'][0]
            if me.get('kind') == 'MemberExpr' and me.get('inner') and is_member(me['inner'][0]) and me.get('name') in ('swap', 'release'):
                sites.add(fn)
        for c in n.get('inner', []):
            if isinstance(c, dict):
                walk(c, fn)
    for d in docs:
        stack = [d]
        while stack:
            x = stack.pop()
            if x.get('kind') in ('CXXMethodDecl', 'CXXConstructorDecl', 'CXXDestructorDecl', 'FunctionDecl') and astx.has_body(x):
                walk(x, x.get('name'))
            elif x.get('kind') in ('CXXRecordDecl', 'NamespaceDecl'):
                stack.extend(c for c in x.get('inner', []) if isinstance(c, dict))
    return sites


WRITERS_UNDER_CONTRACT = {'handleStanza', 'onPasswordReply', 'onSasl2Authenticated'}


def build_digest(work, proofs):
    """QXmppSaslServerDigestMd5::respond in the byte-term model (qtmodel/terms.h).  The lowering profile, the term vocabulary and the RFC 2831
    formulas are those of units/C06 (client side of the same mechanism): reused read-only; a change there that breaks this build is exit 2."""
    c06 = os.path.join(VERIF, 'units', 'C06')
    if c06 not in sys.path:
        sys.path.append(c06)
    import c06lower as P
    prof = P.profile()
    prof.types = dict(prof.types)
    prof.calls = dict(prof.calls)
    prof.class_types = set(prof.class_types)
    prof.types.update({'QXmppSaslServer': 'QXmppSaslServer', 'QXmppSaslServerDigestMd5': 'QXmppSaslServerDigestMd5', 'QXmppSaslServerPrivate': 'QXmppSaslServerPrivate',
                       'std::unique_ptr<QXmppSaslServerPrivate>': 'QXmppSaslServerPrivate*', 'QXmppSaslServer::Response': 'int'})
    prof.class_types.update({'QXmppSaslServer', 'QXmppSaslServerDigestMd5', 'QXmppSaslServerPrivate'})
    prof.calls.update({
        'op->:QXmppSaslServerPrivate*': ('expr', '{0}'),
        '*::username/0': P.base_getter('QXmppSaslServer_username', 'QS'),
        '*::password/0': P.base_getter('QXmppSaslServer_password', 'QS'),
        '*::realm/0': P.base_getter('QXmppSaslServer_realm', 'QS'),
        '*::passwordDigest/0': P.base_getter('QXmppSaslServer_passwordDigest', 'BA'),
        '*::setUsername/1': lambda lw, node, args: (lw.repo_callees.add('QXmppSaslServer_setUsername'), 'QXmppSaslServer_setUsername(&%s->base, %s)' % (args[0], args[1]))[1],
    })
    b = Builder('C16', work, prof)
    src = path(SASL)

    def tgt(filt, name, cname, this=None):
        return Target(SASL, filt, name, cname, this=this, lowerer_cls=P.SaslLowerer)
    sp = b.spec('digestRespond.spec')
    t_resp = b.lower(tgt('QXmppSaslServerDigestMd5::respond', 'respond', 'QXmppSaslServerDigestMd5_respond', this='QXmppSaslServerDigestMd5'), sp)
    t_dig = b.lower(tgt('calculateDigest', 'calculateDigest', 'calculateDigest'))
    acc = [b.lower(tgt('QXmppSaslServer::' + n, n, 'QXmppSaslServer_' + n, this='QXmppSaslServer')) for n in ('username', 'password', 'realm', 'passwordDigest', 'setUsername')]
    b.need_enums.setdefault((src, ()), {}).setdefault('QCryptographicHash::Algorithm', set()).update({'Md5'})
    b.need_enums.setdefault((src, ()), {}).setdefault('QXmppSaslServer::Response', set()).update({'Challenge', 'Succeeded', 'Failed', 'InputNeeded'})
    context = b.context()

    def record(cls, base=None):
        text, _ = ctx.emit_record(src, cls, cls, cls, prof, opaque_ok=True)
        if base:
            text = text.replace('{\n', '{\n  %s base;   /* base-class sub-object */\n' % base, 1)
        return text
    recs = [record('QXmppSaslServerPrivate'), record('QXmppSaslServer'), record('QXmppSaslServerDigestMd5', base='QXmppSaslServer')]
    for r_, fs in zip(recs, (['username', 'password', 'passwordDigest', 'realm'], ['d'], ['m_cnonce', 'm_nc', 'm_nonce', 'm_secret', 'm_step'])):
        for f_ in fs:
            if not re.search(r'\b%s;' % f_, r_):
                raise Unsupported('DIGEST-MD5 server records: member %s missing or of an unmodelled type (renamed/restructured code)' % f_)
    TL = 24
    resp_defs = '\n'.join('#define RESP_%s QXmppSaslServer_Response__%s' % (n, n) for n in ('Challenge', 'Succeeded', 'Failed', 'InputNeeded'))
    c = '\n'.join(['#define TERM_L %d' % TL, '#include "terms.h"', context, resp_defs] + recs + [open(os.path.join(c06, 'mech_spec.h')).read(), rd('digest_model.h')] + acc + [t_dig, t_resp,
                   'void h_digestRespond(void) { QXmppSaslServerDigestMd5 *self; const BA *request; BA *response; QXmppSaslServerDigestMd5_respond(self, request, response); }\n'])
    f = b.write('c16_digest.c', c)
    for pid, defs in (('digestRespond.step0', ['ONLY_STEP=0']), ('digestRespond.step1', ['ONLY_STEP=1']), ('digestRespond.step2', ['ONLY_STEP=2']), ('digestRespond.other_steps', ['OTHER_STEPS'])):
        p = Proof(pid, f, 'h_digestRespond', enforce='QXmppSaslServerDigestMd5_respond', replace=['QXmppSaslDigestMd5_parseMessage', 'QXmppSaslDigestMd5_serializeMessage'],
                  kind='complete', loop_contracts=False, unwind=TL + 2, include_dirs=[QT], defines=defs, timeout=1500, object_bits=10,
                  note='loop-free; the real QXmppSaslServerDigestMd5::respond in the byte-term model (shared with C06): user, password, stored digest, realm, nonces, client message arbitrary (opaque); '
                       'calculateDigest inlined (the real body); split by the value of the step counter; model-internal loops over the %d atom slots fully unwound' % TL)
        p.labels = {'post': {'QXmppSaslServerDigestMd5_respond': sp.labels}}
        p.expect_post = len(sp.labels)
        proofs.append(p)
    return b, rd('digest_model.h')


def build(work, tier):
    prewarm([(path(IC), 'QXmppIncomingClient'), (path(IC), 'XmppSocket'), (path(IC), 'QXmppPasswordRe'), (path(PC), 'QXmppPasswordRequest::'), (path(PC), 'QXmppPasswordReply::'), (path(PC), 'QXmppPasswordChecker::checkPassword'), (path(PC), 'QXmppPasswordChecker::getDigest'), (path(SASL), 'QXmppSaslServerPlain::respond'), (path(SASL), 'QXmppSaslServerAnonymous::respond'), (path(SASL), 'QXmppSaslServerPlain::mechanism'), (path(SASL), 'QXmppSaslServerAnonymous::mechanism'), (path(SASL), 'QXmppSaslServerDigestMd5::mechanism'), (path(IC), 'QXmppIq')])
    # ------------------------------------------------------------------ the connection's private record, from the real class
    fields, pdecl = ctx.record_fields(path(IC), 'QXmppIncomingClient', 'QXmppIncomingClientPrivate')
    fd = dict(fields)
    if 'saslVersion' not in fd:
        raise Unsupported('QXmppIncomingClientPrivate has no member saslVersion (renamed/restructured code)')
    keys = {strip_type(fd['saslVersion']['qualType']), strip_type(fd['saslVersion'].get('desugaredQualType', fd['saslVersion']['qualType']))}
    saslver = unnamed_enum_of(pdecl)
    prof = profile(keys)
    b = Builder('C16', work, prof)

    recs = {}
    for src, filt, cls in ((IC, 'XmppSocket', 'XmppSocket'), (IC, 'QXmppPasswordRe', 'QXmppPasswordRequest'), (IC, 'QXmppPasswordRe', 'QXmppPasswordReply'),
                           (IC, 'QXmppIncomingClient', 'QXmppIncomingClientPrivate'), (IC, 'QXmppIncomingClient', 'QXmppIncomingClient')):
        text, names = ctx.emit_record(path(src), filt, cls, cls, prof, opaque_ok=True)
        recs[cls] = text
    need = {'QXmppIncomingClientPrivate': ['idleTimer', 'socket', 'domain', 'jid', 'resource', 'passwordChecker', 'saslServer', 'saslVersion', 'sasl2AuthRequest', 'q'],
            'QXmppIncomingClient': ['d'], 'XmppSocket': ['m_socket'], 'QXmppPasswordRequest': ['m_domain', 'm_password', 'm_username'],
            'QXmppPasswordReply': ['m_digest', 'm_error']}
    for cls, fs in need.items():
        for f in fs:
            if not re.search(r'\b%s;' % f, recs[cls]):
                raise Unsupported('record %s: member %s missing or of an unmodelled type (renamed/restructured code)' % (cls, f))
    # QXmppIncomingClient is forward-declared in model.h: emit its record as a struct definition
    recs['QXmppIncomingClient'] = re.sub(r'^typedef struct QXmppIncomingClient \{', 'struct QXmppIncomingClient {', recs['QXmppIncomingClient'])
    recs['QXmppIncomingClient'] = re.sub(r'\} QXmppIncomingClient;\s*$', '};', recs['QXmppIncomingClient'])
    records = '\n'.join(recs[c] for c in ('XmppSocket', 'QXmppPasswordRequest', 'QXmppPasswordReply', 'QXmppIncomingClientPrivate', 'QXmppIncomingClient'))
    # type invariant of the private object: its enum-typed members hold declared enumerators (generated from the class definition)
    inv, _ = ctx.enum_field_invariant(path(IC), 'QXmppIncomingClient', 'QXmppIncomingClientPrivate')
    records += '\n#define QXmppIncomingClientPrivate_ENUMS_VALID(p) (' + inv.replace('%s', 'p') + ')\n'

    # ------------------------------------------------------------------ lowering of the real functions
    lowered, specs, lws = {}, {}, []

    def low(src, filt, name, cname, this, specfile=None, **kw):
        sp = b.spec(specfile) if specfile else None
        t = Target(src, filt, name, cname, this=this, parent=None, lowerer_cls=C16Lowerer, **kw)
        lowered[cname] = b.lower(t, sp)
        specs[cname] = sp
        lws.append(b.last)

    low(IC, 'QXmppIncomingClient', 'handleStanza', 'QXmppIncomingClient_handleStanza', 'QXmppIncomingClient', 'handleStanza.spec')
    low(IC, 'QXmppIncomingClient', 'onPasswordReply', 'QXmppIncomingClient_onPasswordReply', 'QXmppIncomingClient', 'onPasswordReply.spec')
    low(IC, 'QXmppIncomingClient', 'onDigestReply', 'QXmppIncomingClient_onDigestReply', 'QXmppIncomingClient', 'onDigestReply.spec')
    low(IC, 'QXmppIncomingClient', 'onSasl2Authenticated', 'QXmppIncomingClient_onSasl2Authenticated', 'QXmppIncomingClient', 'onSasl2Authenticated.spec')
    low(IC, 'QXmppIncomingClient', 'checkCredentials', 'QXmppIncomingClientPrivate_checkCredentials', 'QXmppIncomingClientPrivate', 'checkCredentials.spec')
    low(PC, 'QXmppPasswordChecker::checkPassword', 'checkPassword', 'QXmppPasswordChecker_checkPassword_base', 'QXmppPasswordChecker', 'checkPassword.spec')
    low(PC, 'QXmppPasswordChecker::getDigest', 'getDigest', 'QXmppPasswordChecker_getDigest_base', 'QXmppPasswordChecker', 'getDigest.spec')
    low(SASL, 'QXmppSaslServerPlain::respond', 'respond', 'QXmppSaslServerPlain_respond', 'QXmppSaslServer', 'plainRespond.spec')
    low(SASL, 'QXmppSaslServerAnonymous::respond', 'respond', 'QXmppSaslServerAnonymous_respond', 'QXmppSaslServer', 'anonymousRespond.spec')
    for cls, mech in (('QXmppSaslServerPlain', 'PLAIN'), ('QXmppSaslServerAnonymous', 'ANONYMOUS'), ('QXmppSaslServerDigestMd5', 'DIGEST-MD5')):
        sp = Spec(b.subst(rd('mechanismName.spec.in').replace('@NAME@', mech)))
        cn = cls + '_mechanism'
        lowered[cn] = b.lower(Target(SASL, cls + '::mechanism', 'mechanism', cn, this='QXmppSaslServer', parent=None, lowerer_cls=C16Lowerer), sp)
        specs[cn] = sp
        lws.append(b.last)
    helpers = []
    for src, filt, name, cname, this in ((IC, 'QXmppIncomingClient', 'sendData', 'QXmppIncomingClient_sendData', 'QXmppIncomingClient'),
                                         (IC, 'QXmppIncomingClient', 'disconnectFromHost', 'QXmppIncomingClient_disconnectFromHost', 'QXmppIncomingClient'),
                                         (IC, 'QXmppIncomingClient', 'handleStart', 'QXmppIncomingClient_handleStart', 'QXmppIncomingClient'),
                                         ('src/base/Stream.cpp', 'XmppSocket::isConnected', 'isConnected', 'XmppSocket_isConnected', 'XmppSocket'),
                                         (IC, 'QXmppIncomingClient::isConnected', 'isConnected', 'QXmppIncomingClient_isConnected', 'QXmppIncomingClient'),
                                         (IC, 'XmppSocket', 'socket', 'XmppSocket_socket', 'XmppSocket'),
                                         (PC, 'QXmppPasswordRequest::', 'setDomain', 'QXmppPasswordRequest_setDomain', 'QXmppPasswordRequest'),
                                         (PC, 'QXmppPasswordRequest::', 'setUsername', 'QXmppPasswordRequest_setUsername', 'QXmppPasswordRequest'),
                                         (PC, 'QXmppPasswordRequest::', 'setPassword', 'QXmppPasswordRequest_setPassword', 'QXmppPasswordRequest'),
                                         (PC, 'QXmppPasswordRequest::', 'domain', 'QXmppPasswordRequest_domain', 'QXmppPasswordRequest'),
                                         (PC, 'QXmppPasswordRequest::', 'username', 'QXmppPasswordRequest_username', 'QXmppPasswordRequest'),
                                         (PC, 'QXmppPasswordRequest::', 'password', 'QXmppPasswordRequest_password', 'QXmppPasswordRequest'),
                                         (PC, 'QXmppPasswordReply::', 'setError', 'QXmppPasswordReply_setError', 'QXmppPasswordReply'),
                                         (PC, 'QXmppPasswordReply::', 'setDigest', 'QXmppPasswordReply_setDigest', 'QXmppPasswordReply'),
                                         (PC, 'QXmppPasswordReply::', 'error', 'QXmppPasswordReply_error', 'QXmppPasswordReply'),
                                         (PC, 'QXmppPasswordReply::', 'digest', 'QXmppPasswordReply_digest', 'QXmppPasswordReply')):
        low(src, filt, name, cname, this)
        helpers.append(cname)

    # ------------------------------------------------------------------ closed world: who writes d->jid
    writers = jid_write_inventory()
    if not writers <= WRITERS_UNDER_CONTRACT:
        raise ToolError('d->jid is assigned in functions the unit does not cover: %s' % sorted(writers - WRITERS_UNDER_CONTRACT))

    installers = sasl_object_write_inventory()
    if not installers <= {'handleStanza'}:
        raise ToolError('d->saslServer is assigned in functions the unit does not cover (SASL object invariant): %s' % sorted(installers - {'handleStanza'}))

    # ------------------------------------------------------------------ assemble one C file
    payload = sorted(set().union(*[lw.need_payload for lw in lws]))
    payload_defs = '\n'.join('#define XML_%s %d' % (t, 1000000 + i) for i, t in enumerate(payload))
    used_ver = set().union(*[lw.need_saslver for lw in lws])
    for n in used_ver:
        if n not in saslver:
            raise Unsupported('unnamed enum of QXmppIncomingClientPrivate has no constant %s' % n)
    saslver_defs = '\n'.join('#define SASLVER_%s %d' % (k, v) for k, v in saslver.items())
    iq_types = ctx.enum_values(path(IC), 'QXmppIq::Type')
    pre_defs = '#define IQ_TYPE_GET %d' % iq_types['Get']
    main_fns = ['QXmppSaslServerPlain_mechanism', 'QXmppSaslServerAnonymous_mechanism', 'QXmppSaslServerDigestMd5_mechanism', 'QXmppSaslServerPlain_respond', 'QXmppSaslServerAnonymous_respond', 'QXmppPasswordChecker_checkPassword_base', 'QXmppPasswordChecker_getDigest_base', 'QXmppIncomingClientPrivate_checkCredentials', 'QXmppIncomingClient_onSasl2Authenticated', 'QXmppIncomingClient_handleStanza',
                'QXmppIncomingClient_onPasswordReply', 'QXmppIncomingClient_onDigestReply']
    protos = '\n'.join(lowered[f].split('\n')[0] + ';' for f in main_fns + helpers)
    seen_ctx = set()
    ctxt = '\n'.join(l for l in b.context().split('\n') if not (l.startswith(('enum {', 'static const')) and (l in seen_ctx or seen_ctx.add(l))))   # same enum met in two TUs
    body = '\n'.join(lowered[f] for f in helpers) + '\n' + '\n'.join(getattr(b, 'lifted', [])) + '\n' + '\n'.join(lowered[f] for f in main_fns)   # lifted local lambdas precede their users
    harness = '''
void h_handleStanza(void) { gh_havoc(); QXmppIncomingClient *self; qdom nodeRecv; QXmppIncomingClient_handleStanza(self, nodeRecv); }
void h_onPasswordReply(void) { gh_havoc(); QXmppIncomingClient *self; QXmppIncomingClient_onPasswordReply(self); }
void h_onDigestReply(void) { gh_havoc(); QXmppIncomingClient *self; QXmppIncomingClient_onDigestReply(self); }
void h_onSasl2Authenticated(void) { gh_havoc(); QXmppIncomingClient *self; QXmppIncomingClient_onSasl2Authenticated(self); }
void h_plainRespond(void) { gh_havoc(); QXmppSaslServer *self; qbytes request; qbytes *response; QXmppSaslServerPlain_respond(self, request, response); }
void h_anonymousRespond(void) { gh_havoc(); QXmppSaslServer *self; qbytes request; qbytes *response; QXmppSaslServerAnonymous_respond(self, request, response); }
void h_mechPlain(void) { const QXmppSaslServer *self; QXmppSaslServerPlain_mechanism(self); }
void h_mechAnonymous(void) { const QXmppSaslServer *self; QXmppSaslServerAnonymous_mechanism(self); }
void h_mechDigest(void) { const QXmppSaslServer *self; QXmppSaslServerDigestMd5_mechanism(self); }
void h_getDigest(void) { gh_havoc(); QXmppPasswordChecker *self; const QXmppPasswordRequest *request; QXmppPasswordChecker_getDigest_base(self, request); }
void h_checkPassword(void) { gh_havoc(); QXmppPasswordChecker *self; const QXmppPasswordRequest *request; QXmppPasswordChecker_checkPassword_base(self, request); }
void h_checkCredentials(void) { gh_havoc(); QXmppIncomingClientPrivate *self; qbytes response; QXmppIncomingClientPrivate_checkCredentials(self, response); }
'''
    c = '\n'.join(['#include "opaque.h"', prof.literal_ids.table(), pre_defs, b.subst(rd('model.h')), records, ctxt, payload_defs, saslver_defs,
                   b.subst(rd('callees.h')), protos, body, harness, b.subst(rd('lemma.h'))])
    f = b.write('c16.c', c)

    stubs = ['XmppSocket_sendData', 'XmppSocket_disconnectFromHost', 'QXmppIncomingClient_sendStreamFeatures', 'QXmppSaslServer_create', 'QXmppSaslServer_respond',
             'QXmppSaslServer_mechanism', 'QXmppPasswordChecker_checkPassword', 'QXmppPasswordChecker_getDigest', 'StarttlsRequest_fromDom',
             'Sasl2_Authenticate_fromDom', 'Sasl2_Response_fromDom', 'Sasl2_Abort_fromDom', 'Sasl_Auth_fromDom', 'Sasl_Response_fromDom',
             'QXmppBindIq_isBindIq', 'isIqType', 'QXmppBindIq_parse', 'QXmppUtils_generateStanzaHash']
    proofs = []

    def proof(pid, entry, enforce, replace, defines, note='', finding=None):
        sp = specs[enforce]
        p = Proof(pid, f, entry, enforce=enforce, replace=replace, kind='complete', include_dirs=[QT], timeout=900, loop_contracts=False,
                  defines=list(defines), note=note)
        p.labels = {'post': {enforce: sp.labels}}
        p.expect_post = len(sp.labels)
        if finding:
            p.finding = finding
        proofs.append(p)
        return p

    CC, S2A = 'QXmppIncomingClientPrivate_checkCredentials', 'QXmppIncomingClient_onSasl2Authenticated'
    proof('plainRespond', 'h_plainRespond', 'QXmppSaslServerPlain_respond', stubs, (),
          note='loop-free; every payload (QByteArray::split / fromUtf8 as uninterpreted functions of the bytes), every step counter')
    proof('anonymousRespond', 'h_anonymousRespond', 'QXmppSaslServerAnonymous_respond', stubs, (), note='loop-free; this postcondition is the ANONYMOUS clause of the respond contract used in the handlers')
    for h_, cn in (('h_mechPlain', 'QXmppSaslServerPlain_mechanism'), ('h_mechAnonymous', 'QXmppSaslServerAnonymous_mechanism'), ('h_mechDigest', 'QXmppSaslServerDigestMd5_mechanism')):
        proof(cn, h_, cn, [], (), note='loop-free; the override names its mechanism')
    proof('getDigest', 'h_getDigest', 'QXmppPasswordChecker_getDigest_base', stubs + ['QXmppPasswordChecker_getPassword', 'QXmppPasswordReply_new', 'QXmppPasswordReply_finishLater'], (),
          note='loop-free; the bundled QXmppPasswordChecker::getDigest: every request, every verdict and secret of the (virtual) account lookup; MD5 / toUtf8 / concatenation uninterpreted')
    proof('checkPassword', 'h_checkPassword', 'QXmppPasswordChecker_checkPassword_base', stubs + ['QXmppPasswordChecker_getPassword', 'QXmppPasswordReply_new', 'QXmppPasswordReply_finishLater'], (),
          note='loop-free; the bundled QXmppPasswordChecker::checkPassword: every request, every verdict and secret of the (virtual) account lookup')
    proof('checkCredentials', 'h_checkCredentials', CC, stubs, (), note='loop-free; every mechanism name, every credential string')
    proof('onSasl2Authenticated', 'h_onSasl2Authenticated', S2A, stubs, (), note='loop-free; with and without an inline bind request')
    import json
    fixed = {x['id'] for x in json.load(open(os.path.join(HERE, 'findings.json'))) if x.get('status') == 'fixed'}
    if F1 in fixed:
        proof('handleStanza', 'h_handleStanza', 'QXmppIncomingClient_handleStanza', stubs + [CC, S2A], (),
              note='loop-free; every element (abstract DOM), every connection state (finding %s is repaired: no input class is set aside); '
                   'checkCredentials and onSasl2Authenticated replaced by their verified contracts' % F1)
    else:
      proof('handleStanza', 'h_handleStanza', 'QXmppIncomingClient_handleStanza', stubs + [CC, S2A], ('F1_EXCLUDED',),
          note='loop-free; every element (abstract DOM), every connection state except the class of finding %s (unauthenticated connection, jabber:client element); '
               'checkCredentials and onSasl2Authenticated replaced by their verified contracts' % F1)
      proof('handleStanza.finding', 'h_handleStanza', 'QXmppIncomingClient_handleStanza', stubs + [CC, S2A], ('F1_ONLY',), finding=F1,
            note='same contract restricted to the class of finding %s' % F1)
    proof('onPasswordReply', 'h_onPasswordReply', 'QXmppIncomingClient_onPasswordReply', stubs + [S2A], ('F3_EXCLUDED',),
          note='loop-free; every reply, every connection state except the class of %s (no SASL object)' % F3)
    proof('onPasswordReply.finding-null', 'h_onPasswordReply', 'QXmppIncomingClient_onPasswordReply', stubs + [S2A], ('F3_ONLY',), finding=F3,
          note='same contract restricted to the class of finding %s' % F3)
    proof('onDigestReply', 'h_onDigestReply', 'QXmppIncomingClient_onDigestReply', stubs, ('F3_EXCLUDED',),
          note='loop-free; every reply, every connection state except the class of %s (no SASL object)' % F3)
    proof('onDigestReply.finding-null', 'h_onDigestReply', 'QXmppIncomingClient_onDigestReply', stubs, ('F3_ONLY',), finding=F3,
          note='same contract restricted to the class of finding %s' % F3)

    def lemma(pid, defines, note, finding=None):
        p = Proof(pid, f, 'h_lemma_request_then_reply', enforce=None, replace=stubs + [S2A], kind='complete', include_dirs=[QT], timeout=900, loop_contracts=False,
                  defines=list(defines), note=note)
        p.labels = {}
        p.expect_post = 2
        if finding:
            p.finding = finding
        proofs.append(p)

    lemma('lemma.request_then_reply', ('F2_EXCLUDED',),
          'two-step lemma over the real checkCredentials and the real onPasswordReply with an arbitrary interleaving in between, except the class of %s '
          '(the SASL object no longer holds the user the checker was asked about)' % F2)
    lemma('lemma.request_then_reply.finding-stale', ('F2_ONLY',), 'same lemma restricted to the class of finding %s' % F2, finding=F2)

    p = Proof('lemma.digest_lookup_then_reply', f, 'h_lemma_digest_lookup_then_reply', enforce=None,
              replace=stubs + ['QXmppPasswordChecker_getPassword', 'QXmppPasswordReply_new', 'QXmppPasswordReply_finishLater'], kind='complete', include_dirs=[QT], timeout=900,
              loop_contracts=False, defines=['F3_EXCLUDED'],
              note='two-step lemma over the real bundled getDigest and the real onDigestReply: DIGEST-MD5 verification passes only for a user the checker knows '
                   'and against the digest of that user\'s password (DIGEST-MD5 respond behind its assumed contract)')
    p.labels = {}
    p.expect_post = 3
    proofs.append(p)

    db, dtext = build_digest(work, proofs)
    b.functions.extend(db.functions)
    b.dropped.extend(db.dropped)
    for k_, v_ in db.fired.items():
        b.fired[k_] = b.fired.get(k_, 0) + v_

    unit_text = dtext + rd('model.h') + rd('lemma.h') + rd('callees.h') + open(os.path.join(QT, 'opaque.h')).read()
    return {
        'proofs': proofs, 'functions': b.functions, 'dropped': b.dropped, 'fired': b.fired, 'hooks': [],
        'assumed': ASSUMED, 'assumes': scan_assumes(unit_text), 'not_covered': NOT_COVERED,
        'explanation': 'closed world: d->jid is assigned only in %s (AST inventory of QXmppIncomingClient.cpp); unnamed enum saslVersion = %s' % (sorted(writers), saslver),
    }


ASSUMED = [
    'abstract DOM and opaque strings (qtmodel/opaque.h); QDomElement::setAttribute as a two-entry write log over it (QDomElement copies share the node) (units/C16/model.h)',
    'QString::arg / operator+ are uninterpreted functions of (format literal, operands); a format with text outside the placeholders yields a non-empty string',
    'A-QTIMER, A-QSSL, A-QOBJECT (units/C16/model.h): timer, socket flush/startServerEncryption, setParent/deleteLater/dynamic properties act on their own object only; sender() is the reply whose finished() runs the slot',
    'in the connection handlers QXmppSaslServer::respond (virtual) obeys the contract of the override of the object\'s mechanism: PLAIN never Succeeded and ANONYMOUS Succeeded exactly at step 0 / names no user (both verified on the real overrides), DIGEST-MD5 any verdict with Succeeded only after step >= 1 (assumed; its Succeeded rests on the digest of the checker\'s secret handed over by onDigestReply); virtual dispatch selects the override whose mechanism() names the object\'s mechanism (the three mechanism() overrides are verified); create() returns nullptr or a new step-0 object of one of the three mechanisms with the requested name (assumed, std::make_unique chain not lowered); every SASL object is installed by handleStanza, which calls respond() on it at once (AST inventory + verified invariant), handleStream only removes it; username()/password()/realm()/setUsername()/setPassword()/setRealm()/setPasswordDigest() are field accessors',
    'A-SPLIT: QByteArray::split yields at least one part; the parts and their number, and QString::fromUtf8, are functions of the bytes (uninterpreted)',
    'A-HASH: QCryptographicHash::hash and QString::toUtf8 are functions of their operands; a digest and the encoding of a non-empty string are non-empty',
    'the reply consumed by onDigestReply obeys the contract of getDigest (no digest unless NoError): verified for the bundled QXmppPasswordChecker::getDigest, assumed for application subclasses that override getDigest',
    'the DIGEST-MD5 clause of the handlers\' respond contract (never sets a password, never steps back, asks for input while it has neither password nor digest, goes from step 1 to step 2 only by verifying the client\'s response against the stored digest, Succeeded only from step 2) restates, in the opaque-id vocabulary, postconditions verified on the real QXmppSaslServerDigestMd5::respond in the byte-term model (digestRespond.spec); the correspondence of the two vocabularies is by reading',
    'A-DIGEST-GRAMMAR: QXmppSaslDigestMd5::parseMessage / serializeMessage are functions of the message (directive present or not, value empty / the word auth / another byte string); term algebra of qtmodel/terms.h (A-CRYPTO, A-HEX, A-UTF8-HOM, A-SEQ) as in units/C06, whose lowering profile, mech_spec.h (RFC 2831 formulas) are reused read-only',
    'inside the bundled checkPassword / getDigest: getPassword() (virtual account lookup) returns any verdict and secret; new QXmppPasswordReply starts with NoError / not finished (its constructor\'s initialisers); finishLater() only schedules finished()',
    'QXmppPasswordChecker::checkPassword / getDigest (virtual, asynchronous) return a new reply object for the request; the reply that later runs a slot answers the request recorded for it (gh_sender_req_*)',
    'XmppSocket::sendData / disconnectFromHost are the only way bytes / a close reach the peer (event counters); payloads are classified by the C++ type passed to serializeXml',
    'sendStreamFeatures() transmits one <stream:features/> and changes no connection state (contract, body not verified here)',
    'the static parsers (StarttlsRequest/Sasl::Auth/Sasl::Response/Sasl2::Authenticate/Sasl2::Response/Sasl2::Abort::fromDom), QXmppBindIq::isBindIq/parse, isIqType, generateStanzaHash are side-effect free on the connection; their results are unconstrained',
    'QXmppIq / QXmppBindIq setters and getters are field accessors; sendPacket(iq) transmits exactly that iq (event)',
    'signals elementReceived / connected / updateCounter are events; what the server does with them (routing tables) is outside this unit',
    'handleStanza is invoked by XmppSocket::stanzaReceived, i.e. with a socket attached (d->socket.m_socket != nullptr) and d->q == this; d->domain is not changed after construction',
    'dereferencing d->sasl2AuthRequest (std::optional) reads the stored value whether or not the optional is engaged (the code guards it only by Q_ASSERT)',
]
NOT_COVERED = [
    'QXmppServer::routeData / routing tables, S2S, presence broadcasting: what happens to an element after elementReceived',
    'character-level grammar of DIGEST-MD5 messages (quoting, escaping) and freshness/unpredictability of the server nonce (generateNonce in the constructor; units/C06 verifies generateNonce)',
    'byte-level behaviour of QByteArray::split / QString::fromUtf8 (Qt) behind A-SPLIT; application subclasses of QXmppPasswordChecker',
    'handleStream (stream header, domain check) and sendStreamFeatures bodies',
    'histories: the contracts are per call over every connection state; no inductive lemma over sequences of calls is proved here',
]


# ---------------------------------------------------------------------------------------------------------------- native replay
# which behaviour of the REAL server (units/C16/replay_unauth.cpp, loopback TCP) shows the violation of a contract clause
REPLAY_MODES = {
    'post.stanza_routed_only_if_authenticated': ['unauth-message'],
    'post.bind_result_only_if_authenticated_and_it_names_the_new_full_address': ['unauth-bind'],
    'post.resource_bound_only_if_authenticated': ['unauth-bind'],
    'post.session_result_only_if_authenticated_and_addressed_to_the_sender': ['unauth-session'],
    'post.identity_changes_only_by_sasl_success_to_user_at_domain_or_by_binding_when_authenticated': ['unauth-bind'],
    'post.stanza_with_a_foreign_from_is_never_routed': ['spoof-from', 'prefix-from'],
    'post.routed_stanza_carries_the_senders_own_full_or_bare_address': ['spoof-from', 'prefix-from', 'good-from'],
    'post.client_supplied_own_address_is_kept_and_a_missing_one_is_stamped': ['good-from', 'spoof-from'],
    'post.sasl_success_authenticates_only_for_a_mechanism_backed_by_the_password_checker': ['anonymous-auth'],
    'post.the_nonce_this_object_issued_is_never_overwritten': ['digest-replay'],
    'post.step1_passes_only_if_the_response_is_the_rfc2831_value_for_the_stored_secret_the_issued_nonce_and_the_clients_cnonce_nc_digest_uri': ['digest-replay', 'digest-unknown-user', 'digest-known-user'],
    'post.the_reply_carries_a_digest_only_if_the_lookup_reported_NoError_otherwise_it_passes_the_error_on': ['digest-unknown-user'],
    'post.for_a_known_user_the_digest_is_md5_of_user_domain_and_the_stored_secret': ['digest-known-user', 'digest-unknown-user'],
    'lemma.digest_md5_verification_passes_only_for_a_user_the_checker_knows_and_against_the_digest_of_that_users_password': ['digest-unknown-user', 'digest-known-user'],
    'lemma.a_digest_reaches_the_sasl_object_only_from_a_lookup_that_knows_the_user': ['digest-unknown-user'],
    'post.a_non_empty_digest_reaches_the_sasl_object_only_from_a_lookup_that_reported_NoError': ['digest-unknown-user'],
    'post.digest_md5_passes_verification_only_for_a_user_the_checker_knows_and_against_the_digest_the_checker_replied': ['digest-unknown-user'],
    'post.identity_assigned_only_on_the_checkers_approval': ['wrong-password'],
    'lemma.approval_is_credited_to_exactly_the_user_and_domain_the_checker_was_asked_about': ['wrong-password', 'pipelined-auth', 'slow-fail-impersonation'],
    'post.success_announced_only_on_approval': ['wrong-password'],
    'post.refusal_changes_no_identity_sends_failure_and_disconnects': ['wrong-password'],
}
# modes that show a recorded finding: they reproduce on the unchanged tree, so they say nothing about a violation found outside that finding's class
FINDING_MODES = {'unauth-message': F1, 'unauth-bind': F1, 'unauth-session': F1, 'pipelined-auth': F2, 'slow-fail-impersonation': F2, 'restart-pending-reply': F3}
ALL_MODES = ['digest-replay', 'digest-unknown-user', 'digest-known-user', 'prefix-from', 'anonymous-auth', 'wrong-password', 'unauth-message', 'unauth-bind', 'unauth-session', 'spoof-from', 'good-from', 'pipelined-auth', 'slow-fail-impersonation', 'restart-pending-reply']


def run_mode(mode):
    rc, out = native.run_driver(os.path.join(HERE, 'replay_unauth.cpp'), [mode], timeout=120)
    return rc == 0 and 'REPRODUCED' in out and 'NOT-REPRODUCED' not in out, out


def _fixed_findings():
    import json
    return {x['id'] for x in json.load(open(os.path.join(HERE, 'findings.json'))) if x.get('status') == 'fixed'}


def find_input(unit, p, o, lab, work):
    modes = REPLAY_MODES.get(lab)
    if not modes and 'pointer_dereference' in (o.get('name') or '') and 'Reply' in (p.enforce or ''):
        modes = ['restart-pending-reply']
    for m in modes or []:
        if m in FINDING_MODES and getattr(p, 'finding', None) != FINDING_MODES[m] and FINDING_MODES[m] not in _fixed_findings():
            continue      # the mode shows an OPEN recorded finding: it reproduces on the unchanged tree and says nothing about this violation
        ok, out = run_mode(m)
        if ok:
            return {'inputs': {'driver': 'units/C16/replay_unauth.cpp', 'mode': m}, 'reproduced': True, 'native_output': out[-2500:]}
    return None


def native_replay(rp):
    mode = (rp.get('inputs') or {}).get('mode')
    if mode not in ALL_MODES:
        return False, 'replay file names no known mode of units/C16/replay_unauth.cpp'
    return run_mode(mode)
