/* units/C16/callees.h -- ghost world (event log), the specification's vocabulary, and the contracts of the QXmpp callees that are
 * replaced by their contract in the verified callers (goto-instrument --replace-call-with-contract).  Included after the records. */

/* ---- event log ------------------------------------------------------------------------------------------------------- */
unsigned gh_sent;            /* payloads handed to XmppSocket::sendData */
qbytes gh_sent_last;         /* the last one (XML_<T> class or a literal) */
unsigned gh_sent_success;    /* <success/> elements (SASL or SASL2) among them */
unsigned gh_sent_features;   /* sendStreamFeatures() calls */
unsigned gh_disconnects;     /* XmppSocket::disconnectFromHost calls */
unsigned gh_er_count;        /* elementReceived emissions = stanzas handed to the server for routing */
qdom gh_er_node; qstr gh_er_from; qstr gh_er_to; qstr gh_er_jid;    /* the element, its from / to at emission, d->jid at emission */
unsigned gh_bind_results; qstr gh_bind_jid; qstr gh_bind_id; int gh_bind_type; qstr gh_bind_authed_jid;   /* sendPacket(QXmppBindIq) */
unsigned gh_iq_results; qstr gh_iq_to; qstr gh_iq_id; int gh_iq_type;       /* sendPacket(QXmppIq): the session result */
unsigned gh_connected; qstr gh_connected_jid;                               /* connected() = "a resource is bound" (the server adds the connection to its routing tables) */
unsigned gh_counters;                                                       /* updateCounter() statistics signals */
unsigned gh_respond_calls; int gh_respond_last; QXmppSaslServer *gh_respond_self;   /* QXmppSaslServer::respond calls and the last verdict */
int gh_respond_old_step; qbytes gh_respond_secret; qbytes gh_respond_request;        /* last respond(): the object's step before the call; DIGEST-MD5: the secret digest the client's response was verified against, and the payload verified */
unsigned gh_cp_calls; unsigned gh_gd_calls;                                 /* passwordChecker->checkPassword / getDigest calls */
qstr gh_req_domain; qstr gh_req_user; qstr gh_req_password; QXmppPasswordReply *gh_req_reply;   /* the last request and the reply object created for it */
unsigned gh_conn_count; QXmppPasswordReply *gh_conn_reply; QXmppIncomingClient *gh_conn_receiver; int gh_conn_slot;   /* connect(reply.finished -> slot) */
QXmppPasswordReply *gh_sender;                /* QObject::sender() inside a slot: the reply whose finished() runs the slot */
qstr gh_sender_req_user; qstr gh_sender_req_domain;   /* the request that reply answers (what the checker approved or refused) */
QXmppPasswordReply *gh_prop_obj[2]; qstr gh_prop_name[2]; qvariant gh_prop_val[2]; int gh_prop_n;   /* dynamic properties */
QXmppIncomingClient *gh_parent_set; bool gh_deleted_later;

#define SLOT_onPasswordReply 1
#define SLOT_onDigestReply 2
#define RESP_Challenge QXmppSaslServer_Response__Challenge
#define RESP_Succeeded QXmppSaslServer_Response__Succeeded
#define RESP_Failed QXmppSaslServer_Response__Failed
#define RESP_InputNeeded QXmppSaslServer_Response__InputNeeded
#define IS_SUCCESS(x) ((x) == XML_Sasl_Success || (x) == XML_Sasl2_Success)

static inline void ev_elementReceived(QXmppIncomingClient *self, qdom e) {
  gh_er_count++;
  gh_er_node = e; gh_er_from = mdom_attribute(e, S("from")); gh_er_to = mdom_attribute(e, S("to")); gh_er_jid = self->d->jid;
}
static inline void ev_connected(QXmppIncomingClient *self) { gh_connected++; gh_connected_jid = self->d->jid; }
static inline void ev_updateCounter(QXmppIncomingClient *self, qstr counter) { (void)self; (void)counter; gh_counters++; }
static inline bool ev_sendPacket_bind(QXmppIncomingClient *self, const QXmppIq *p) {
  gh_bind_results++;
  gh_bind_jid = p->jid; gh_bind_id = p->id; gh_bind_type = p->type; (void)self; return nondet_bool();
}
static inline bool ev_sendPacket_iq(QXmppIncomingClient *self, const QXmppIq *p) {
  gh_iq_results++;
  gh_iq_to = p->to; gh_iq_id = p->id; gh_iq_type = p->type; (void)self; return nondet_bool();
}
static inline void ev_connect_finished(QXmppPasswordReply *reply, QXmppIncomingClient *receiver, int slot) {
  gh_conn_count++;
  gh_conn_reply = reply; gh_conn_receiver = receiver; gh_conn_slot = slot;
}
static inline void qobj_setParent(QXmppPasswordReply *o, QXmppIncomingClient *parent) { (void)o; gh_parent_set = parent; }
static inline void qobj_deleteLater(QXmppPasswordReply *o) { (void)o; gh_deleted_later = true; }
static inline bool qobj_setProperty(QXmppPasswordReply *o, qstr name, qvariant v) {
  if (gh_prop_n > 0 && gh_prop_obj[0] == o && gh_prop_name[0] == name) { gh_prop_val[0] = v; return true; }
  if (gh_prop_n > 1 && gh_prop_obj[1] == o && gh_prop_name[1] == name) { gh_prop_val[1] = v; return true; }
  MODEL_LIMIT(gh_prop_n >= 0 && gh_prop_n < 2, "more than two dynamic properties");
  if (gh_prop_n == 0) { gh_prop_obj[0] = o; gh_prop_name[0] = name; gh_prop_val[0] = v; gh_prop_n = 1; }
  else { gh_prop_obj[1] = o; gh_prop_name[1] = name; gh_prop_val[1] = v; gh_prop_n = 2; }
  return false;
}
static inline qvariant qobj_property(const QXmppPasswordReply *o, qstr name) {
  if (gh_prop_n > 0 && gh_prop_obj[0] == o && gh_prop_name[0] == name) return gh_prop_val[0];
  if (gh_prop_n > 1 && gh_prop_obj[1] == o && gh_prop_name[1] == name) return gh_prop_val[1];
  return 0;
}
static inline QXmppPasswordReply *qobject_cast_reply(QXmppPasswordReply *o) { return nondet_bool() ? o : NULL; }

/* ---- the specification's vocabulary (property statement / DESIGN 6 C16) ------------------------------------------------- */
#define BARE(j) ((j) == 0 ? 0 : __CPROVER_uninterpreted_jid_bare(j))
#define USER_AT_DOMAIN(u, dom) __CPROVER_uninterpreted_str_arg2(S("%1@%2"), (u), (dom))
#define WITH_RESOURCE(bare, res) __CPROVER_uninterpreted_str_arg2(S("%1/%2"), (bare), (res))
#define UTF8(b) ((b) == 0 ? 0 : __CPROVER_uninterpreted_utf8(b))
#define ATTR0(e, name) ((e) == 0 ? 0 : __CPROVER_uninterpreted_dom_attr((e), (name)))      /* attribute as received (before any write) */
#define NS(e) ((e) == 0 ? 0 : __CPROVER_uninterpreted_dom_ns(e))
#define TAG(e) ((e) == 0 ? 0 : __CPROVER_uninterpreted_dom_tag(e))
/* event counters are unsigned and only ever compared with their value at entry (== old, == old + 1): wrap-around is harmless */
#define EVENT_LOG gh_sent, gh_sent_last, gh_sent_success, gh_sent_features, gh_disconnects, gh_er_count, gh_er_node, gh_er_from, gh_er_to, gh_er_jid, \
  gh_bind_results, gh_bind_jid, gh_bind_id, gh_bind_type, gh_iq_results, gh_iq_to, gh_iq_id, gh_iq_type, gh_connected, gh_connected_jid, gh_counters, \
  gh_respond_calls, gh_respond_last, gh_respond_self, gh_respond_old_step, gh_respond_secret, gh_respond_request, gh_cp_calls, gh_gd_calls, gh_req_domain, gh_req_user, gh_req_password, gh_req_reply, \
  gh_conn_count, gh_conn_reply, gh_conn_receiver, gh_conn_slot, gh_parent_set, gh_deleted_later, gh_prop_n, \
  __CPROVER_object_whole(gh_prop_obj), __CPROVER_object_whole(gh_prop_name), __CPROVER_object_whole(gh_prop_val), \
  gh_ov_n, __CPROVER_object_whole(gh_ov_node), __CPROVER_object_whole(gh_ov_name), __CPROVER_object_whole(gh_ov_val)

/* ---- the wire --------------------------------------------------------------------------------------------------------- */
bool XmppSocket_sendData(XmppSocket *self, qbytes data)
__CPROVER_assigns(gh_sent, gh_sent_last, gh_sent_success)
__CPROVER_ensures(gh_sent == __CPROVER_old(gh_sent) + 1 && gh_sent_last == data && gh_sent_success == __CPROVER_old(gh_sent_success) + (IS_SUCCESS(data) ? 1 : 0))
;
void XmppSocket_disconnectFromHost(XmppSocket *self)
__CPROVER_assigns(gh_disconnects)
__CPROVER_ensures(gh_disconnects == __CPROVER_old(gh_disconnects) + 1)
;
/* sendStreamFeatures(): advertises TLS / mechanisms / bind; transmits one <stream:features/> and changes no connection state */
void QXmppIncomingClient_sendStreamFeatures(QXmppIncomingClient *self)
__CPROVER_assigns(gh_sent_features)
__CPROVER_ensures(gh_sent_features == __CPROVER_old(gh_sent_features) + 1)
;

/* ---- SASL server objects (src/base/QXmppSasl.cpp) ------------------------------------------------------------------------ */
/* Mechanisms and the password checker (property statement: "accepts a client as a user only after a SASL exchange that the configured
   password checker approves for exactly that user and password"):
     PLAIN      never says Succeeded itself; it says InputNeeded and the checker's reply decides (onPasswordReply)        [verified: plainRespond]
     DIGEST-MD5 says Succeeded only after a step that compared the client's response with a digest of the checker's secret
                (passwordDigest, handed over by onDigestReply from the getDigest reply)                                  [verified: digestRespond, term model]
     ANONYMOUS  says Succeeded at once, names no user, never involves the checker                                         [verified: anonymousRespond]
   so a Succeeded authenticates a user only when it comes from a mechanism that is backed by the checker's secret. */
#define MECH_KNOWN(m) ((m) == S("PLAIN") || (m) == S("DIGEST-MD5") || (m) == S("ANONYMOUS"))
#define CHECKER_BACKED_SUCCESS(m) ((m) == S("DIGEST-MD5"))
/* representation invariant of d->saslServer: objects come from create() (three mechanisms) and every code path that creates one calls
   respond() on it right away, so an ANONYMOUS object has spent its one step (it can never say Succeeded again) and a DIGEST-MD5 object is past its nonce step */
#define SASL_OBJECT_INV(s) ((s) == NULL || (MECH_KNOWN((s)->mechanism) && ((s)->mechanism != S("ANONYMOUS") || (s)->m_step >= 1) && \
  ((s)->mechanism != S("DIGEST-MD5") || ((s)->m_step >= 1 && (s)->password == 0))))    /* a DIGEST-MD5 object never holds a clear-text password: only PLAIN's respond() calls setPassword() */
/* create(): nullptr for an unknown mechanism, otherwise a new object of one of the three mechanisms, at step 0, with no credentials yet */
QXmppSaslServer *QXmppSaslServer_create(qstr mechanism, QXmppIncomingClient *parent)
__CPROVER_assigns()
__CPROVER_ensures(__CPROVER_return_value == NULL || (__CPROVER_is_fresh(__CPROVER_return_value, sizeof(QXmppSaslServer)) && MECH_KNOWN(mechanism) &&
                  __CPROVER_return_value->mechanism == mechanism && __CPROVER_return_value->m_step == 0 && __CPROVER_return_value->username == 0 && __CPROVER_return_value->password == 0))
;
/* respond() (virtual), as seen by the connection handlers: the contract of the override that belongs to the object's mechanism.  PLAIN and
   ANONYMOUS are the postconditions verified on the real overrides (plainRespond.spec, anonymousRespond.spec); DIGEST-MD5 is assumed. */
int QXmppSaslServer_respond(QXmppSaslServer *self, qbytes request, qbytes *response)
__CPROVER_requires(self != NULL)
__CPROVER_assigns(*response, self->username, self->password, self->m_step, gh_respond_calls, gh_respond_last, gh_respond_self, gh_respond_old_step, gh_respond_secret, gh_respond_request)
__CPROVER_ensures((__CPROVER_return_value == RESP_Challenge || __CPROVER_return_value == RESP_Succeeded || __CPROVER_return_value == RESP_Failed || __CPROVER_return_value == RESP_InputNeeded) &&
                  gh_respond_last == __CPROVER_return_value && gh_respond_calls == __CPROVER_old(gh_respond_calls) + 1 && gh_respond_self == self)
__CPROVER_ensures(self->mechanism == S("PLAIN") ==> __CPROVER_return_value != RESP_Succeeded)
__CPROVER_ensures(self->mechanism == S("ANONYMOUS") ==> ((__CPROVER_return_value == RESP_Succeeded ? __CPROVER_old(self->m_step) == 0 : __CPROVER_return_value == RESP_Failed) &&
                  self->m_step >= 1 && self->username == __CPROVER_old(self->username) && self->password == __CPROVER_old(self->password)))
__CPROVER_ensures(gh_respond_old_step == __CPROVER_old(self->m_step) && gh_respond_request == request)
/* DIGEST-MD5: these clauses restate postconditions VERIFIED on the real QXmppSaslServerDigestMd5::respond in the byte-term model
   (digestRespond.spec: nonce never overwritten, step 1 passes only for the RFC 2831 response over the stored secret and the issued nonce,
   step 1 reaches step 2 exactly when it passes, input needed without password and digest, Succeeded exactly from step 2, nothing else changes):
   step 0 issues the nonce challenge; step 1 parses the client's response, asks for input while it has neither a password nor a digest,
   otherwise verifies the response against the secret digest (the stored passwordDigest when no password is set) and only then goes to
   step 2 with Challenge(rspauth); step 2 says Succeeded; later steps fail.  It never sets a password and never goes back a step. */
__CPROVER_ensures(self->mechanism == S("DIGEST-MD5") ==> (self->password == __CPROVER_old(self->password) && self->m_step >= 1 && self->m_step >= __CPROVER_old(self->m_step) &&
                  (__CPROVER_return_value == RESP_Succeeded ==> __CPROVER_old(self->m_step) == 2) &&
                  ((self->m_step == 2 && __CPROVER_old(self->m_step) != 2) ==> (__CPROVER_old(self->m_step) == 1 && __CPROVER_return_value == RESP_Challenge &&
                       (self->password != 0 || (self->passwordDigest != 0 && gh_respond_secret == self->passwordDigest)))) &&
                  ((__CPROVER_old(self->m_step) == 1 && self->password == 0 && self->passwordDigest == 0) ==> ((__CPROVER_return_value == RESP_InputNeeded || __CPROVER_return_value == RESP_Failed) && self->m_step == 1))))
;
/* mechanism() (virtual): the constant name of the object's mechanism */
qstr QXmppSaslServer_mechanism(const QXmppSaslServer *self)
__CPROVER_requires(self != NULL)
__CPROVER_assigns()
__CPROVER_ensures(__CPROVER_return_value == self->mechanism)
;

/* ---- the configured password checker (virtual, asynchronous: the answer arrives later through reply->finished()) ------- */
QXmppPasswordReply *QXmppPasswordChecker_checkPassword(QXmppPasswordChecker *self, const QXmppPasswordRequest *request)
__CPROVER_requires(self != NULL)
__CPROVER_assigns(gh_cp_calls, gh_req_domain, gh_req_user, gh_req_password, gh_req_reply)
__CPROVER_ensures(__CPROVER_is_fresh(__CPROVER_return_value, sizeof(QXmppPasswordReply)) && gh_req_reply == __CPROVER_return_value && gh_cp_calls == __CPROVER_old(gh_cp_calls) + 1 &&
                  gh_req_domain == request->m_domain && gh_req_user == request->m_username && gh_req_password == request->m_password)
;
QXmppPasswordReply *QXmppPasswordChecker_getDigest(QXmppPasswordChecker *self, const QXmppPasswordRequest *request)
__CPROVER_requires(self != NULL)
__CPROVER_assigns(gh_gd_calls, gh_req_domain, gh_req_user, gh_req_password, gh_req_reply)
__CPROVER_ensures(__CPROVER_is_fresh(__CPROVER_return_value, sizeof(QXmppPasswordReply)) && gh_req_reply == __CPROVER_return_value && gh_gd_calls == __CPROVER_old(gh_gd_calls) + 1 &&
                  gh_req_domain == request->m_domain && gh_req_user == request->m_username && gh_req_password == request->m_password)
;

/* ---- inside the bundled QXmppPasswordChecker::checkPassword (src/server/QXmppPasswordChecker.cpp) ------------------------- */
unsigned gh_gp_calls; int gh_gp_result; qstr gh_gp_secret; const QXmppPasswordRequest *gh_gp_req; unsigned gh_finish_later;
/* getPassword() (virtual, the account database): any verdict; may write the stored secret */
int QXmppPasswordChecker_getPassword(QXmppPasswordChecker *self, const QXmppPasswordRequest *request, qstr *password)
__CPROVER_assigns(*password, gh_gp_calls, gh_gp_result, gh_gp_secret, gh_gp_req)
__CPROVER_ensures(gh_gp_calls == __CPROVER_old(gh_gp_calls) + 1 && gh_gp_result == __CPROVER_return_value && gh_gp_secret == *password && gh_gp_req == request)
;
/* new QXmppPasswordReply: QXmppPasswordReply::QXmppPasswordReply(QObject*) initialises m_error(NoError), m_isFinished(false) */
QXmppPasswordReply *QXmppPasswordReply_new(void)
__CPROVER_assigns()
__CPROVER_ensures(__CPROVER_is_fresh(__CPROVER_return_value, sizeof(QXmppPasswordReply)) && __CPROVER_return_value->m_error == QXmppPasswordReply_Error__NoError && !__CPROVER_return_value->m_isFinished &&
                  __CPROVER_return_value->m_digest == 0 && __CPROVER_return_value->m_password == 0)    /* default-constructed QByteArray / QString members */
;
/* finishLater(): QTimer::singleShot(0, this, &finish) -- finished() is emitted from the event loop, not now */
void QXmppPasswordReply_finishLater(QXmppPasswordReply *self)
__CPROVER_assigns(gh_finish_later)
__CPROVER_ensures(gh_finish_later == __CPROVER_old(gh_finish_later) + 1)
;

/* ---- parsers and predicates on the received element: side-effect free, result unconstrained ------------------------------- */
void StarttlsRequest_fromDom(OptNonza *_ret, qdom el) __CPROVER_assigns(*_ret) __CPROVER_ensures(1);
void Sasl2_Authenticate_fromDom(OptSasl2Authenticate *_ret, qdom el) __CPROVER_assigns(*_ret) __CPROVER_ensures(1);
void Sasl2_Response_fromDom(OptSasl2Response *_ret, qdom el) __CPROVER_assigns(*_ret) __CPROVER_ensures(1);
void Sasl2_Abort_fromDom(OptSasl2Abort *_ret, qdom el) __CPROVER_assigns(*_ret) __CPROVER_ensures(1);
void Sasl_Auth_fromDom(OptSaslAuth *_ret, qdom el) __CPROVER_assigns(*_ret) __CPROVER_ensures(1);
void Sasl_Response_fromDom(OptSaslResponse *_ret, qdom el) __CPROVER_assigns(*_ret) __CPROVER_ensures(1);
/* the two predicates are functions of the element (asked twice, they answer the same) */
bool __CPROVER_uninterpreted_is_bind_iq(qdom el);
bool __CPROVER_uninterpreted_is_iq_type(qdom el, qstr tag, qstr xmlns);
bool QXmppBindIq_isBindIq(qdom el) __CPROVER_assigns() __CPROVER_ensures(__CPROVER_return_value == __CPROVER_uninterpreted_is_bind_iq(el));
bool isIqType(qdom el, qstr tag, qstr xmlns) __CPROVER_assigns() __CPROVER_ensures(__CPROVER_return_value == __CPROVER_uninterpreted_is_iq_type(el, tag, xmlns));
void QXmppBindIq_parse(QXmppIq *self, qdom el) __CPROVER_assigns(*self) __CPROVER_ensures(1);
#define DEFAULT_LENGTH_ARGUMENT (-1)
qstr QXmppUtils_generateStanzaHash(int length) __CPROVER_assigns() __CPROVER_ensures(1);

/* ---- shorthand used by the *.spec files -------------------------------------------------------------------------------------- */
#define JID_NOW (self->d->jid)
#define JID_BEFORE __CPROVER_old(self->d->jid)
#define ROUTED (gh_er_count != __CPROVER_old(gh_er_count))
#define BIND_ANSWERED (gh_bind_results != __CPROVER_old(gh_bind_results))
#define SESSION_ANSWERED (gh_iq_results != __CPROVER_old(gh_iq_results))
#define BOUND (gh_connected != __CPROVER_old(gh_connected))
#define SUCCESS_ANNOUNCED (gh_sent_success != __CPROVER_old(gh_sent_success))
/* the SASL server object of this connection said Succeeded during this call */
#define SUCCEEDED_NOW (self->d->saslServer != NULL && gh_respond_calls != __CPROVER_old(gh_respond_calls) && gh_respond_last == RESP_Succeeded && gh_respond_self == self->d->saslServer)
#define SASL_JID USER_AT_DOMAIN(self->d->saslServer->username, self->d->domain)
/* the password checker's reply that runs the slot says NoError; REPLY_JID is the user@domain of the request it answers */
#define REPLY_APPROVES (gh_sender != NULL && gh_sender->m_error == QXmppPasswordReply_Error__NoError)
/* dynamic properties of a reply object (two-slot table): property `name` of `obj` is stored with value v / is absent or has value v */
#define REPLY_PROPERTY_IS(obj, name, v) ((gh_prop_n >= 1 && gh_prop_obj[0] == (obj) && gh_prop_name[0] == (name) && gh_prop_val[0] == (v)) || \
  (gh_prop_n == 2 && gh_prop_obj[1] == (obj) && gh_prop_name[1] == (name) && gh_prop_val[1] == (v) && !(gh_prop_obj[0] == (obj) && gh_prop_name[0] == (name))))
/* what the bundled getDigest() computes for a known user: MD5(utf8(user ':' domain ':' secret)) -- written with the same string vocabulary as the lowered code */
#define DIGEST_OF(user, domain, secret) qbytes_hash(qstr_toUtf8(qstr_concat(qstr_append_char(qstr_concat(qstr_append_char((user), 58), (domain)), 58), (secret))), QCryptographicHash_Algorithm__Md5)
/* the contract of QXmppPasswordChecker::getDigest (verified on the bundled implementation, getDigest.spec) as seen by the slot that consumes the reply:
   a reply that does not say NoError carries no digest */
#define REPLY_OBEYS_GETDIGEST(r) ((r) == NULL || (r)->m_error == QXmppPasswordReply_Error__NoError || (r)->m_digest == 0)
/* during this call the connection's DIGEST-MD5 object passed the verification of the client's response (step 1 -> 2: the only way it can later say Succeeded) */
#define DIGEST_VERIFIED_NOW (self->d->saslServer != NULL && self->d->saslServer->mechanism == S("DIGEST-MD5") && gh_respond_calls != __CPROVER_old(gh_respond_calls) && \
  gh_respond_self == self->d->saslServer && gh_respond_old_step == 1 && self->d->saslServer->m_step == 2)
#define STANDARD_FRAME (__CPROVER_is_fresh(self, sizeof(*self)) && __CPROVER_is_fresh(self->d, sizeof(*self->d)) && __CPROVER_is_fresh(self->d->idleTimer, sizeof(QTimer)) && \
  __CPROVER_is_fresh(self->d->socket.m_socket, sizeof(QSslSocket)) && self->d->q == self /* type invariant: d(new QXmppIncomingClientPrivate(this)) */ && \
  QXmppIncomingClientPrivate_ENUMS_VALID(self->d) /* enum members hold declared enumerators */)

/* recorded findings: each is keyed by an input class (discriminator); -D<F>_EXCLUDED removes exactly that class from the verified
   contract, -D<F>_ONLY restricts the same contract to it (that proof is expected to fail while the finding is open) */
#if defined(F1_EXCLUDED)
#define F1_CLASS(c) (!(c))
#elif defined(F1_ONLY)
#define F1_CLASS(c) (c)
#else
#define F1_CLASS(c) (1)
#endif
#if defined(F2_EXCLUDED)
#define F2_CLASS(c) (!(c))
#elif defined(F2_ONLY)
#define F2_CLASS(c) (c)
#else
#define F2_CLASS(c) (1)
#endif
#if defined(F3_EXCLUDED)
#define F3_CLASS(c) (!(c))
#elif defined(F3_ONLY)
#define F3_CLASS(c) (c)
#else
#define F3_CLASS(c) (1)
#endif

/* harness prologue: every ghost global starts with an arbitrary value (the contracts' requires constrain what they need) */
QXmppPasswordReply *nondet_reply_ptr(void); QXmppSaslServer *nondet_sasl_ptr(void); QXmppIncomingClient *nondet_client_ptr(void);
static inline void gh_havoc(void) {
  gh_sent = nondet_uint(); gh_sent_last = nondet_int(); gh_sent_success = nondet_uint(); gh_sent_features = nondet_uint(); gh_disconnects = nondet_uint();
  gh_er_count = nondet_uint(); gh_er_node = nondet_int(); gh_er_from = nondet_int(); gh_er_to = nondet_int(); gh_er_jid = nondet_int();
  gh_bind_results = nondet_uint(); gh_bind_jid = nondet_int(); gh_bind_id = nondet_int(); gh_bind_type = nondet_int();
  gh_iq_results = nondet_uint(); gh_iq_to = nondet_int(); gh_iq_id = nondet_int(); gh_iq_type = nondet_int();
  gh_connected = nondet_uint(); gh_connected_jid = nondet_int(); gh_counters = nondet_uint();
  gh_respond_calls = nondet_uint(); gh_respond_last = nondet_int(); gh_respond_self = nondet_sasl_ptr(); gh_respond_old_step = nondet_int(); gh_respond_secret = nondet_int(); gh_respond_request = nondet_int();
  gh_cp_calls = nondet_uint(); gh_gd_calls = nondet_uint(); gh_req_domain = nondet_int(); gh_req_user = nondet_int(); gh_req_password = nondet_int(); gh_req_reply = nondet_reply_ptr();
  gh_conn_count = nondet_uint(); gh_conn_reply = nondet_reply_ptr(); gh_conn_receiver = nondet_client_ptr(); gh_conn_slot = nondet_int();
  gh_sender = nondet_reply_ptr(); gh_sender_req_user = nondet_int(); gh_sender_req_domain = nondet_int();
  gh_gp_calls = nondet_uint(); gh_gp_result = nondet_int(); gh_gp_secret = nondet_int(); gh_finish_later = nondet_uint();
  gh_prop_n = nondet_int(); gh_ov_n = nondet_int(); gh_parent_set = nondet_client_ptr(); gh_deleted_later = false;
}
