/* units/C16/model.h -- Qt / libstdc++ models (ASSUMED), value records, ghost world and event log of the C16 unit.
 * Included after "opaque.h" and the string table; the records of QXmppIncomingClient(Private), XmppSocket, QXmppPasswordRequest and
 * QXmppPasswordReply are generated from the real class definitions (unit.py) and follow this file. */

typedef int qbytes;     /* QByteArray: opaque id, 0 = empty; serialised elements are classified by their C++ type (XML_<T>, >= 1000000) */
typedef int qvariant;   /* QVariant holding a QByteArray */
typedef struct QXmppIncomingClient QXmppIncomingClient;

/* ---- Qt (assumed) -------------------------------------------------------------------------------------------------
 * A-QTIMER  interval() reads the configured interval, start() (re)arms the timer; neither touches the stream.
 * A-QSSL    flush() / startServerEncryption() act on the socket only; they emit no XMPP data and no QXmpp signal.
 * A-QOBJECT setParent / deleteLater / dynamic properties act on the reply object only; sender() is the object whose signal
 *           invoked the slot; qobject_cast<T*> yields its argument or nullptr. */
typedef struct QTimer { int interval; bool active; } QTimer;
static inline int QTimer_interval(const QTimer *t) { return t->interval; }
static inline void QTimer_start(QTimer *t) { t->active = true; }
typedef struct QSslSocket { bool server_encryption_started; bool flushed; int state; /* QAbstractSocket::SocketState */ } QSslSocket;
static inline bool QSslSocket_flush(QSslSocket *s) { s->flushed = true; return nondet_bool(); }
static inline void QSslSocket_startServerEncryption(QSslSocket *s) { s->server_encryption_started = true; }

/* QString formatting / concatenation: uninterpreted functions of their operands.  The result of arg() is non-empty when the format
   literal has a character outside the placeholders (decided by the lowering from the literal itself). */
qstr __CPROVER_uninterpreted_str_arg1(qstr fmt, qstr a);
qstr __CPROVER_uninterpreted_str_arg2(qstr fmt, qstr a, qstr b);
qstr __CPROVER_uninterpreted_str_concat(qstr a, qstr b);
qstr __CPROVER_uninterpreted_str_append_char(qstr a, int c);
static inline qstr qstr_arg1(qstr fmt, qstr a, bool fixed_text) { qstr r = __CPROVER_uninterpreted_str_arg1(fmt, a); __CPROVER_assume(!fixed_text || r != 0); return r; }
static inline qstr qstr_arg2(qstr fmt, qstr a, qstr b, bool fixed_text) { qstr r = __CPROVER_uninterpreted_str_arg2(fmt, a, b); __CPROVER_assume(!fixed_text || r != 0); return r; }
static inline qstr qstr_append_char(qstr a, quint16 c) { qstr r = __CPROVER_uninterpreted_str_append_char(a, c); __CPROVER_assume(r != 0); return r; }

/* QString::toUtf8 and QCryptographicHash::hash: uninterpreted functions of their operands; the encoding of a non-empty string and every
   digest are non-empty (A-HASH: a cryptographic digest has a fixed positive length) */
qbytes __CPROVER_uninterpreted_utf8_encode(qstr s);
qbytes __CPROVER_uninterpreted_hash(qbytes b, int algorithm);
static inline qbytes qstr_toUtf8(qstr s) { if (s == 0) return 0; qbytes r = __CPROVER_uninterpreted_utf8_encode(s); __CPROVER_assume(r != 0); return r; }
static inline qbytes qbytes_hash(qbytes b, int algorithm) { qbytes r = __CPROVER_uninterpreted_hash(b, algorithm); __CPROVER_assume(r != 0); return r; }

/* QByteArray::split(sep) / QString::fromUtf8: uninterpreted functions of the bytes (A-SPLIT: split yields at least one part; part i and the
   number of parts depend only on the bytes and the separator) */
int __CPROVER_uninterpreted_bytes_split_count(qbytes b, int sep);
qbytes __CPROVER_uninterpreted_bytes_split_part(qbytes b, int sep, int i);
qstr __CPROVER_uninterpreted_utf8(qbytes b);
typedef struct QBytesList { qbytes src; int sep; int n; } QBytesList;
static inline void qbytes_split(QBytesList *_ret, qbytes b, char sep) { _ret->src = b; _ret->sep = sep; _ret->n = __CPROVER_uninterpreted_bytes_split_count(b, sep); __CPROVER_assume(_ret->n >= 1); }
static inline qbytes QBytesList_at(const QBytesList *l, int i) { MODEL_LIMIT(i >= 0 && i < l->n, "QList index out of range (asserts in Qt)"); return __CPROVER_uninterpreted_bytes_split_part(l->src, l->sep, i); }
static inline qstr qstr_fromUtf8(qbytes b) { return b == 0 ? 0 : __CPROVER_uninterpreted_utf8(b); }

/* QDomElement::setAttribute: QDomElement copies share the node, so a write through `nodeFull` is a write to the node.  The abstract
   DOM of qtmodel/opaque.h is read-only; this unit layers a two-entry write log over it (the handler writes `from` and `to`). */
qdom gh_ov_node[2]; qstr gh_ov_name[2]; qstr gh_ov_val[2]; int gh_ov_n;
static inline qstr mdom_attribute(qdom e, qstr name) {
  if (e == 0) return 0;
  if (gh_ov_n > 0 && gh_ov_node[0] == e && gh_ov_name[0] == name) return gh_ov_val[0];
  if (gh_ov_n > 1 && gh_ov_node[1] == e && gh_ov_name[1] == name) return gh_ov_val[1];
  return __CPROVER_uninterpreted_dom_attr(e, name);
}
static inline void mdom_setAttribute(qdom e, qstr name, qstr val) {
  if (e == 0) return;
  if (gh_ov_n > 0 && gh_ov_node[0] == e && gh_ov_name[0] == name) { gh_ov_val[0] = val; return; }
  if (gh_ov_n > 1 && gh_ov_node[1] == e && gh_ov_name[1] == name) { gh_ov_val[1] = val; return; }
  MODEL_LIMIT(gh_ov_n >= 0 && gh_ov_n < 2, "more than two distinct attribute writes in one handler call");
  if (gh_ov_n == 0) { gh_ov_node[0] = e; gh_ov_name[0] = name; gh_ov_val[0] = val; gh_ov_n = 1; }
  else { gh_ov_node[1] = e; gh_ov_name[1] = name; gh_ov_val[1] = val; gh_ov_n = 2; }
}

/* ---- records the unit does not look into ------------------------------------------------------------------------------ */
typedef struct QXmppPasswordChecker { int opaque; } QXmppPasswordChecker;
/* QXmppSaslServer: the four data members behind its non-virtual accessors (src/base/QXmppSasl.cpp: username/password/realm/
   passwordDigest are one-line getters and setters of QXmppSaslServerPrivate) plus the constant answer of the virtual mechanism() */
typedef struct QXmppSaslServer { qstr username; qstr password; qstr realm; qbytes passwordDigest; qstr mechanism; int m_step; } QXmppSaslServer;
static inline qstr QXmppSaslServer_username(const QXmppSaslServer *s) { return s->username; }
static inline qstr QXmppSaslServer_password(const QXmppSaslServer *s) { return s->password; }
static inline void QXmppSaslServer_setUsername(QXmppSaslServer *s, qstr u) { s->username = u; }
static inline void QXmppSaslServer_setPassword(QXmppSaslServer *s, qstr p) { s->password = p; }
static inline qstr QXmppSaslServer_realm(const QXmppSaslServer *s) { return s->realm; }
static inline void QXmppSaslServer_setRealm(QXmppSaslServer *s, qstr r) { s->realm = r; }
static inline void QXmppSaslServer_setPasswordDigest(QXmppSaslServer *s, qbytes d) { s->passwordDigest = d; }

/* nonza structs of QXmppSasl_p.h (plain aggregates): only the members the handler reads */
typedef struct OptNonza { bool has; } OptNonza;
typedef struct Bind2Request { qstr tag; } Bind2Request;
typedef struct OptBind2Request { bool has; Bind2Request v; } OptBind2Request;
typedef struct Sasl2Authenticate { qstr mechanism; qbytes initialResponse; OptBind2Request bindRequest; } Sasl2Authenticate;
typedef struct OptSasl2Authenticate { bool has; Sasl2Authenticate v; } OptSasl2Authenticate;
typedef struct Sasl2Response { qbytes data; } Sasl2Response;
typedef struct OptSasl2Response { bool has; Sasl2Response v; } OptSasl2Response;
typedef struct Sasl2Abort { qstr text; } Sasl2Abort;
typedef struct OptSasl2Abort { bool has; Sasl2Abort v; } OptSasl2Abort;
typedef struct SaslAuth { qstr mechanism; qbytes value; } SaslAuth;
typedef struct OptSaslAuth { bool has; SaslAuth v; } OptSaslAuth;
typedef struct SaslResponse { qbytes value; } SaslResponse;
typedef struct OptSaslResponse { bool has; SaslResponse v; } OptSaslResponse;

/* QXmppIq / QXmppBindIq value objects: addressing fields, type, and the bind payload (field accessors of QXmppStanza / QXmppIq /
   QXmppBindIq; the parser is a contracted callee) */
typedef struct QXmppIq { int type; qstr id; qstr to; qstr from; qstr jid; qstr resource; } QXmppIq;
static inline void QXmppIq_ctor0(QXmppIq *q) { q->type = IQ_TYPE_GET; q->id = nondet_qstr(); q->to = 0; q->from = 0; q->jid = 0; q->resource = 0; }
static inline void QXmppIq_setType(QXmppIq *q, int t) { q->type = t; }
static inline void QXmppIq_setId(QXmppIq *q, qstr v) { q->id = v; }
static inline void QXmppIq_setTo(QXmppIq *q, qstr v) { q->to = v; }
static inline void QXmppIq_setJid(QXmppIq *q, qstr v) { q->jid = v; }
