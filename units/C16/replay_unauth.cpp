// C16 native replay: the REAL QXmppServer / QXmppIncomingClient on loopback TCP, driven by hand-written raw clients.
//   replay_unauth unauth-message  -> a connection that never authenticated sends <message to=victim/>: is it delivered?  (finding C16-F1)
//   replay_unauth unauth-bind     -> a connection that never authenticated sends a bind request: is a resource bound / answered?  (C16-F1)
//   replay_unauth unauth-session  -> ... sends a session request: is it answered?                                                  (C16-F1)
//   replay_unauth spoof-from      -> control: an AUTHENTICATED user sends <message from=victim/>: must NOT be delivered
//   replay_unauth prefix-from     -> control: an authenticated user sends a from that is a proper PREFIX of her own JID (someone else's address): must NOT be delivered
//   replay_unauth good-from       -> control: an authenticated user's message is delivered stamped with her own full JID
//   replay_unauth anonymous-auth  -> control: <auth mechanism='ANONYMOUS'/> (a mechanism QXmppSaslServer::create builds although it is never offered) must not authenticate
//   replay_unauth digest-unknown-user -> control: DIGEST-MD5 login as a user the checker does not know, response computed with the EMPTY password: must be refused
//   replay_unauth digest-known-user   -> control: DIGEST-MD5 login of a known user with the right password is accepted (reports REPRODUCED if it is NOT)
//   replay_unauth digest-replay   -> control: a DIGEST-MD5 <response/> recorded from a successful login is sent again on a NEW connection (new server nonce): must be refused
//   replay_unauth wrong-password  -> control: one PLAIN <auth/> with a wrong password must be refused and leave the connection without a JID
//   replay_unauth pipelined-auth  -> two PLAIN <auth/> in one segment (own valid credentials, then victim + wrong password):
//                                    which JID does the server assign when the first reply arrives?                       (finding C16-F2)
//   replay_unauth slow-fail-impersonation -> same, with a checker that delays *negative* replies (anti-brute-force delay): the attacker
//                                    binds a resource and sends a message as the victim before the refusal arrives            (C16-F2)
//   replay_unauth restart-pending-reply -> <auth/> with a wrong password (reply delayed), then a stream restart: the reply handler
//                                    dereferences the SASL server object that handleStream() destroyed                        (C16-F3)
// Prints what every peer received, then REPRODUCED / NOT-REPRODUCED (exit 0 / 1).
#include <QCoreApplication>
#include <QElapsedTimer>
#include <QTcpSocket>
#include <QTimer>
#include <QCryptographicHash>
#include <QMap>
#include <csignal>
#include <unistd.h>
#include <QHostAddress>
#include <cstdio>
#include <functional>

#include "QXmppIncomingClient.h"
#include "QXmppLogger.h"
#include "QXmppPasswordChecker.h"
#include "QXmppServer.h"

class Checker : public QXmppPasswordChecker
{
public:
    QXmppPasswordReply::Error getPassword(const QXmppPasswordRequest &request, QString &password) override
    {
        if (request.username() == QStringLiteral("victim")) {
            password = QStringLiteral("victim-pw");
            return QXmppPasswordReply::NoError;
        }
        if (request.username() == QStringLiteral("mallory")) {
            password = QStringLiteral("mallory-pw");
            return QXmppPasswordReply::NoError;
        }
        return QXmppPasswordReply::AuthorizationError;
    }
    bool hasGetPassword() const override { return true; }
};

// the same account database behind an asynchronous back end that answers refusals late (a usual brute-force counter-measure);
// QXmppPasswordChecker::checkPassword is virtual and QXmppPasswordReply is explicitly asynchronous (finished() signal)
class SlowFailChecker : public Checker
{
public:
    QXmppPasswordReply *checkPassword(const QXmppPasswordRequest &request) override
    {
        auto *reply = new QXmppPasswordReply;
        QString secret;
        const auto error = getPassword(request, secret);
        if (error == QXmppPasswordReply::NoError && request.password() == secret) {
            reply->finishLater();
        } else {
            reply->setError(QXmppPasswordReply::AuthorizationError);
            QTimer::singleShot(1200, reply, &QXmppPasswordReply::finish);
        }
        return reply;
    }
};

// "key=value,key=\"value\"" list of a DIGEST-MD5 challenge
static QMap<QByteArray, QByteArray> parseDirectives(const QByteArray &ba)
{
    QMap<QByteArray, QByteArray> m;
    for (const QByteArray &part : ba.split(',')) {
        const int eq = part.indexOf('=');
        if (eq < 0) {
            continue;
        }
        QByteArray v = part.mid(eq + 1).trimmed();
        if (v.startsWith('"') && v.endsWith('"')) {
            v = v.mid(1, v.size() - 2);
        }
        m.insert(part.left(eq).trimmed(), v);
    }
    return m;
}

struct Peer;
static bool digestLogin(Peer &c, const QByteArray &user, const QByteArray &pw);
static QByteArray g_lastDigestResponse;   // the <response/> element digestLogin sent last (what an eavesdropper records)

static void onCrash(int)
{
    static const char msg[] = "SERVER CRASHED (SIGSEGV) inside the reply handler\nREPRODUCED\n";
    ssize_t r = write(1, msg, sizeof(msg) - 1);
    (void)r;
    _exit(0);
}

static bool waitFor(const std::function<bool()> &pred, int ms = 3000)
{
    QElapsedTimer t;
    t.start();
    while (!pred()) {
        if (t.elapsed() > ms) {
            return false;
        }
        QCoreApplication::processEvents(QEventLoop::AllEvents, 20);
    }
    return true;
}

struct Peer {
    QTcpSocket sock;
    QByteArray rx;
    const char *name;
    explicit Peer(const char *n) : name(n)
    {
        QObject::connect(&sock, &QTcpSocket::readyRead, [this]() {
            const QByteArray c = sock.readAll();
            rx += c;
            std::printf("%s-RECEIVED: %s\n", name, c.constData());
        });
    }
    bool open(quint16 port)
    {
        sock.connectToHost(QHostAddress::LocalHost, port);
        if (!waitFor([&] { return sock.state() == QAbstractSocket::ConnectedState; })) {
            return false;
        }
        return header();
    }
    bool header()
    {
        const int before = rx.count("<stream:features");
        send("<?xml version='1.0'?><stream:stream xmlns='jabber:client' xmlns:stream='http://etherx.jabber.org/streams' to='example.org' version='1.0'>");
        return waitFor([&] { return rx.count("<stream:features") > before; });
    }
    void send(const QByteArray &b)
    {
        std::printf("%s-SENDS: %s\n", name, b.constData());
        sock.write(b);
        sock.flush();
    }
    bool login(const QByteArray &user, const QByteArray &pw, const QByteArray &resource)
    {
        send("<auth xmlns='urn:ietf:params:xml:ns:xmpp-sasl' mechanism='PLAIN'>" + (QByteArray(1, '\0') + user + QByteArray(1, '\0') + pw).toBase64() + "</auth>");
        if (!waitFor([&] { return rx.contains("<success"); })) {
            return false;
        }
        if (!header()) {
            return false;
        }
        send("<iq type='set' id='bind1'><bind xmlns='urn:ietf:params:xml:ns:xmpp-bind'><resource>" + resource + "</resource></bind></iq>");
        if (!waitFor([&] { return rx.contains("id=\"bind1\""); })) {
            return false;
        }
        send("<presence/>");
        QCoreApplication::processEvents(QEventLoop::AllEvents, 50);
        return true;
    }
};

// RFC 2831 client side: returns true if the server answered <success/>
static bool digestLogin(Peer &c, const QByteArray &user, const QByteArray &pw)
{
    c.send("<auth xmlns='urn:ietf:params:xml:ns:xmpp-sasl' mechanism='DIGEST-MD5'/>");
    if (!waitFor([&] { return c.rx.contains("</challenge>") || c.rx.contains("<failure"); }, 1500) || c.rx.contains("<failure")) {
        return false;
    }
    int a = c.rx.indexOf('>', c.rx.lastIndexOf("<challenge")) + 1;
    const auto ch = parseDirectives(QByteArray::fromBase64(c.rx.mid(a, c.rx.indexOf("</challenge>", a) - a)));
    const QByteArray nonce = ch.value("nonce"), realm = ch.value("realm"), cnonce = "Y25vbmNlLXJlcGxheQ==", nc = "00000001", digestUri = "xmpp/example.org";
    const QByteArray secret = QCryptographicHash::hash(user + ':' + realm + ':' + pw, QCryptographicHash::Md5);
    const QByteArray HA1 = QCryptographicHash::hash(secret + ':' + nonce + ':' + cnonce, QCryptographicHash::Md5).toHex();
    const QByteArray HA2 = QCryptographicHash::hash("AUTHENTICATE:" + digestUri, QCryptographicHash::Md5).toHex();
    const QByteArray resp = QCryptographicHash::hash(HA1 + ':' + nonce + ':' + nc + ':' + cnonce + ":auth:" + HA2, QCryptographicHash::Md5).toHex();
    const QByteArray msg = "username=\"" + user + "\",realm=\"" + realm + "\",nonce=\"" + nonce + "\",cnonce=\"" + cnonce + "\",nc=" + nc +
        ",qop=auth,digest-uri=\"" + digestUri + "\",response=" + resp + ",charset=utf-8";
    const int before = c.rx.size();
    g_lastDigestResponse = "<response xmlns='urn:ietf:params:xml:ns:xmpp-sasl'>" + msg.toBase64() + "</response>";
    c.send(g_lastDigestResponse);
    if (!waitFor([&] { return c.rx.indexOf("</challenge>", before) >= 0 || c.rx.indexOf("<failure", before) >= 0 || c.rx.contains("<success"); }, 1500) || c.rx.indexOf("<failure", before) >= 0) {
        return false;
    }
    if (c.rx.contains("<success")) {
        return true;
    }
    c.send("<response xmlns='urn:ietf:params:xml:ns:xmpp-sasl'/>");
    waitFor([&] { return c.rx.indexOf("<failure", before) >= 0 || c.rx.contains("<success"); }, 1500);
    return c.rx.contains("<success");
}

int main(int argc, char **argv)
{
    QCoreApplication app(argc, argv);
    setvbuf(stdout, nullptr, _IONBF, 0);
    const QString mode = argc > 1 ? QString::fromLatin1(argv[1]) : QStringLiteral("unauth-message");

    QXmppServer server;
    Checker plainChecker;
    SlowFailChecker slowChecker;
    QXmppPasswordChecker &checker = (mode == "slow-fail-impersonation" || mode == "restart-pending-reply") ? static_cast<QXmppPasswordChecker &>(slowChecker) : plainChecker;
    QXmppLogger logger;
    logger.setLoggingType(QXmppLogger::SignalLogging);
    QObject::connect(&logger, &QXmppLogger::message, [](QXmppLogger::MessageType t, const QString &text) {
        if (t == QXmppLogger::InformationMessage || t == QXmppLogger::WarningMessage) {
            std::printf("SERVER-LOG: %s\n", text.toUtf8().constData());
        }
    });
    server.setLogger(&logger);
    server.setDomain(QStringLiteral("example.org"));
    server.setPasswordChecker(&checker);
    QStringList serverSaw;
    QObject::connect(&server, &QXmppServer::clientConnected, [&](const QString &jid) {
        std::printf("SERVER clientConnected(\"%s\")\n", jid.toUtf8().constData());
        serverSaw << jid;
    });
    quint16 port = 0;
    for (quint16 p = 45222; p < 45322; ++p) {
        if (server.listenForClients(QHostAddress::LocalHost, p)) {
            port = p;
            break;
        }
    }
    if (!port) {
        std::printf("cannot listen on loopback\n");
        return 2;
    }

    bool violated = false;
    if (mode == "unauth-message" || mode == "spoof-from" || mode == "prefix-from" || mode == "good-from") {
        Peer victim("VICTIM");
        if (!victim.open(port) || !victim.login("victim", "victim-pw", "phone")) {
            std::printf("victim could not log in\n");
            return 2;
        }
        Peer attacker("ATTACKER");
        if (!attacker.open(port)) {
            std::printf("attacker could not open a stream\n");
            return 2;
        }
        if (mode == "unauth-message") {
            // never authenticates
            attacker.send("<message to='victim@example.org/phone' type='chat'><body>spoofed-body-from-nobody</body></message>");
        } else if (mode == "spoof-from") {
            if (!attacker.login("mallory", "mallory-pw", "pc")) {
                return 2;
            }
            attacker.send("<message from='victim@example.org/phone' to='victim@example.org/phone' type='chat'><body>spoofed-body-from-nobody</body></message>");
        } else if (mode == "prefix-from") {
            if (!attacker.login("mallory", "mallory-pw", "pc")) {
                return 2;
            }
            // "mal" is another account name; it is a prefix of mallory@example.org/pc
            attacker.send("<message from='mal' to='victim@example.org/phone' type='chat'><body>spoofed-body-from-nobody</body></message>");
        } else {
            if (!attacker.login("mallory", "mallory-pw", "pc")) {
                return 2;
            }
            attacker.send("<message to='victim@example.org/phone' type='chat'><body>spoofed-body-from-nobody</body></message>");
        }
        const bool delivered = waitFor([&] { return victim.rx.contains("spoofed-body-from-nobody"); }, 1500);
        std::printf("message delivered to the logged-in user: %s\n", delivered ? "YES" : "no");
        if (mode == "good-from") {
            const bool stamped = victim.rx.contains("from=\"mallory@example.org/pc\"");
            std::printf("control: delivered with the sender's own full JID: %s\n", (delivered && stamped) ? "yes" : "NO");
            violated = !(delivered && stamped);
        } else {
            violated = delivered;
        }
    } else if (mode == "unauth-bind" || mode == "unauth-session") {
        Peer attacker("ATTACKER");
        if (!attacker.open(port)) {
            return 2;
        }
        if (mode == "unauth-bind") {
            attacker.send("<iq type='set' id='b1'><bind xmlns='urn:ietf:params:xml:ns:xmpp-bind'><resource>x</resource></bind></iq>");
        } else {
            attacker.send("<iq type='set' id='b1'><session xmlns='urn:ietf:params:xml:ns:xmpp-session'/></iq>");
        }
        const bool answered = waitFor([&] { return attacker.rx.contains("id=\"b1\"") && attacker.rx.contains("type=\"result\""); }, 1500);
        std::printf("unauthenticated %s request answered with a result: %s; server announced bound clients: %d\n",
                    mode == "unauth-bind" ? "bind" : "session", answered ? "YES" : "no", int(serverSaw.size()));
        violated = answered || !serverSaw.isEmpty();
    } else if (mode == "anonymous-auth") {
        Peer attacker("ATTACKER");
        if (!attacker.open(port)) {
            return 2;
        }
        attacker.send("<auth xmlns='urn:ietf:params:xml:ns:xmpp-sasl' mechanism='ANONYMOUS'/>");
        waitFor([&] { return attacker.rx.contains("<failure") || attacker.rx.contains("<success"); }, 1500);
        bool bound = false;
        if (attacker.rx.contains("<success")) {
            attacker.header();
            attacker.send("<iq type='set' id='bind1'><bind xmlns='urn:ietf:params:xml:ns:xmpp-bind'><resource>anon</resource></bind></iq>");
            bound = waitFor([&] { return attacker.rx.contains("id=\"bind1\"") && attacker.rx.contains("type=\"result\""); }, 1000);
        }
        std::printf("control: <auth mechanism='ANONYMOUS'/> answered with <success/>: %s; resource bound without any password check: %s\n",
                    attacker.rx.contains("<success") ? "YES" : "no", bound ? "YES" : "no");
        violated = attacker.rx.contains("<success") || bound;
    } else if (mode == "digest-unknown-user" || mode == "digest-known-user") {
        Peer attacker("ATTACKER");
        if (!attacker.open(port)) {
            return 2;
        }
        if (mode == "digest-known-user") {
            const bool ok = digestLogin(attacker, "mallory", "mallory-pw");
            std::printf("control: DIGEST-MD5 login of a known user with the right password accepted: %s\n", ok ? "yes" : "NO");
            violated = !ok;
        } else {
            const bool ok = digestLogin(attacker, "ghost", "");
            bool bound = false;
            if (ok) {
                attacker.header();
                attacker.send("<iq type='set' id='bind1'><bind xmlns='urn:ietf:params:xml:ns:xmpp-bind'><resource>x</resource></bind></iq>");
                bound = waitFor([&] { return attacker.rx.contains("id=\"bind1\"") && attacker.rx.contains("type=\"result\""); }, 1000);
            }
            std::printf("control: DIGEST-MD5 login as 'ghost' (unknown to the checker) with the empty password accepted: %s; resource bound: %s\n", ok ? "YES" : "no", bound ? "YES" : "no");
            violated = ok || bound;
        }
    } else if (mode == "digest-replay") {
        Peer victim("VICTIM");
        if (!victim.open(port) || !digestLogin(victim, "victim", "victim-pw")) {
            std::printf("victim could not log in with DIGEST-MD5\n");
            return 2;
        }
        Peer attacker("ATTACKER");
        if (!attacker.open(port)) {
            return 2;
        }
        attacker.send("<auth xmlns='urn:ietf:params:xml:ns:xmpp-sasl' mechanism='DIGEST-MD5'/>");
        waitFor([&] { return attacker.rx.contains("</challenge>"); }, 1500);
        const int before = attacker.rx.size();
        attacker.send(g_lastDigestResponse);    // computed for the nonce of the victim's exchange, not for this one
        waitFor([&] { return attacker.rx.indexOf("</challenge>", before) >= 0 || attacker.rx.indexOf("<failure", before) >= 0; }, 1500);
        bool success = false;
        if (attacker.rx.indexOf("</challenge>", before) >= 0) {
            attacker.send("<response xmlns='urn:ietf:params:xml:ns:xmpp-sasl'/>");
            success = waitFor([&] { return attacker.rx.contains("<success"); }, 1500);
        }
        std::printf("control: recorded DIGEST-MD5 response replayed on a new connection accepted: %s\n", success ? "YES" : "no");
        violated = success;
    } else if (mode == "wrong-password") {
        QString jidAtRefusal;
        QObject::connect(&server, &QXmppServer::updateCounter, [&](const QString &counter) {
            if (counter == QStringLiteral("incoming-client.auth.not-authorized")) {
                const auto clients = server.findChildren<QXmppIncomingClient *>();
                for (auto *c : clients) {
                    jidAtRefusal += c->jid();
                }
            }
        });
        Peer attacker("ATTACKER");
        if (!attacker.open(port)) {
            return 2;
        }
        attacker.send("<auth xmlns='urn:ietf:params:xml:ns:xmpp-sasl' mechanism='PLAIN'>" + (QByteArray(1, '\0') + "victim" + QByteArray(1, '\0') + "WRONG").toBase64() + "</auth>");
        waitFor([&] { return attacker.rx.contains("<failure") || attacker.rx.contains("<success"); }, 1500);
        waitFor([] { return false; }, 200);
        const bool success = attacker.rx.contains("<success");
        std::printf("control: wrong password answered with <success/>: %s; JID of the connection at the refusal: \"%s\"\n", success ? "YES" : "no", jidAtRefusal.toUtf8().constData());
        violated = success || !jidAtRefusal.isEmpty();
    } else if (mode == "pipelined-auth") {
        QString jidAtSuccess;
        QObject::connect(&server, &QXmppServer::updateCounter, [&](const QString &counter) {
            if (counter == QStringLiteral("incoming-client.auth.success")) {
                const auto clients = server.findChildren<QXmppIncomingClient *>();
                for (auto *c : clients) {
                    if (!c->jid().isEmpty()) {
                        jidAtSuccess = c->jid();
                        std::printf("SERVER auth.success: connection now has jid \"%s\"\n", jidAtSuccess.toUtf8().constData());
                    }
                }
            }
        });
        Peer attacker("ATTACKER");
        if (!attacker.open(port)) {
            return 2;
        }
        const QByteArray own = (QByteArray(1, '\0') + "mallory" + QByteArray(1, '\0') + "mallory-pw").toBase64();
        const QByteArray other = (QByteArray(1, '\0') + "victim" + QByteArray(1, '\0') + "WRONG").toBase64();
        attacker.send("<auth xmlns='urn:ietf:params:xml:ns:xmpp-sasl' mechanism='PLAIN'>" + own + "</auth>"
                      "<auth xmlns='urn:ietf:params:xml:ns:xmpp-sasl' mechanism='PLAIN'>" + other + "</auth>");
        waitFor([&] { return attacker.rx.contains("<success") || attacker.rx.contains("<failure"); }, 1500);
        waitFor([] { return false; }, 300);
        std::printf("checker approved (mallory, mallory-pw) only; JID assigned on that approval: \"%s\"\n", jidAtSuccess.toUtf8().constData());
        violated = jidAtSuccess.startsWith(QStringLiteral("victim@"));
    } else if (mode == "slow-fail-impersonation") {
        Peer third("THIRD-USER");
        if (!third.open(port) || !third.login("mallory", "mallory-pw", "observer")) {   // any logged-in user who will receive the forged message
            return 2;
        }
        Peer attacker("ATTACKER");
        if (!attacker.open(port)) {
            return 2;
        }
        const QByteArray own = (QByteArray(1, '\0') + "mallory" + QByteArray(1, '\0') + "mallory-pw").toBase64();
        const QByteArray other = (QByteArray(1, '\0') + "victim" + QByteArray(1, '\0') + "WRONG").toBase64();
        attacker.send("<auth xmlns='urn:ietf:params:xml:ns:xmpp-sasl' mechanism='PLAIN'>" + own + "</auth>"
                      "<auth xmlns='urn:ietf:params:xml:ns:xmpp-sasl' mechanism='PLAIN'>" + other + "</auth>");
        if (!waitFor([&] { return attacker.rx.contains("<success"); }, 1000)) {
            std::printf("no <success/>\n");
        }
        attacker.header();
        attacker.send("<iq type='set' id='bind1'><bind xmlns='urn:ietf:params:xml:ns:xmpp-bind'><resource>evil</resource></bind></iq>");
        waitFor([&] { return attacker.rx.contains("id=\"bind1\""); }, 800);
        attacker.send("<message to='mallory@example.org/observer' type='chat'><body>forged-as-victim</body></message>");
        const bool delivered = waitFor([&] { return third.rx.contains("forged-as-victim"); }, 800);
        const bool asVictim = third.rx.contains("from=\"victim@example.org/evil\"");
        std::printf("the checker never approved a password for victim; message delivered from victim@example.org/evil: %s\n", (delivered && asVictim) ? "YES" : "no");
        violated = delivered && asVictim;
    } else if (mode == "restart-pending-reply") {
        std::signal(SIGSEGV, onCrash);
        Peer attacker("ATTACKER");
        if (!attacker.open(port)) {
            return 2;
        }
        const QByteArray other = (QByteArray(1, '\0') + "victim" + QByteArray(1, '\0') + "WRONG").toBase64();
        attacker.send("<auth xmlns='urn:ietf:params:xml:ns:xmpp-sasl' mechanism='PLAIN'>" + other + "</auth>");
        waitFor([] { return false; }, 200);
        attacker.header();   // stream restart: handleStream() resets d->saslServer while the reply is pending
        waitFor([] { return false; }, 1800);
        std::printf("server survived the late reply\n");
        violated = false;
    } else {
        std::printf("unknown mode\n");
        return 2;
    }
    std::printf("%s\n", violated ? "REPRODUCED" : "NOT-REPRODUCED");
    return violated ? 0 : 1;
}
