/* units/C16/lemma.h -- two-step lemma over the REAL checkCredentials and the REAL onPasswordReply (both lowered, neither replaced):
 *
 *   "the server accepts a client as a user only after the password checker approved exactly that user and password"
 *
 * step 1: checkCredentials() asks the checker about (domain, user, password) and gets a reply object;
 * between: any number of further elements may arrive before the (asynchronous) reply: per the verified frame of handleStanza they may
 *          replace the SASL object, change its username, the SASL version, the pending SASL2 request -- but they cannot touch the reply
 *          object or its dynamic properties (A-QOBJECT), nor d->domain;
 * step 2: the reply finishes and runs onPasswordReply().
 * Claim: if the connection's identity changes in step 2, the reply says NoError and the identity is <user asked about>@<domain asked about>
 *        (or that address with a resource, when SASL2 bound one inline). */
void h_lemma_request_then_reply(void) {
  gh_havoc();
  QXmppIncomingClient c; QXmppIncomingClientPrivate d; QTimer timer; QSslSocket sock; QXmppSaslServer sasl; QXmppSaslServer later; QXmppPasswordChecker checker;
  c.d = &d; d.q = &c; d.idleTimer = &timer; d.socket.m_socket = &sock; d.saslServer = &sasl; d.passwordChecker = &checker;
  gh_prop_n = 0; gh_ov_n = 0;
  sasl.mechanism = S("PLAIN");
  qbytes response = nondet_int();
  unsigned asked_before = gh_cp_calls;
  QXmppIncomingClientPrivate_checkCredentials(&d, response);
  __CPROVER_assert(gh_cp_calls == asked_before + 1, "[lemma.plain_credentials_are_put_to_the_checker]");
  qstr asked_user = gh_req_user; qstr asked_domain = gh_req_domain; QXmppPasswordReply *reply = gh_req_reply;
  /* --- anything handleStanza may do before the reply arrives (its assigns clause), except to the reply object */
  if (nondet_bool()) d.saslServer = &later; else if (nondet_bool()) d.saslServer = NULL; else { sasl.username = nondet_qstr(); sasl.password = nondet_qstr(); sasl.m_step = nondet_int(); }
  d.saslVersion = nondet_int(); d.sasl2AuthRequest.has = nondet_bool(); d.sasl2AuthRequest.v.bindRequest.has = nondet_bool(); d.sasl2AuthRequest.v.bindRequest.v.tag = nondet_qstr();
  d.jid = nondet_qstr(); d.resource = nondet_qstr();
  /* --- the reply finishes */
  gh_sender = reply; gh_sender_req_user = asked_user; gh_sender_req_domain = asked_domain;
  qstr jid_before = d.jid; unsigned bound_before = gh_connected;
  if (d.saslServer != NULL && F2_CLASS(d.saslServer->username != asked_user)) {      /* d.saslServer == NULL is the class of finding C16-F3 (per-call proofs) */
    QXmppIncomingClient_onPasswordReply(&c);
    __CPROVER_assert(d.jid == jid_before || (reply->m_error == QXmppPasswordReply_Error__NoError &&
                       (d.jid == USER_AT_DOMAIN(asked_user, asked_domain) || (gh_connected != bound_before && d.jid == WITH_RESOURCE(BARE(USER_AT_DOMAIN(asked_user, asked_domain)), d.resource)))),
                     "[lemma.approval_is_credited_to_exactly_the_user_and_domain_the_checker_was_asked_about]");
  }
}
