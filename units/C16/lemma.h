/* units/C16/lemma.h -- two-step lemma over the REAL checkCredentials and the REAL onPasswordReply (both lowered, neither replaced):
 *
 *   "the server accepts a client as a user only after the password checker approved exactly that user and password"
 *
 * step 1: checkCredentials() asks the checker about (domain, user, password) and gets a reply object;
 * between: any number of further elements may arrive before the (asynchronous) reply: per the verified frame of handleStanza they may
 *          replace the SASL object, change its username, the SASL version, the pending SASL2 request -- but they cannot touch the reply
 *          object or its dynamic properties (A-QOBJECT), nor d->domain;
 * step 2: the reply finishes and runs onPasswordReply().
 * Claim: if the connection's identity changes in step 2, the reply says NoError and the identity is <user asked about>@<domain asked about>
 *        (or that address with a resource, when SASL2 bound one inline). */
void h_lemma_request_then_reply(void) {
  gh_havoc();
  QXmppIncomingClient c; QXmppIncomingClientPrivate d; QTimer timer; QSslSocket sock; QXmppSaslServer sasl; QXmppSaslServer later; QXmppPasswordChecker checker;
  __CPROVER_assume(QXmppIncomingClientPrivate_ENUMS_VALID(&d)); c.d = &d; d.q = &c; d.idleTimer = &timer; d.socket.m_socket = &sock; d.saslServer = &sasl; d.passwordChecker = &checker;
  gh_prop_n = 0; gh_ov_n = 0;
  sasl.mechanism = S("PLAIN");
  qbytes response = nondet_int();
  unsigned asked_before = gh_cp_calls;
  QXmppIncomingClientPrivate_checkCredentials(&d, response);
  __CPROVER_assert(gh_cp_calls == asked_before + 1, "[lemma.plain_credentials_are_put_to_the_checker]");
  qstr asked_user = gh_req_user; qstr asked_domain = gh_req_domain; QXmppPasswordReply *reply = gh_req_reply;
  /* --- anything handleStanza may do before the reply arrives (its assigns clause), except to the reply object */
  if (nondet_bool()) d.saslServer = &later; else if (nondet_bool()) d.saslServer = NULL; else { sasl.username = nondet_qstr(); sasl.password = nondet_qstr(); sasl.m_step = nondet_int(); }
  d.saslVersion = nondet_int(); __CPROVER_assume(QXmppIncomingClientPrivate_ENUMS_VALID(&d)) /* handleStanza's verified postcondition */; d.sasl2AuthRequest.has = nondet_bool(); d.sasl2AuthRequest.v.bindRequest.has = nondet_bool(); d.sasl2AuthRequest.v.bindRequest.v.tag = nondet_qstr();
  d.jid = nondet_qstr(); d.resource = nondet_qstr();
  /* --- the reply finishes */
  gh_sender = reply; gh_sender_req_user = asked_user; gh_sender_req_domain = asked_domain;
  qstr jid_before = d.jid; unsigned bound_before = gh_connected;
  if (d.saslServer != NULL && F2_CLASS(d.saslServer->username != asked_user)) {      /* d.saslServer == NULL is the class of finding C16-F3 (per-call proofs) */
    QXmppIncomingClient_onPasswordReply(&c);
    __CPROVER_assert(d.jid == jid_before || (reply->m_error == QXmppPasswordReply_Error__NoError &&
                       (d.jid == USER_AT_DOMAIN(asked_user, asked_domain) || (gh_connected != bound_before && d.jid == WITH_RESOURCE(BARE(USER_AT_DOMAIN(asked_user, asked_domain)), d.resource)))),
                     "[lemma.approval_is_credited_to_exactly_the_user_and_domain_the_checker_was_asked_about]");
  }
}

/* Two-step lemma over the REAL bundled getDigest() and the REAL onDigestReply() (both lowered, neither replaced):
 *
 *   "a connection gets past DIGEST-MD5 verification (and so can become authenticated through DIGEST-MD5) only if the checker knows the
 *    user (getPassword reported NoError) and the client's response matches the digest of that user's password"
 *
 * step 1: getDigest(request) looks the user up and builds the reply;
 * step 2: the reply finishes and runs onDigestReply() on an arbitrary connection state (within the SASL-object invariant) whose reply
 *         carries the raw SASL payload as dynamic property (checkCredentials' verified postcondition).
 * Together with the handlers' respond contract (DIGEST-MD5 says Succeeded only from step 2, reached only by that verification). */
void h_lemma_digest_lookup_then_reply(void) {
  gh_havoc();
  QXmppPasswordChecker checker; QXmppPasswordRequest request;
  request.m_domain = nondet_qstr(); request.m_username = nondet_qstr(); request.m_password = nondet_qstr();
  QXmppPasswordReply *reply = QXmppPasswordChecker_getDigest_base(&checker, &request);
  int lookup = gh_gp_result; qstr secret = gh_gp_secret;
  QXmppIncomingClient c; QXmppIncomingClientPrivate d; QTimer timer; QSslSocket sock; QXmppSaslServer sasl;
  __CPROVER_assume(QXmppIncomingClientPrivate_ENUMS_VALID(&d)); c.d = &d; d.q = &c; d.idleTimer = &timer; d.socket.m_socket = &sock; d.passwordChecker = &checker;
  d.saslServer = nondet_bool() ? &sasl : NULL;
  qbytes raw = nondet_int();
  gh_prop_n = 1; gh_prop_obj[0] = reply; gh_prop_name[0] = S("__sasl_raw"); gh_prop_val[0] = raw; gh_ov_n = 0;
  gh_sender = reply;
  if (SASL_OBJECT_INV(d.saslServer)) {
    qstr jid_before = d.jid; unsigned success_before = gh_sent_success; unsigned calls_before = gh_respond_calls;
    qbytes digest_before = d.saslServer != NULL ? d.saslServer->passwordDigest : 0;
    QXmppIncomingClient_onDigestReply(&c);
    bool verified = d.saslServer != NULL && d.saslServer->mechanism == S("DIGEST-MD5") && gh_respond_calls != calls_before && gh_respond_self == d.saslServer &&
                    gh_respond_old_step == 1 && d.saslServer->m_step == 2;
    __CPROVER_assert(!verified || (lookup == QXmppPasswordReply_Error__NoError && gh_respond_request == raw &&
                                   gh_respond_secret == DIGEST_OF(request.m_username, request.m_domain, secret)),
                     "[lemma.digest_md5_verification_passes_only_for_a_user_the_checker_knows_and_against_the_digest_of_that_users_password]");
    __CPROVER_assert(d.saslServer == NULL || d.saslServer->passwordDigest == digest_before || d.saslServer->passwordDigest == 0 || lookup == QXmppPasswordReply_Error__NoError,
                     "[lemma.a_digest_reaches_the_sasl_object_only_from_a_lookup_that_knows_the_user]");
    __CPROVER_assert(d.jid == jid_before && gh_sent_success == success_before, "[lemma.a_digest_lookup_alone_never_authenticates]");
  }
}
