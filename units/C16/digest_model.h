/* units/C16/digest_model.h -- DIGEST-MD5 server side in the byte-term model of qtmodel/terms.h (shared with units/C06, which verifies
 * the client side and calculateDigest; RFC 2831 formulas come from units/C06/mech_spec.h).
 *
 * DMap = QMap<QByteArray,QByteArray>: either the result of QXmppSaslDigestMd5::parseMessage (lookups are uninterpreted functions of the
 * message bytes and the key; the character-level grammar is behind a contract) or a map built with operator[] on literal directive names. */
#define DMAP_N 14
enum { DIR_algorithm, DIR_authzid, DIR_charset, DIR_cipher, DIR_cnonce, DIR_digest_uri, DIR_maxbuf, DIR_nc, DIR_nonce, DIR_qop, DIR_realm, DIR_response, DIR_rspauth, DIR_username };
typedef struct DMap { bool parsed; bool src_nonempty; int src; bool has[DMAP_N]; BA v[DMAP_N]; } DMap;
bool __CPROVER_uninterpreted_dmsg_has(int msg, int key);
int __CPROVER_uninterpreted_dmsg_attr(int msg, int key);
bool __CPROVER_uninterpreted_dmsg_attr_empty(int msg, int key);
bool __CPROVER_uninterpreted_dmsg_attr_is_auth(int msg, int key);
/* value of directive `key`: absent/empty, the word "auth" (the one literal the server compares a directive with), or some other byte string (one opaque chunk) */
static inline BA dmsg_value_id(int m, bool nonempty, int k) {
  if (!nonempty || !__CPROVER_uninterpreted_dmsg_has(m, k) || __CPROVER_uninterpreted_dmsg_attr_empty(m, k)) return ba_empty();
  if (__CPROVER_uninterpreted_dmsg_attr_is_auth(m, k)) return BA_LIT("auth");
  int a = __CPROVER_uninterpreted_dmsg_attr(m, k);
  __CPROVER_assume(a > 256);      /* an opaque chunk (qtmodel/terms.h: atoms 1..256 are concrete bytes) */
  return ba_atom(a);
}
static inline BA dmsg_value(BA msg, BA key) { return dmsg_value_id(ba_id(msg), msg.n != 0, ba_id(key)); }
static inline void DMap_ctor(DMap *m) { m->parsed = false; m->src_nonempty = false; m->src = 0; for (int i = 0; i < DMAP_N; i++) { m->has[i] = false; m->v[i] = ba_empty(); } }
static inline BA *DMap_slot(DMap *m, int d) {
  MODEL_LIMIT(!m->parsed, "operator[] on a parsed message");
  if (!m->has[d]) { m->has[d] = true; m->v[d] = ba_empty(); }
  return &m->v[d];
}
static inline void DMap_value(BA *r, const DMap *m, const BA *key) {
  MODEL_LIMIT(m->parsed, "value() on a map that was built, not parsed");
  *r = dmsg_value_id(m->src, m->src_nonempty, ba_id(*key));
}
/* the two grammar functions of QXmppSasl.cpp, used through contracts (A-DIGEST-GRAMMAR) */
void QXmppSaslDigestMd5_parseMessage(DMap *_ret, const BA *ba)
__CPROVER_requires(__CPROVER_is_fresh(_ret, sizeof(*_ret)))
__CPROVER_requires(__CPROVER_is_fresh(ba, sizeof(*ba)))
__CPROVER_assigns(*_ret)
__CPROVER_ensures(_ret->parsed && _ret->src == ba_id(*ba) && _ret->src_nonempty == (ba->n != 0))
;
int __CPROVER_uninterpreted_dser14(int present, int v0, int v1, int v2, int v3, int v4, int v5, int v6, int v7, int v8, int v9, int v10, int v11, int v12, int v13);
static inline BA dmsg_serialized(const DMap *m) {
  int present = 0;
  for (int i = 0; i < DMAP_N; i++) if (m->has[i]) present |= 1 << i;
#define DV(i) (m->has[i] ? ba_id(m->v[i]) : 0)
  return ba_atom(__CPROVER_uninterpreted_dser14(present, DV(0), DV(1), DV(2), DV(3), DV(4), DV(5), DV(6), DV(7), DV(8), DV(9), DV(10), DV(11), DV(12), DV(13)));
#undef DV
}
void QXmppSaslDigestMd5_serializeMessage(BA *_ret, const DMap *map)
__CPROVER_requires(__CPROVER_is_fresh(_ret, sizeof(*_ret)))
__CPROVER_requires(__CPROVER_is_fresh(map, sizeof(*map)))
__CPROVER_assigns(*_ret)
__CPROVER_ensures(ba_eq(*_ret, dmsg_serialized(map)))
;
/* ---- specification vocabulary (RFC 2831 section 2.1.1 digest-challenge, 2.1.2.1 response-value, 2.1.3 rspauth) */
/* the challenge of step 0: nonce (the one this object holds), realm only if configured, qop=auth, charset=utf-8, algorithm=md5-sess */
static inline BA rfc2831_server_challenge(BA nonce, BA realm_utf8) {
  int present = (1 << DIR_nonce) | (1 << DIR_qop) | (1 << DIR_charset) | (1 << DIR_algorithm) | (realm_utf8.n != 0 ? (1 << DIR_realm) : 0);
  return ba_atom(__CPROVER_uninterpreted_dser14(present, /*algorithm*/ ba_id(BA_LIT("md5-sess")), 0, /*charset*/ ba_id(BA_LIT("utf-8")), 0, 0, 0, 0, 0, /*nonce*/ ba_id(nonce), /*qop*/ ba_id(BA_LIT("auth")),
                                                /*realm*/ realm_utf8.n != 0 ? ba_id(realm_utf8) : 0, 0, 0, 0));
}
static inline BA rfc2831_server_rspauth(BA value) {
  return ba_atom(__CPROVER_uninterpreted_dser14(1 << DIR_rspauth, 0, 0, 0, 0, 0, 0, 0, 0, 0, 0, 0, 0, ba_id(value), 0));
}
#define REQ(key) dmsg_value(*request, BA_LIT(key))
/* the secret the response is verified against: H(user:realm:password) when the object holds a clear-text password, else the stored digest */
#define SERVER_SECRET(self) ((self)->base.d->password.n != 0 ? T_H(QCryptographicHash_Algorithm__Md5, ba_cat5(T_UTF8((self)->base.d->username), BA_LIT(":"), REQ("realm"), BA_LIT(":"), T_UTF8((self)->base.d->password))) : (self)->base.d->passwordDigest)
