"""C02 -- parsing any well-formed XML is safe and normalising (claimed for the nonza struct codecs of C01 and the enum
string tables; see manifest.json).  Reuses the machinery of units/C01."""
import os, sys
HERE = os.path.dirname(os.path.abspath(__file__))
C01 = os.path.join(os.path.dirname(HERE), 'C01')
sys.path.insert(0, C01)
from vlib.unit import VERIF, Spec, scan_assumes
from vlib.runner import Proof
import codec
from codec import Kit, C2CPP, field_eq, type_inv
from rt import ASSUMED, HOOKS_NOTE, LISTS, LIST_BOUND, QT, rd, LOOPFREE, finding_classes, discriminators, CONTEXT, ROOT_NAME_PATCH, spec_from, mk_proof


def fixpoint_fn(kit, c, guard_extra='1', patch_root=None):
    """X_fixpoint: parse an ARBITRARY foreign element with the real fromDom; if it is accepted, serialise the object with the
    real toXml into the ghost document and parse that again: the object must satisfy its type invariants, the output must
    be one well-formed element, the second parse must accept it and give the same object (so a further serialisation gives
    the same document)"""
    g = '(a->has && %s)' % guard_extra
    lines = ['__CPROVER_requires(__CPROVER_is_fresh(a, sizeof(*a)) && __CPROVER_is_fresh(b, sizeof(*b)))',
             '__CPROVER_requires(!X_BUILT(e))',
             '__CPROVER_assigns(*a, *b, gh_x)',
             '//: post.parsed_object_satisfies_its_type_invariants',
             '__CPROVER_ensures(%s ==> %s)' % (g, type_inv(kit, c, 'a->v')),
             '//: post.parsed_object_serialises_to_one_well_formed_element',
             '__CPROVER_ensures(%s ==> XW_ONE_COMPLETE_ELEMENT())' % g,
             '//: post.output_of_the_parsed_object_is_accepted_again',
             '__CPROVER_ensures(%s ==> b->has)' % g]
    for f, t, _ in kit.layouts[c]:
        lines.append('//: post.second_parse_gives_the_same_%s' % f)
        lines.append('__CPROVER_ensures(%s && b->has ==> %s)' % (g, field_eq(t, 'b->v.' + f, 'a->v.' + f)))
    sp = Spec(kit.b.subst('## contract\n' + '\n'.join(lines) + '\n'))
    pre = ''
    if c in CONTEXT:
        pre = '  xw_writeStartElement(&w, S("%s")); xw_writeDefaultNamespace(&w, S("%s")); xw_set_base();   /* the parent element it is written into */\n' % CONTEXT[c]
    patch = ''
    if patch_root:
        patch = '    gh_x.tag[gh_x.root] = S("%s");   /* FINDING EXCLUDED: the recorded defect (element name) repaired in the ghost document */\n' % patch_root
    body = ('void %s_fixpoint(qdom e, Opt%s *a, Opt%s *b)\n%s\n{\n  xw w;\n  xw_reset();\n%s  %s_fromDom(a, e);\n  b->has = false;\n  if (a->has) {\n    %s_toXml(&a->v, &w);\n    xw_finish();\n%s    %s_fromDom(b, gh_x.root);\n  }\n}\n'
            % (c, c, c, sp.contract, pre, c, c, patch, c))
    return kit.b.subst(body), sp


def fixpoint_proofs(kit, c, classes, **kw):
    discs = discriminators(kit, c, 'a->v', classes)
    cname = c + '_fixpoint'
    whole = [fid for fid, e in discs.items() if e == '1']
    partial = {fid: e for fid, e in discs.items() if e != '1'}
    none_of = ' && '.join('!(%s)' % e for e in partial.values()) or '1'
    variants = [(cname, none_of, ROOT_NAME_PATCH.get(c) if whole else None, None)]
    for fid in whole:
        variants.append(('%s@%s' % (cname, fid), none_of, None, fid))
    for fid, e in partial.items():
        others = ' && '.join('!(%s)' % e2 for f2, e2 in partial.items() if f2 != fid)
        variants.append(('%s@%s' % (cname, fid), e + (' && ' + others if others else ''), ROOT_NAME_PATCH.get(c) if whole else None, fid))
    out = []
    for pid, guard, patch, fid in variants:
        body, sp = fixpoint_fn(kit, c, guard, patch)
        harness = 'void h_%s(void) { qdom e; Opt%s *a; Opt%s *b; %s(e, a, b); }' % (cname, c, c, cname)
        note = 'ARBITRARY foreign element (tag, namespace, attributes, text, children all uninterpreted); real %s::fromDom, toXml, fromDom inlined' % C2CPP[c]
        if fid:
            note += '; postconditions RESTRICTED to parse results in the input class of finding ' + fid
        elif discs:
            note += '; parse results in the input classes of the recorded findings excluded: ' + ', '.join(sorted(discs)) + (' (element name repaired in the ghost document)' if patch else '')
        if c in CONTEXT:
            note += '; re-serialised inside its parent <%s xmlns=%s/>' % CONTEXT[c]
        p = mk_proof(kit, pid, [c + '_toXml', c + '_fromDom'], cname, sp, body, harness, finding=fid, note=note, timeout=900, **kw)
        out.append(p)
    return out


ENUM_PARSERS = [   # (instantiation, N, the table its callers pass, where the result is used as an index)
    ('enumFromString_ErrorCondition_11', 11, 'SASL_ERROR_CONDITIONS', 'Sasl::Failure::toXml, Sasl::errorConditionToString (both lowered here)'),
    ('enumFromString_StreamError_25', 25, 'STREAM_ERROR_CONDITIONS', 'StreamErrorElement::streamErrorToString (lowered here)'),
    ('enumFromString_IqType_4', 4, 'IQ_TYPES', 'QXmppIq::toXml: IQ_TYPES.at(d->type) (caller not lowered)'),
    ('enumFromString_MessageType_5', 5, 'MESSAGE_TYPES', 'QXmppMessage::toXml: MESSAGE_TYPES.at(size_t(d->type)) (caller not lowered)'),
    ('enumFromString_MessageState_6', 6, 'CHAT_STATES', 'QXmppMessage::serializeExtensions: CHAT_STATES.at(d->state) (caller not lowered)'),
    ('enumFromString_MessageMarker_4', 4, 'MARKER_TYPES', 'QXmppMessage::serializeExtensions: MARKER_TYPES.at(d->marker) (caller not lowered)'),
    ('enumFromString_PresenceType_8', 8, 'PRESENCE_TYPES', 'QXmppPresence::toXml: PRESENCE_TYPES.at(d->type) (caller not lowered)'),
    ('enumFromString_PresenceAvailableStatusType_6', 6, 'AVAILABLE_STATUS_TYPES', 'QXmppPresence::toXml: AVAILABLE_STATUS_TYPES.at(...) (caller not lowered)'),
]


def table_proofs(kit):
    """index-in-range: every instantiation of enumFromString used by the stanza parsers returns only indices of the table it is
    given (so `.value_or(<declared enumerator>)` stays in range of the table later indexed with .at()); the two enum -> string
    functions with a .at() that are lowered here, under the enum's type invariant"""
    proofs = []
    kit.prefetch([(codec.HELPERS[c][0], 'enumFromString') for c, _, _, _ in ENUM_PARSERS])
    for cname, n, table, use in ENUM_PARSERS:
        sp = spec_from(kit, 'enumFromString.spec.in', N=str(n))
        text = kit.with_contract(cname, sp)
        proofs.append(mk_proof(kit, cname, [cname], cname, sp, '', 'void h_%s(void) { OptEnum *r; qstr *tab; qstr s; g_k = nondet_int(); %s(r, tab, s); }' % (cname, cname),
                               override={cname: text}, unwind=n + 2,
                               note='enumFromString instantiation called with %s: EVERY table of %d strings, every string; result used by %s' % (table, n, use)))
    for cname, arg, n, table in (('Sasl_errorConditionToString', 'c', 11, 'SASL_ERROR_CONDITIONS'), ('streamErrorToString', 'e', 25, 'STREAM_ERROR_CONDITIONS')):
        sp = spec_from(kit, 'enumToString.spec.in', ARG=arg, N=str(n), TABLE=table)
        text = kit.with_contract(cname, sp)
        p = mk_proof(kit, cname, [cname], cname, sp, '', 'void h_%s(void) { int v; %s(v); }' % (cname, cname), override={cname: text},
                     note='%s.at(size_t(e)): index obligation (assertion safety.at_index_in_range) under the type invariant of the enum (declared enumerators 0..%d)' % (table, n - 1))
        p.expect_post = len(sp.labels)
        proofs.append(p)
    return proofs


def build(work, tier):
    kit = Kit('C02', work)
    proofs = []
    kit.prefetch_codecs(LOOPFREE + LISTS)
    for c in LOOPFREE + LISTS:
        kit.need(c + '_toXml')
        kit.need(c + '_fromDom')
    # SmFailed{NoCondition} (finding of C01) is not in the image of the parser: no input class here
    classes = {k: v for k, v in finding_classes(kit, 'C02').items() if not k.endswith('-smfailed-nocondition')}
    for c in LOOPFREE:
        proofs += fixpoint_proofs(kit, c, classes)
    for c in LISTS:
        proofs += fixpoint_proofs(kit, c, classes, kind='bounded', unwind=4, bound_text=LIST_BOUND + '; foreign elements with more matching children are outside the stand-in')
    proofs += table_proofs(kit)
    # IQ extension: loop-free payload codecs of QXmppIq subclasses and the QXmppIq header
    import iq
    kits = [kit]
    import ext
    for fn in (iq.payload_proofs, iq.header_proofs, iq.item_proofs, ext.jmi_proofs, ext.pt_proofs, ext.content_proofs, ext.he_proofs, ext.error_proofs):
        k, ps = fn('C02', work, mk_proof, 'fixpoint')
        if k is not None:
            kits.append(k)
        proofs += ps
    if tier != 'thorough':
        # quick tier: the finding-restricted runs of the two largest composites only repeat what the member codec's own run
        # reports, and the (bounded, 160 s) fixpoint run of Sasl2::StreamFeature is left to the thorough tier
        proofs = [p for p in proofs if not ((getattr(p, 'finding', None) and p.id.split('_fixpoint')[0] in ('Sasl2Success', 'Sasl2StreamFeature')) or p.id.startswith('Sasl2StreamFeature_'))]
    text_all = open(os.path.join(QT, 'xml.h')).read() + open(os.path.join(QT, 'conv.h')).read() + open(os.path.join(QT, 'opaque.h')).read() + codec.MODEL_GLUE + iq.TZO_MODEL + iq.HDR_STUBS + iq.presence.STUBS + iq.ITEM_MODEL + ext.JMI_STUBS + ext.PT_MODEL + ext.CT_STUBS + ext.HE_MODEL
    npad = sum(t.count('xw_pad(') for k in kits for t in k.texts.values())
    functions, seen = [], set()
    for k in kits:
        for f in k.b.functions:
            if f['cname'] not in seen:
                seen.add(f['cname'])
                functions.append(f)
    fired = {}
    for k in kits:
        for r, n in k.b.fired.items():
            fired[r] = fired.get(r, 0) + n
    return {
        'proofs': proofs, 'functions': functions, 'dropped': [d for k in kits for d in k.b.dropped], 'fired': fired,
        'hooks': [HOOKS_NOTE % npad],
        'assumed': ASSUMED + iq.ASSUMED_IQ + ext.ASSUMED_EXT + ['every proof runs with CBMC\'s safety checks on the lowered text for ALL inputs: array bounds, pointer validity, signed overflow, division by zero, shift width, and the std::array::at index obligation (assertion safety.at_index_in_range)'],
        'assumes': scan_assumes(text_all),
        'not_covered': [
            'termination and resource use of Qt\'s DOM / XML reader, crashes inside Qt, deep nesting, huge attributes (strings are opaque values here)',
            'of the QXmppIq family: the header (bounded stand-in: at most 2 extended addresses in the foreign element; payload hooks, <error/> and extended addresses are contract-only stubs) and the payload parsers of QXmppBindIq, QXmppVersionIq, QXmppNonSASLAuthIq, QXmppEntityTimeIq, QXmppIbbOpenIq / CloseIq / DataIq are covered, nothing else of it',
            'the client\'s dispatch path (QXmppOutgoingClient / QXmppClient) and all large parsers (QXmppMessage, QXmppPresence, every other QXmppIq subclass, QXmppStanza::Error, Jingle, data forms, pubsub events, QXmppStreamFeatures::parse): not lowered; members default-initialised only by parse (QXmppStanzaErrorPrivate::maxFileSize, QXmppE2eeMetadataPrivate::encryption) are NOT examined',
            'the .at() call sites in QXmppIq::toXml, QXmppMessage::toXml / serializeExtensions, QXmppPresence::toXml, Jingle, MIX, pubsub: only the range postcondition of the enumFromString instantiations feeding d->type / d->state / d->marker is proved; that every other writer of those members (setters, constructors) keeps them in range is not',
            'StreamErrorElement::fromDom (std::variant, structured binding, parseHostAddress): only its enumFromString<StreamError, 25> instantiation and streamErrorToString',
            'foreign elements with more than 2 matching children in the four list-valued codecs (bounded stand-in)',
            'the supporting static scan (cppcheck uninitMemberVar / clang-tidy member-init) named in DESIGN 6 C02 is not run by this unit',
        ],
        'explanation': 'For every nonza struct of the C01 subset: an ARBITRARY foreign element (all DOM queries uninterpreted) is parsed by the real fromDom; if accepted, the object is serialised by the real toXml into the ghost document and parsed again. Proved: the parsed object satisfies its type invariants (enum members hold declared enumerators, so the .at() in Sasl::Failure::toXml and errorConditionToString is in range), the output is one well-formed element, the second parse accepts it and yields the same object (one parse/serialise pass is a fixpoint).',
    }
