"""C06: lowering profile for SaslManager::handleElement / Sasl2Manager::handleElement (opaque strings and bytes, abstract DOM,
event log for promise completion and socket writes, the mechanism object behind its abstract contract)."""
import re
from vlib.cxx2c import Lowerer, Unsupported, strip_type, strip_amp, line_of, qt, dqt
from vlib.opaque_profile import opaque_profile

NS = r'(QXmpp::Private::)?'
TYPE_PATTERNS = [
    (re.compile(r'^std::optional<QXmppPromise<.*>>$'), 'OptPromise'),
    (re.compile(r'^(typename std::remove_reference<)?QXmppPromise<.*>(::type)?$'), 'promise_id'),
    (re.compile(r'^std::optional<' + NS + r'(Sasl::)?Success>$'), 'OptSuccess1'),
    (re.compile(r'^std::optional<' + NS + r'(Sasl::)?Challenge>$'), 'OptChallenge'),
    (re.compile(r'^std::optional<' + NS + r'(Sasl::)?Failure>$'), 'OptFailure'),
    (re.compile(r'^std::optional<' + NS + r'(Sasl::)?ErrorCondition>$'), 'OptCondition'),
    (re.compile(r'^' + NS + r'(Sasl::)?Challenge$'), 'SaslChallenge'),
    (re.compile(r'^' + NS + r'(Sasl::)?Failure$'), 'SaslFailure'),
    (re.compile(r'^' + NS + r'(Sasl::)?Response$'), 'SaslResponse'),
    (re.compile(r'^' + NS + r'(Sasl::)?ErrorCondition$'), 'int'),
    (re.compile(r'^std::optional<QByteArray>$'), 'OptQba'),
    (re.compile(r'^std::unique_ptr<QXmppSaslClient>(::pointer)?$'), 'mech_id'),
    (re.compile(r'^QXmppSaslClient\*$'), 'mech_id'),
    (re.compile(r'^(QXmpp::)?Success$'), 'auth_result'),
    (re.compile(r'^(' + NS + r'Sasl2?Manager::)?AuthError$'), 'auth_result'),
    (re.compile(r'^(' + NS + r'Sasl2?Manager::)?AuthResult$'), 'auth_result'),
    (re.compile(r'^std::pair<QString,\s*(QXmpp::)?AuthenticationError>$'), 'auth_result'),
    (re.compile(r'^std::variant<(QXmpp::)?(Private::)?(Sasl2::)?Success,\s*std::pair<QString,\s*(QXmpp::)?AuthenticationError>>$'), 'auth_result'),
    (re.compile(r'^(QXmpp::)?AuthenticationError$'), 'auth_error'),
    (re.compile(r'^(QXmpp::)?AuthenticationError::Type$'), 'int'),
    (re.compile(r'^' + NS + r'SendDataInterface\*$'), 'socket_id'),
    (re.compile(r'^' + NS + r'HandleElementResult$'), 'int'),
    (re.compile(r'^' + NS + r'SaslManager$'), 'SaslManager'),
    (re.compile(r'^' + NS + r'Sasl2Manager$'), 'Sasl2Manager'),
    (re.compile(r'^QByteArray$'), 'qba'),
    (re.compile(r'^std::any$'), 'any_t'),
    # SASL 2
    (re.compile(r'^std::optional<' + NS + r'Sasl2::Challenge>$'), 'OptChallenge2'),
    (re.compile(r'^std::optional<' + NS + r'Sasl2::Success>$'), 'OptSuccess2'),
    (re.compile(r'^std::optional<' + NS + r'Sasl2::Failure>$'), 'OptFailure2'),
    (re.compile(r'^std::optional<' + NS + r'Sasl2::Continue>$'), 'OptContinue'),
    (re.compile(r'^' + NS + r'Sasl2::Challenge$'), 'Sasl2Challenge'),
    (re.compile(r'^' + NS + r'Sasl2::Success$'), 'Sasl2Success'),
    (re.compile(r'^' + NS + r'Sasl2::Failure$'), 'Sasl2Failure'),
    (re.compile(r'^' + NS + r'Sasl2::Continue$'), 'Sasl2Continue'),
    (re.compile(r'^' + NS + r'Sasl2::Response$'), 'Sasl2Response'),
    (re.compile(r'^' + NS + r'Sasl2::Abort$'), 'Sasl2Abort'),
    (re.compile(r'^std::optional<(' + NS + r'Sasl2Manager::)?State>$'), 'OptState'),
    (re.compile(r'^(typename std::remove_reference<)?(' + NS + r'Sasl2Manager::)?State( ?&>::type)?$'), 'Sasl2State'),
]
CLASS_TYPES = {'OptPromise', 'OptSuccess1', 'OptChallenge', 'OptFailure', 'OptCondition', 'SaslChallenge', 'SaslFailure', 'SaslResponse', 'OptQba',
               'SaslManager', 'Sasl2Manager', 'OptChallenge2', 'OptSuccess2', 'OptFailure2', 'OptContinue', 'Sasl2Challenge', 'Sasl2Success',
               'Sasl2Failure', 'Sasl2Continue', 'Sasl2Response', 'Sasl2Abort', 'OptState', 'Sasl2State'}


def pattern_type(s):
    for rx, ct in TYPE_PATTERNS:
        if rx.match(s):
            return ct
    return None


def find(n, pred):
    if pred(n):
        return n
    for c in n.get('inner', []):
        if isinstance(c, dict):
            r = find(c, pred)
            if r is not None:
                return r
    return None


class MgrLowerer(Lowerer):
    def __init__(self, *a, **k):
        Lowerer.__init__(self, *a, **k)
        self.lambdas = {}

    def ctype(self, t, node=None):
        if t is not None:
            s = strip_type(t)
            ptr = ''
            p = pattern_type(s)
            if p:
                return p
        return Lowerer.ctype(self, t, node)

    def tkey(self, n):
        # the desugared (fully qualified) spelling first: `Success` alone is QXmpp::Success or Sasl2::Success depending on scope
        for cand in (dqt(n), qt(n)):
            p = pattern_type(strip_type(cand))
            if p:
                return p
        return Lowerer.tkey(self, n)

    def ntype(self, n):
        for cand in (dqt(n), qt(n)):
            p = pattern_type(strip_type(cand))
            if p:
                return p
        return Lowerer.ntype(self, n)

    def construct_value(self, n, t, target):
        if t == 'auth_result':
            # the authentication result: only success / error is represented
            argn = [a for a in n.get('inner', []) if a.get('kind') != 'CXXDefaultArgExpr']
            kinds = [self.tkey(self.skip(a)) for a in argn]
            if not argn:
                e = 'RES_SUCCESS'
                self.fire('ctor:auth_result()')
            elif kinds == ['auth_result']:
                e = self.expr(argn[0])
            elif kinds == ['Sasl2Success']:
                pure_operands(self, n, 'AuthResult(Sasl2::Success)')
                self.fire('ctor:auth_result(Sasl2Success)')
                self.dropped.append({'call': 'AuthResult(Sasl2::Success&&) -> RES_SUCCESS (the contents of the success element are not represented)', 'line': line_of(n)})
                e = 'RES_SUCCESS'
            elif kinds == ['qstr', 'auth_error']:
                self.fire('ctor:auth_result(qstr,auth_error)')
                e = auth_error(self, n)
            else:
                raise Unsupported('ctor:auth_result(%s)' % ','.join(kinds))
            if target:
                self.pre.append('%s = %s;' % (target, e))
                return target
            return e
        return Lowerer.construct_value(self, n, t, target)

    # ---- local lambdas: recorded at their declaration, lowered in place at every call (closure conversion by inlining; the
    #      only capture is `this`)
    def vardecl(self, v, sp):
        if v.get('kind') == 'VarDecl':
            init = [c for c in v.get('inner', []) if isinstance(c, dict) and 'kind' in c]
            if init and self.skip(init[0]).get('kind') == 'LambdaExpr':
                lam = self.skip(init[0])
                caps = [c for c in lam.get('inner', []) if c.get('kind') not in ('CXXRecordDecl', 'CompoundStmt', 'CXXThisExpr')]
                if caps:
                    raise Unsupported('local lambda %s captures more than this' % v['name'])
                self.lambdas[v['id']] = lam
                self.fire('lambda:local:' + v['name'])
                self.emit('%s/* local lambda %s: its body is lowered in place at each call */' % (sp, v['name']))
                return
        if v.get('kind') == 'UsingDirectiveDecl':
            return
        return Lowerer.vardecl(self, v, sp)

    def opcall(self, n):
        rd = self.callee_ref(n)
        if rd.get('name') == 'operator()':
            a0 = self.skip(n['inner'][1])
            if a0.get('kind') == 'DeclRefExpr' and a0['referencedDecl']['id'] in self.lambdas:
                return self.inline_lambda(a0['referencedDecl']['name'], self.lambdas[a0['referencedDecl']['id']], rd, n['inner'][2:])
        return Lowerer.opcall(self, n)

    def inline_lambda(self, name, lam, rd, argn):
        rec = [c for c in lam['inner'] if c.get('kind') == 'CXXRecordDecl'][0]
        m = find(rec, lambda x: x.get('kind') == 'CXXMethodDecl' and x.get('name') == 'operator()' and x.get('id') == rd.get('id'))
        if m is None:
            raise Unsupported('call of lambda %s: operator() %s not found' % (name, rd.get('type', {}).get('qualType')))
        params = [c for c in m['inner'] if c.get('kind') == 'ParmVarDecl']
        body = [c for c in m['inner'] if c.get('kind') == 'CompoundStmt']
        if len(params) != len(argn) or len(body) != 1:
            raise Unsupported('call of lambda %s: shape' % name)
        if find(body[0], lambda x: x.get('kind') == 'ReturnStmt') is not None:
            raise Unsupported('local lambda %s returns' % name)
        self.fire('lambda:inline:' + name)
        lines = []
        for pv, a in zip(params, argn):
            ct = self.ntype(pv)
            if ct in self.p.class_types:
                raise Unsupported('lambda parameter of class type %s' % ct)
            e = self.expr(a)
            t = self.newtmp()
            self.pre.append('%s %s = %s;   /* argument %s of %s */' % (ct, t, e, pv.get('name'), name))
            self.locals[pv['id']] = (t, ct, False)
        saved_pre, saved_out = self.pre, self.out
        self.out = []
        self.stmt(body[0], 0)
        lines = self.out
        self.out = saved_out
        self.pre = saved_pre + ['/* %s(...) */' % name] + lines
        return '((void)0)'

    def stmt(self, n, ind):
        if n.get('kind') == 'DeclStmt' and all(c.get('kind') == 'UsingDirectiveDecl' for c in n.get('inner', [])):
            return
        return Lowerer.stmt(self, n, ind)


# ------------------------------------------------------------------------------------------------------------------ rules
def std_move(lw, node, args):
    return lw.expr(node['inner'][1])


def pure_operands(lw, n, what):
    for c in n.get('inner', []):
        if isinstance(c, dict) and not lw.pure(c):
            raise Unsupported('%s has an operand with side effects' % what)


def auth_error(lw, n, args_or_target=None):
    """AuthError { text, AuthenticationError { type, text, any } }: only the fact that the result is an error is represented"""
    pure_operands(lw, n, 'AuthError{...}')
    lw.dropped.append({'call': 'AuthError{text, AuthenticationError{...}} -> RES_ERROR (text, type and payload of the error are not represented)', 'line': line_of(n)})
    return 'RES_ERROR'


def from_dom(lw, node, args):
    """static X::fromDom(el) of the SASL nonzas, told apart by the resolved return type; used through their contracts"""
    t = lw.ntype(lw.skip(node))
    cname = {'OptSuccess1': 'Sasl_Success_fromDom', 'OptChallenge': 'Sasl_Challenge_fromDom', 'OptFailure': 'Sasl_Failure_fromDom',
             'OptSuccess2': 'Sasl2_Success_fromDom', 'OptChallenge2': 'Sasl2_Challenge_fromDom', 'OptFailure2': 'Sasl2_Failure_fromDom',
             'OptContinue': 'Sasl2_Continue_fromDom'}.get(t)
    if cname is None:
        raise Unsupported('fromDom returning %s' % t)
    lw.repo_callees.add(cname)
    tmp = lw.newtmp()
    lw.pre.append('%s %s; %s(&%s, %s);' % (t, tmp, cname, tmp, args[0]))
    return tmp


def serialize_xml(lw, node, args):
    a = lw.skip(node['inner'][1])
    t = lw.ntype(a)
    fn = {'SaslResponse': 'serializeXml_Response', 'Sasl2Response': 'serializeXml_Response2', 'Sasl2Abort': 'serializeXml_Abort'}.get(t)
    if fn is None:
        raise Unsupported('serializeXml of %s' % t)
    return '%s(%s)' % (fn, args[0])


def init_response(ctype):
    def rule(lw, n):
        (a,) = n['inner']
        t = lw.newtmp()
        lw.pre.append('%s %s = { %s };' % (ctype, t, lw.expr(a)))
        return t
    return rule


def init_abort(lw, n):
    pure_operands(lw, n, 'Abort{text}')
    t = lw.newtmp()
    lw.pre.append('Sasl2Abort %s = { 0 };' % t)
    return t


def respond(lw, node, args):
    """m_saslClient->respond(challenge): virtual call on the selected mechanism, used through the abstract mechanism contract"""
    lw.repo_callees.add('SaslClient_respond')
    t = lw.newtmp()
    lw.pre.append('OptQba %s; SaslClient_respond(&%s, %s);' % (t, t, ', '.join(args)))
    return t


def opt_bool(lw, node, args):
    return '%s.has' % strip_amp(args[0])


def opt_arrow(lw, node, args):
    return '(&%s.v)' % strip_amp(args[0])


def opt_deref(lw, node, args):
    return '%s.v' % strip_amp(args[0])


def profile():
    calls = {
        'fn:move/1': std_move,
        'fn:fromDom/1': from_dom,
        'fn:serializeXml/1': serialize_xml,
        'expr:InitListExpr:SaslResponse': init_response('SaslResponse'),
        'expr:InitListExpr:Sasl2Response': init_response('Sasl2Response'),
        'expr:InitListExpr:Sasl2Abort': init_abort,
        'mech_id::respond/1': respond,
        'op->:mech_id': ('arg', 0),
        'socket_id::sendData/1': ('expr', 'ev_sendData({0}, {1})'),
        'promise_id::finish/1': ('expr', 'ev_finish({0}, {1})'),
        'ctor:auth_result()': ('const', 'RES_SUCCESS'),
        'ctor:qba(qba)': ('expr', '{0}'),
        'op=:OptContinue:OptContinue': ('expr', '{v0} = {v1}'),
        'fn:errorConditionToString/1': ('fn', 'Sasl_errorConditionToString'),
        'OptCondition::value_or/1': ('expr', '({v0}.has ? {v0}.v : {1})'),
    }
    for o in ('OptPromise', 'OptSuccess1', 'OptChallenge', 'OptFailure', 'OptQba', 'OptChallenge2', 'OptSuccess2', 'OptFailure2', 'OptContinue', 'OptState', 'OptCondition'):
        calls['%s::operator bool/0' % o] = opt_bool
        calls['%s::has_value/0' % o] = opt_bool
        calls['op->:%s' % o] = opt_arrow
        calls['op*:%s' % o] = opt_deref
        calls['%s::reset/0' % o] = ('expr', '{v0}.has = false')
    p = opaque_profile(types={}, class_types=CLASS_TYPES, calls=calls,
                       pure_fns={'arg', 'errorConditionToString', 'mapSaslCondition', 'value_or', 'isEmpty', 'move', 'operator*', 'operator->'})
    return p
