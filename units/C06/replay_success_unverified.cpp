// native replay for C06/SaslManager::handleElement and Sasl2Manager::handleElement: a SCRAM login is reported successful although
// the server never proved knowledge of the password.  Scenarios (argv[1]):
//   early        <success/> sent instead of the server-first challenge (SASL 1)
//   wrong-v      full exchange, then <success> carrying a WRONG server signature (SASL 1; the data of <success/> is never read)
//   sasl2-early  <success/> without additional-data right after <authenticate/> (SASL 2)
//   sasl2-wrong  full exchange, then <success> whose additional-data carries a WRONG server signature (SASL 2)
// Exit 1 if the task finishes with success (property violated), 0 if it finishes with an error or stays pending.
#include <QDomDocument>
#include <QDomElement>
#include <cstdio>
#include <cstring>
#include "QXmppConfiguration.h"
#include "QXmppSaslManager_p.h"
#include "QXmppSasl_p.h"
#include "XmppSocket.h"
using namespace QXmpp::Private;
struct TestSocket : SendDataInterface {
    std::vector<QByteArray> sent;
    bool sendData(const QByteArray &data) override { sent.push_back(data); printf("  C: %s\n", data.constData()); return true; }
};
static QDomElement dom(const QByteArray &xml)
{
    static QList<QDomDocument> keep;
    QDomDocument doc;
    doc.setContent(xml, true);
    keep.append(doc);
    printf("  S: %s\n", xml.constData());
    return doc.documentElement();
}
int main(int argc, char **argv)
{
    const char *sc = argc > 1 ? argv[1] : "early";
    QXmppSaslDigestMd5::setNonce("fyko+d2lbbFgONRv9qkxdawL");
    QXmppLoggable loggable;
    TestSocket socket;
    QXmppConfiguration config;
    config.setUser("user");
    config.setDomain("example.org");
    config.setPassword("pencil");
    config.setDisabledSaslMechanisms({});
    // RFC 5802 section 5 example server-first message; the "server" below does not know the password
    const QByteArray serverFirst = QByteArray("r=fyko+d2lbbFgONRv9qkxdawL3rfcNHYJY1ZVvWVs7j,s=QSXCR+Q6sek8bf92,i=4096").toBase64();
    const QByteArray wrongFinal = QByteArray("v=AAAAAAAAAAAAAAAAAAAAAAAAAAA=").toBase64();
    bool success = false, finished = false;
    printf("scenario %s (mechanism SCRAM-SHA-1, the server never computes a valid ServerSignature)\n", sc);
    if (!strncmp(sc, "sasl2", 5)) {
        Sasl2Manager manager(&socket);
        auto task = manager.authenticate(Sasl2::Authenticate(), config, Sasl2::StreamFeature { { "SCRAM-SHA-1" }, {}, {}, false }, &loggable);
        if (!strcmp(sc, "sasl2-wrong")) {
            manager.handleElement(dom("<challenge xmlns='urn:xmpp:sasl:2'>" + serverFirst + "</challenge>"));
            manager.handleElement(dom("<success xmlns='urn:xmpp:sasl:2'><additional-data>" + wrongFinal + "</additional-data><authorization-identifier>user@example.org</authorization-identifier></success>"));
        } else {
            manager.handleElement(dom("<success xmlns='urn:xmpp:sasl:2'><authorization-identifier>user@example.org</authorization-identifier></success>"));
        }
        finished = task.isFinished();
        if (finished) task.then(&loggable, [&](Sasl2Manager::AuthResult r) { success = std::holds_alternative<Sasl2::Success>(r); });
    } else {
        SaslManager manager(&socket);
        auto task = manager.authenticate(config, { "SCRAM-SHA-1" }, &loggable);
        if (!strcmp(sc, "wrong-v")) {
            manager.handleElement(dom("<challenge xmlns='urn:ietf:params:xml:ns:xmpp-sasl'>" + serverFirst + "</challenge>"));
            manager.handleElement(dom("<success xmlns='urn:ietf:params:xml:ns:xmpp-sasl'>" + wrongFinal + "</success>"));
        } else {
            manager.handleElement(dom("<success xmlns='urn:ietf:params:xml:ns:xmpp-sasl'/>"));
        }
        finished = task.isFinished();
        if (finished) task.then(&loggable, [&](SaslManager::AuthResult r) { success = std::holds_alternative<QXmpp::Success>(r); });
    }
    printf("  result: %s\n", !finished ? "pending" : success ? "AUTHENTICATION REPORTED SUCCESSFUL (server signature never verified)" : "error reported");
    return success ? 1 : 0;
}
