/* C06 -- RFC 5802 (SCRAM), written from the RFC and independently of the code.  All values are terms of qtmodel/terms.h.
 *
 * RFC 5802 section 3:
 *     SaltedPassword  := Hi(Normalize(password), salt, i)
 *     ClientKey       := HMAC(SaltedPassword, "Client Key")
 *     StoredKey       := H(ClientKey)
 *     AuthMessage     := client-first-message-bare + "," + server-first-message + "," + client-final-message-without-proof
 *     ClientSignature := HMAC(StoredKey, AuthMessage)
 *     ClientProof     := ClientKey XOR ClientSignature
 *     ServerKey       := HMAC(SaltedPassword, "Server Key")
 *     ServerSignature := HMAC(ServerKey, AuthMessage)
 * section 7:
 *     client-first-message-bare            = [reserved-mext ","] "n=" saslname "," "r=" c-nonce ["," extensions]
 *     client-first-message                 = gs2-header client-first-message-bare          gs2-header = "n,," (no binding, no authzid)
 *     client-final-message-without-proof   = "c=" base64(gs2-header) "," "r=" nonce ["," extensions]
 *     client-final-message                 = client-final-message-without-proof "," "p=" base64(ClientProof)
 *     saslname                             = the user name with "," sent as "=2C" and "=" sent as "=3D" (section 5.1)
 *     server-final-message                 = "v=" base64(ServerSignature)  |  "e=" error
 * HMAC(key, str) has the key FIRST (RFC 2104); Qt's QMessageAuthenticationCode::hash(message, key, method) has it second.
 * Hi() produces dkLen = the output length of H (RFC 5802 section 2.2). */

/* the hash function named by the mechanism (RFC 5802 section 4 / RFC 7677 / draft-melnikov-scram-sha-512, -sha3-512) */
#define SCRAM_MECH_VALID(m) ((m) == QXmpp_Private_SaslScramMechanism_Algorithm__Sha1 || (m) == QXmpp_Private_SaslScramMechanism_Algorithm__Sha256 || \
                             (m) == QXmpp_Private_SaslScramMechanism_Algorithm__Sha512 || (m) == QXmpp_Private_SaslScramMechanism_Algorithm__Sha3_512)
#define SCRAM_H(m) ((m) == QXmpp_Private_SaslScramMechanism_Algorithm__Sha1 ? QCryptographicHash_Algorithm__Sha1 : \
                    (m) == QXmpp_Private_SaslScramMechanism_Algorithm__Sha256 ? QCryptographicHash_Algorithm__Sha256 : \
                    (m) == QXmpp_Private_SaslScramMechanism_Algorithm__Sha512 ? QCryptographicHash_Algorithm__Sha512 : QCryptographicHash_Algorithm__RealSha3_512)
/* output length of H in bytes: SHA-1 160 bit, SHA-256 256 bit, SHA-512 and SHA3-512 512 bit */
#define SCRAM_HLEN(m) ((m) == QXmpp_Private_SaslScramMechanism_Algorithm__Sha1 ? 20u : (m) == QXmpp_Private_SaslScramMechanism_Algorithm__Sha256 ? 32u : 64u)

/* section 5.1 "n=": the characters ',' and '=' in the (UTF-8, normalised) user name are sent as "=2C" and "=3D".  '=' has to be
   escaped first, otherwise the '=' of "=2C" would be escaped again. */
static inline BA rfc5802_saslname(BA name) { return T_REPLACE(T_REPLACE(name, '=', BA_LIT("=3D")), ',', BA_LIT("=2C")); }
static inline bool scram_needs_escape(BA name) { return !ba_eq(rfc5802_saslname(name), name); }

static inline BA rfc5802_client_first_bare(BA saslname, BA cnonce) { return ba_cat4(BA_LIT("n="), saslname, BA_LIT(",r="), cnonce); }
static inline BA rfc5802_client_first(BA saslname, BA cnonce) { return ba_cat(BA_LIT("n,,"), rfc5802_client_first_bare(saslname, cnonce)); }
static inline BA rfc5802_client_final_without_proof(BA nonce) { return ba_cat4(BA_LIT("c="), T_B64(BA_LIT("n,,")), BA_LIT(",r="), nonce); }
static inline BA rfc5802_auth_message(BA cfmb, BA server_first, BA nonce) { return ba_cat5(cfmb, BA_LIT(","), server_first, BA_LIT(","), rfc5802_client_final_without_proof(nonce)); }
static inline BA rfc5802_salted_password(int h, unsigned hlen, BA pw, BA salt, int i) { return T_Hi(h, pw, salt, i, hlen); }
static inline BA rfc5802_client_proof(int h, BA salted, BA auth_message) {
  BA client_key = T_HMAC(h, salted, BA_LIT("Client Key"));
  BA stored_key = T_H(h, client_key);
  BA client_signature = T_HMAC(h, stored_key, auth_message);
  return T_XOR(client_key, client_signature);
}
static inline BA rfc5802_server_signature(int h, BA salted, BA auth_message) {
  BA server_key = T_HMAC(h, salted, BA_LIT("Server Key"));
  return T_HMAC(h, server_key, auth_message);
}
static inline BA rfc5802_client_final(int h, unsigned hlen, BA pw, BA salt, int i, BA cfmb, BA server_first, BA nonce) {
  BA am = rfc5802_auth_message(cfmb, server_first, nonce);
  return ba_cat3(rfc5802_client_final_without_proof(nonce), BA_LIT(",p="), T_B64(rfc5802_client_proof(h, rfc5802_salted_password(h, hlen, pw, salt, i), am)));
}
static inline BA rfc5802_expected_server_signature(int h, unsigned hlen, BA pw, BA salt, int i, BA cfmb, BA server_first, BA nonce) {
  return rfc5802_server_signature(h, rfc5802_salted_password(h, hlen, pw, salt, i), rfc5802_auth_message(cfmb, server_first, nonce));
}

/* ---- attributes of a server message ("r=..,s=..,i=.." / "v=..").  parseGS2 (QXmppSasl.cpp) is used through its contract:
   its result is the attribute map of the bytes it was given; QMap::value(key) then yields attribute `key` of that message,
   empty when absent.  The attribute extraction itself (split at ',', "k=" prefix) is character-level and not verified here. */
typedef struct GS2Map { bool nonempty; int src; } GS2Map;
bool __CPROVER_uninterpreted_gs2_has(int msg, char key);
bool __CPROVER_uninterpreted_gs2_attr_empty(int msg, char key);
int __CPROVER_uninterpreted_gs2_attr(int msg, char key);
/* attribute `key` of the message: present or not, and its possibly empty value ("v=" is present and empty) */
static inline bool gs2_has(BA msg, char key) { return msg.n != 0 && __CPROVER_uninterpreted_gs2_has(ba_id(msg), key); }
static inline BA gs2_attr(BA msg, char key) { int i = ba_id(msg); return (msg.n != 0 && __CPROVER_uninterpreted_gs2_has(i, key) && !__CPROVER_uninterpreted_gs2_attr_empty(i, key)) ? ba_atom(__CPROVER_uninterpreted_gs2_attr(i, key)) : ba_empty(); }
/* QMap<char,QByteArray>: value(key), value(key, default), contains, count, const operator[], find / constFind + iterators all read
   these same facts */
typedef struct GS2It { bool at_end; char k; BA v; } GS2It;
static inline void GS2Map_find(GS2It *r, const GS2Map *m, char key) {
  r->k = key; r->v = ba_empty();
  r->at_end = !(m->nonempty && __CPROVER_uninterpreted_gs2_has(m->src, key));
  if (!r->at_end && !__CPROVER_uninterpreted_gs2_attr_empty(m->src, key)) r->v = ba_atom(__CPROVER_uninterpreted_gs2_attr(m->src, key));
}
static inline void GS2Map_end(GS2It *r, const GS2Map *m) { r->at_end = true; r->k = 0; r->v = ba_empty(); }
static inline bool GS2It_eq(const GS2It *a, const GS2It *b) { return a->at_end ? b->at_end : (!b->at_end && a->k == b->k); }
static inline bool GS2It_ne(const GS2It *a, const GS2It *b) { return !GS2It_eq(a, b); }
static inline const BA *GS2It_value(const GS2It *it) { __CPROVER_assert(!it->at_end, "[safety.map_iterator_dereferenced_only_when_it_is_not_end]"); return &it->v; }
static inline char GS2It_key(const GS2It *it) { __CPROVER_assert(!it->at_end, "[safety.map_iterator_dereferenced_only_when_it_is_not_end]"); return it->k; }
static inline bool GS2Map_contains(const GS2Map *m, char key) { GS2It it; GS2Map_find(&it, m, key); return !it.at_end; }
static inline int GS2Map_count(const GS2Map *m, char key) { return GS2Map_contains(m, key) ? 1 : 0; }
static inline void GS2Map_value2(BA *r, const GS2Map *m, char key, const BA *dflt) { GS2It it; GS2Map_find(&it, m, key); *r = it.at_end ? *dflt : it.v; }
static inline void GS2Map_value(BA *r, const GS2Map *m, char key) { BA e = ba_empty(); GS2Map_value2(r, m, key, &e); }
void parseGS2(GS2Map *_ret, const BA *ba)
__CPROVER_requires(__CPROVER_is_fresh(_ret, sizeof(*_ret)))
__CPROVER_requires(__CPROVER_is_fresh(ba, sizeof(*ba)))
__CPROVER_assigns(*_ret)
__CPROVER_ensures(_ret->src == ba_id(*ba) && _ret->nonempty == (ba->n != 0))
;
/* the fields of a server-first message as the specification names them */
#define SF_NONCE(sf)      gs2_attr((sf), 'r')
#define SF_SALT(sf)       T_B64DEC(gs2_attr((sf), 's'))
#define SF_ITERATIONS(sf) T_TOINT(gs2_attr((sf), 'i'))            /* 0 when the attribute is missing or not a number */
#define SF_ITERATIONS_IS_NUMBER(sf) T_TOINT_OK(gs2_attr((sf), 'i'))
#define SFINAL_VERIFIER(m) T_B64DEC(gs2_attr((m), 'v'))

/* ghost: the (escaped) user name that was sent in the client-first message of this exchange */
BA gh_sent_saslname;
