// native replay for C06/QXmppSaslClientScram::respond step 0: RFC 5802 section 5.1 requires ',' and '=' in the user name to be
// sent as "=2C" and "=3D".  argv[1..] = user names.  Exit 1 if a client-first message differs from the RFC's.
#include <QByteArray>
#include <QString>
#include <cstdio>
#include "QXmppSasl_p.h"
static QByteArray rfc5802_saslname(const QByteArray &u)
{
    QByteArray r;
    for (char c : u) {
        if (c == '=') r += "=3D";
        else if (c == ',') r += "=2C";
        else r += c;
    }
    return r;
}
int main(int argc, char **argv)
{
    int bad = 0;
    QXmppSaslDigestMd5::setNonce("fyko+d2lbbFgONRv9qkxdawL");
    for (int a = 1; a < argc; a++) {
        QString user = QString::fromUtf8(argv[a]);
        auto client = QXmppSaslClient::create(QStringLiteral("SCRAM-SHA-1"));
        client->setUsername(user);
        QXmpp::Private::Credentials cred;
        cred.password = QStringLiteral("pencil");
        client->setCredentials(cred);
        auto got = client->respond(QByteArray());
        QByteArray want = "n,,n=" + rfc5802_saslname(user.toUtf8()) + ",r=fyko+d2lbbFgONRv9qkxdawL";
        bool ok = got && *got == want;
        printf("user=%s\n  sent   %s\n  RFC    %s\n  %s\n", argv[a], got ? got->constData() : "(nullopt)", want.constData(), ok ? "ok" : "MISMATCH (a conforming server splits the message at the unescaped ',' / rejects the bare '=')");
        if (!ok) bad++;
    }
    return bad ? 1 : 0;
}
