/* C06 -- PLAIN (RFC 4616), HT-*-NONE (XEP-0484), DIGEST-MD5 response value (RFC 2831 2.1.2.1), written from the specifications.
 *
 * RFC 4616 section 2:   message = [authzid] NUL authcid NUL passwd        (UTF-8; no authzid is sent: the identity is derived)
 * XEP-0484 section 3.2: initial response = authcid NUL HMAC(token, "Initiator" || cb-data); cb-data is empty for *-NONE; the
 *                       hash function is the one named in the mechanism (HT-SHA-256-NONE -> SHA-256, IANA hash names)
 * RFC 2831 2.1.2.1:     response-value = HEX( KD( HEX(H(A1)), { nonce ":" nc ":" cnonce ":" qop ":" HEX(H(A2)) } ) ),  KD(k, s) = H({k ":" s})
 *                       A1 = { H({ username ":" realm ":" passwd }) ":" nonce ":" cnonce }     (no authzid)
 *                       A2 = { "AUTHENTICATE:" digest-uri }  for the response, { ":" digest-uri } for the server's rspauth (2.1.3); qop = "auth"; H = MD5 */
static inline BA rfc4616_message(BA authzid, BA authcid, BA passwd) { return ba_cat5(authzid, ba_byte(0), authcid, ba_byte(0), passwd); }

#define IANA_VALID(a) ((a) >= QXmpp_Private_IanaHashAlgorithm__Sha256 && (a) <= QXmpp_Private_IanaHashAlgorithm__Sha3_512)
#define IANA_H(a) ((a) == QXmpp_Private_IanaHashAlgorithm__Sha256 ? QCryptographicHash_Algorithm__Sha256 : (a) == QXmpp_Private_IanaHashAlgorithm__Sha384 ? QCryptographicHash_Algorithm__Sha384 : \
                   (a) == QXmpp_Private_IanaHashAlgorithm__Sha512 ? QCryptographicHash_Algorithm__Sha512 : (a) == QXmpp_Private_IanaHashAlgorithm__Sha3_224 ? QCryptographicHash_Algorithm__RealSha3_224 : \
                   (a) == QXmpp_Private_IanaHashAlgorithm__Sha3_256 ? QCryptographicHash_Algorithm__RealSha3_256 : (a) == QXmpp_Private_IanaHashAlgorithm__Sha3_384 ? QCryptographicHash_Algorithm__RealSha3_384 : QCryptographicHash_Algorithm__RealSha3_512)
static inline BA xep0484_initial_response(int h, BA authcid, BA token) { return ba_cat3(authcid, ba_byte(0), T_HMAC(h, token, BA_LIT("Initiator"))); }

static inline BA rfc2831_response_value(BA a2_prefix, BA digest_uri, BA user_realm_pass_hash, BA nonce, BA cnonce, BA nc) {
  int md5 = QCryptographicHash_Algorithm__Md5;
  BA a1 = ba_cat5(user_realm_pass_hash, BA_LIT(":"), nonce, BA_LIT(":"), cnonce);
  BA a2 = ba_cat3(a2_prefix, BA_LIT(":"), digest_uri);
  BA s = ba_cat(ba_cat6(nonce, BA_LIT(":"), nc, BA_LIT(":"), cnonce, BA_LIT(":")), ba_cat3(BA_LIT("auth"), BA_LIT(":"), T_HEX(T_H(md5, a2))));
  return T_HEX(T_H(md5, ba_cat3(T_HEX(T_H(md5, a1)), BA_LIT(":"), s)));
}
/* ---- constructors: the client nonce.  forcedNonce is the file-static test hook (QXmppSaslDigestMd5::setNonce); QXmppUtils::generateRandomBytes
   is used through its contract: n > 0 random bytes are a non-empty value */
BA forcedNonce;
typedef struct QObject QObject;
void QXmppUtils_generateRandomBytes(BA *_ret, unsigned length)
__CPROVER_requires(__CPROVER_is_fresh(_ret, sizeof(*_ret)))
__CPROVER_assigns(*_ret)
__CPROVER_ensures(ba_wf(*_ret) && _ret->n == (length > 0 ? 1 : 0))
;
