/* C06 managers: event log, oracles for the nonza parsers, and the ABSTRACT MECHANISM behind m_saslClient->respond().
 *
 * gh_mech_has_server_proof : the selected mechanism authenticates the server (SCRAM-*: ServerSignature; DIGEST-MD5: rspauth).
 * gh_server_verified       : the mechanism has accepted the server's proof.  It can become true only inside respond(), and only in
 *                            a call that returns a value -- for SCRAM this is step 2 of QXmppSaslClientScram::respond, whose contract
 *                            (scram.spec, post.step2_accepts_iff_the_server_presents_that_signature) says a value is returned there iff
 *                            the presented signature equals HMAC(ServerKey, AuthMessage).
 * Both are arbitrary at entry: the postconditions hold for every mechanism and every point of the exchange. */
bool gh_server_verified, gh_mech_has_server_proof;
int gh_respond_calls; bool gh_respond_has; qba gh_respond_arg, gh_respond_out; mech_id gh_respond_mech;
void SaslClient_respond(OptQba *_ret, mech_id m, qba challenge)
__CPROVER_requires(__CPROVER_is_fresh(_ret, sizeof(*_ret)))
__CPROVER_requires(gh_respond_calls >= 0 && gh_respond_calls < 1000)
__CPROVER_assigns(*_ret, gh_server_verified, gh_respond_calls, gh_respond_has, gh_respond_arg, gh_respond_out, gh_respond_mech)
__CPROVER_ensures(gh_respond_calls == __CPROVER_old(gh_respond_calls) + 1)
__CPROVER_ensures(gh_respond_has == _ret->has && gh_respond_out == _ret->v && gh_respond_arg == challenge && gh_respond_mech == m)
__CPROVER_ensures(__CPROVER_old(gh_server_verified) ==> gh_server_verified)
__CPROVER_ensures((gh_server_verified && !__CPROVER_old(gh_server_verified)) ==> _ret->has)
;
/* completion of the authentication task (QXmppPromise::finish) and socket writes: event log */
enum { RES_SUCCESS = 1, RES_ERROR = 2 };
int gh_finish_count; promise_id gh_finish_promise; auth_result gh_finish_kind;
static inline void ev_finish(promise_id p, auth_result r) { if (gh_finish_count < 1000) gh_finish_count++; gh_finish_promise = p; gh_finish_kind = r; }
int gh_sent_count; qba gh_sent_bytes; socket_id gh_sent_socket;
static inline bool ev_sendData(socket_id s, qba bytes) { if (gh_sent_count < 1000) gh_sent_count++; gh_sent_bytes = bytes; gh_sent_socket = s; return nondet_bool(); }
/* serializeXml(T) (QXmppUtils_p.h, calls T::toXml): the bytes are a function of the nonza's payload */
qba __CPROVER_uninterpreted_xml_response(qba payload);
qba __CPROVER_uninterpreted_xml_response2(qba payload);
static inline qba serializeXml_Response(const SaslResponse *r) { return __CPROVER_uninterpreted_xml_response(r->value); }
static inline qba serializeXml_Response2(const Sasl2Response *r) { return __CPROVER_uninterpreted_xml_response2(r->data); }
#define XML_ABORT (-7)
static inline qba serializeXml_Abort(const Sasl2Abort *a) { return XML_ABORT; }
qstr __CPROVER_uninterpreted_sasl_condition_text(int c);
static inline qstr Sasl_errorConditionToString(int c) { return __CPROVER_uninterpreted_sasl_condition_text(c); }
/* the nonza parsers (QXmppSasl.cpp) used through contracts: whether an element is accepted, and the challenge payload, are
   (uninterpreted) functions of the element; everything else they return is unconstrained */
bool __CPROVER_uninterpreted_sasl1_success(qdom el);   bool __CPROVER_uninterpreted_sasl1_challenge(qdom el);   bool __CPROVER_uninterpreted_sasl1_failure(qdom el);
bool __CPROVER_uninterpreted_sasl2_success(qdom el);   bool __CPROVER_uninterpreted_sasl2_challenge(qdom el);   bool __CPROVER_uninterpreted_sasl2_failure(qdom el);
bool __CPROVER_uninterpreted_sasl2_continue(qdom el);
qba __CPROVER_uninterpreted_sasl1_challenge_value(qdom el);   qba __CPROVER_uninterpreted_sasl2_challenge_value(qdom el);
#define PARSER(name, T, pred, extra) void name(T *_ret, qdom el) __CPROVER_requires(__CPROVER_is_fresh(_ret, sizeof(*_ret))) __CPROVER_assigns(*_ret) __CPROVER_ensures(_ret->has == pred(el) extra);
PARSER(Sasl_Success_fromDom, OptSuccess1, __CPROVER_uninterpreted_sasl1_success, )
PARSER(Sasl_Challenge_fromDom, OptChallenge, __CPROVER_uninterpreted_sasl1_challenge, && _ret->v.value == __CPROVER_uninterpreted_sasl1_challenge_value(el))
PARSER(Sasl_Failure_fromDom, OptFailure, __CPROVER_uninterpreted_sasl1_failure, )
PARSER(Sasl2_Success_fromDom, OptSuccess2, __CPROVER_uninterpreted_sasl2_success, )
PARSER(Sasl2_Challenge_fromDom, OptChallenge2, __CPROVER_uninterpreted_sasl2_challenge, && _ret->v.data == __CPROVER_uninterpreted_sasl2_challenge_value(el))
PARSER(Sasl2_Failure_fromDom, OptFailure2, __CPROVER_uninterpreted_sasl2_failure, )
PARSER(Sasl2_Continue_fromDom, OptContinue, __CPROVER_uninterpreted_sasl2_continue, )
/* the element on which each manager reports success */
#define SASL1_SUCCESS_PATH(el) (__CPROVER_uninterpreted_sasl1_success(el))
#define SASL2_SUCCESS_PATH(el) (!__CPROVER_uninterpreted_sasl2_challenge(el) && __CPROVER_uninterpreted_sasl2_success(el))
