"""C06 -- SASL exchanges follow their RFCs; a server that cannot prove itself is refused."""
import os, re
from vlib.unit import Builder, Target, VERIF, scan_assumes
from vlib.runner import Proof
from vlib import ctx
from vlib.configure import REPO
import c06lower as P
import c06mgr as M
from vlib.cxx2c import Unsupported

SASL = 'src/base/QXmppSasl.cpp'
MGR = 'src/client/QXmppSaslManager.cpp'
QT = os.path.join(VERIF, 'qtmodel')
HERE = os.path.dirname(os.path.abspath(__file__))
TERM_L = 20
UNWIND = TERM_L + 2
DIGEST_TERM_L = 24
SCRAM_UNWIND = 70     # model loops run over TERM_L slots; a byte-wise loop over a digest (a refactored comparison) runs up to 64 times
OBJECT_BITS = 10   # dfcc's per-object bookkeeping grows with 2^object_bits; these functions address < 1024 objects (else: exit 2)


def rd(name):
    return open(os.path.join(HERE, name)).read()


def labelled(p, cname, sp):
    p.labels = {'post': {cname: sp.labels}}
    p.expect_post = len(sp.labels)
    return p


def record(cls, prof, base=None):
    text, _ = ctx.emit_record(os.path.join(REPO, SASL), cls, cls, cls, prof, opaque_ok=True)
    if base:
        text = text.replace('{\n', '{\n  %s base;   /* base-class sub-object */\n' % base, 1)
    return text


def mrecord(prof, filt, cls, cname):
    """C struct of a manager-side class from its field list in the AST (types through the manager profile)"""
    fields, _ = ctx.record_fields(os.path.join(REPO, MGR), filt, cls)
    lw = M.MgrLowerer({'inner': []}, cname, prof)
    lines = []
    for name, t in fields:
        ct = None
        for cand in (t.get('desugaredQualType'), t.get('qualType')):
            if cand and ct is None:
                try:
                    ct = lw.ctype(cand)
                except Unsupported:
                    pass
        lines.append('  %s %s;' % (ct, name) if ct else '  /* member %s : %s not modelled */' % (name, t.get('qualType')))
    return 'typedef struct %s {\n%s\n} %s;' % (cname, '\n'.join(lines), cname)


def opt(ctype, name=None):
    return 'typedef struct %s { bool has; %s v; } %s;' % (name or 'Opt' + ctype, ctype, name or 'Opt' + ctype)


def tgt(filt, name, cname, this=None, **kw):
    return Target(SASL, filt, name, cname, this=this, lowerer_cls=P.SaslLowerer, **kw)


def build(work, tier):
    prof = P.profile()
    b = Builder('C06', work, prof)
    proofs = []
    src = os.path.join(REPO, SASL)
    # ---------------------------------------------------------------- lowering of the real functions
    sp_scram = b.spec('scram.spec')
    t_scram = b.lower(tgt('QXmppSaslClientScram::respond', 'respond', 'QXmppSaslClientScram_respond', this='QXmppSaslClientScram'), sp_scram)
    sp_alg = b.spec('qtalg.spec')
    t_alg = b.lower(tgt('SaslScramMechanism::qtAlgorithm', 'qtAlgorithm', 'SaslScramMechanism_qtAlgorithm', this='SaslScramMechanism'), sp_alg)
    t_user = b.lower(tgt('QXmppSaslClient::username', 'username', 'QXmppSaslClient_username', this='QXmppSaslClient'))
    b.need_enums.setdefault((src, ()), {}).setdefault('QXmpp::Private::SaslScramMechanism::Algorithm', set()).update({'Sha1', 'Sha256', 'Sha512', 'Sha3_512'})
    b.need_enums.setdefault((src, ()), {}).setdefault('QCryptographicHash::Algorithm', set()).update({'Sha1', 'Sha256', 'Sha512', 'RealSha3_512', 'Md5'})
    context = b.context()
    records = '\n'.join([record('SaslScramMechanism', prof), record('QXmppSaslClient', prof), record('QXmppSaslClientScram', prof, base='QXmppSaslClient')])
    head = '#define TERM_L %d\n#include "terms.h"\n' % TERM_L + context + '\n' + records + '\n'
    alltext = head
    # ---------------------------------------------------------------- SCRAM respond (RFC 5802)
    c = head + rd('scram_spec.h') + b.prototype(t_alg) + t_user + '\n' + t_scram + '''
void h_scram(void) { BA u; gh_sent_saslname = u; QXmppSaslClientScram *self; OptBA *ret; const BA *challenge; QXmppSaslClientScram_respond(self, ret, challenge); }
'''
    f = b.write('scram.c', c)
    alltext += c
    cases = [('scram_respond.step0', ['ONLY_STEP=0', 'FINDING_EXCLUDED'], None),
             ('scram_respond.step0.username_needing_escape', ['ONLY_STEP=0', 'FINDING_ONLY'], 'C06-scram-saslname'),
             ('scram_respond.step1', ['ONLY_STEP=1'], None), ('scram_respond.step2', ['ONLY_STEP=2'], None), ('scram_respond.other_steps', ['OTHER_STEPS'], None)]
    # the function itself is loop-free; a refactoring may bring in a helper with a byte-wise loop (bounded by a digest length): then the
    # loops are unwound SCRAM_UNWIND times (unwinding assertions on) and minisat is used (cadical 3.0 exhausts memory on that XOR-heavy formula)
    scram_loops = re.search(r'^\s*(for|while) \(', t_scram, re.M) is not None
    for pid, defs, finding in cases:
        p = Proof(pid, f, 'h_scram', enforce='QXmppSaslClientScram_respond', replace=['SaslScramMechanism_qtAlgorithm', 'parseGS2'], kind='complete',
                  loop_contracts=False, unwind=SCRAM_UNWIND if scram_loops else UNWIND, include_dirs=[QT], defines=defs, timeout=2400 if scram_loops else 1500, object_bits=OBJECT_BITS,
                  **({'solver': ()} if scram_loops else {}),
                  note='loop-free function; user name, password, client nonce, server message: arbitrary (opaque) strings; iteration count: every int; '
                       'all four hash functions; the proof is split by the value of the step counter (0, 1, 2, any other int); model-internal loops over the %d atom slots fully unwound' % TERM_L)
        if finding:
            p.finding = finding
        proofs.append(labelled(p, 'QXmppSaslClientScram_respond', sp_scram))
    # ---------------------------------------------------------------- qtAlgorithm
    c = head + rd('scram_spec.h') + t_alg + '\nvoid h_qtalg(void) { const SaslScramMechanism *self; SaslScramMechanism_qtAlgorithm(self); }\n'
    f = b.write('qtalg.c', c)
    p = Proof('scram_qtAlgorithm', f, 'h_qtalg', enforce='SaslScramMechanism_qtAlgorithm', kind='complete', loop_contracts=False, unwind=UNWIND, include_dirs=[QT], timeout=300, object_bits=OBJECT_BITS)
    proofs.append(labelled(p, 'SaslScramMechanism_qtAlgorithm', sp_alg))
    # ---------------------------------------------------------------- PLAIN (RFC 4616), HT (XEP-0484), DIGEST-MD5 response value (RFC 2831)
    ht_fields = [f for f, _ in ctx.record_fields(src, 'SaslHtMechanism', 'SaslHtMechanism')[0]]
    prof.calls['op==:SaslHtMechanism:SaslHtMechanism'] = P.defaulted_eq(ht_fields)
    sp_plain = b.spec('plain.spec')
    t_plain = b.lower(tgt('QXmppSaslClientPlain::respond', 'respond', 'QXmppSaslClientPlain_respond', this='QXmppSaslClientPlain'), sp_plain)
    sp_ht = b.spec('ht.spec')
    t_ht = b.lower(tgt('QXmppSaslClientHt::respond', 'respond', 'QXmppSaslClientHt_respond', this='QXmppSaslClientHt'), sp_ht)
    sp_iana = b.spec('iana.spec')
    t_iana = b.lower(tgt('ianaHashAlgorithmToQt', 'ianaHashAlgorithmToQt', 'ianaHashAlgorithmToQt'), sp_iana)
    sp_dig = b.spec('digest.spec')
    t_dig = b.lower(tgt('calculateDigest', 'calculateDigest', 'calculateDigest'), sp_dig)
    b.need_enums.setdefault((src, ()), {}).setdefault('QXmpp::Private::IanaHashAlgorithm', set()).update({'Sha256', 'Sha3_512'})
    b.need_enums.setdefault((src, ()), {}).setdefault('QXmpp::Private::SaslHtMechanism::ChannelBindingType', set()).update({'None'})
    b.need_enums.setdefault((src, ()), {}).setdefault('QCryptographicHash::Algorithm', set()).update({'Sha384', 'RealSha3_224', 'RealSha3_256', 'RealSha3_384'})
    context2 = b.context()
    records2 = '\n'.join([record('SaslHtMechanism', prof), record('HtToken', prof), 'typedef struct OptHtToken { bool has; HtToken v; } OptHtToken;   /* std::optional<HtToken> */',
                          record('QXmppSaslClient', prof), record('QXmppSaslClientPlain', prof, base='QXmppSaslClient'), record('QXmppSaslClientHt', prof, base='QXmppSaslClient')])
    head2 = '#define TERM_L %d\n#include "terms.h"\n' % TERM_L + context2 + '\n' + records2 + '\n' + rd('mech_spec.h')
    alltext += head2

    def simple(pid, cname, text, sp, harness, replace=(), extra='', note=''):
        c = head2 + extra + text + '\n' + harness
        f = b.write(pid + '.c', c)
        p = Proof(pid, f, 'h_' + pid, enforce=cname, replace=list(replace), kind='complete', loop_contracts=False, unwind=UNWIND, include_dirs=[QT], timeout=900,
                  object_bits=OBJECT_BITS, note=note)
        proofs.append(labelled(p, cname, sp))
    simple('plain_respond', 'QXmppSaslClientPlain_respond', t_plain, sp_plain, 'void h_plain_respond(void) { QXmppSaslClientPlain *self; OptBA *ret; const BA *ch; QXmppSaslClientPlain_respond(self, ret, ch); }\n',
           extra=t_user + '\n', note='loop-free; user name and password arbitrary (opaque) strings, every value of the step counter')
    simple('ht_respond', 'QXmppSaslClientHt_respond', t_ht, sp_ht, 'void h_ht_respond(void) { QXmppSaslClientHt *self; OptBA *ret; const BA *ch; QXmppSaslClientHt_respond(self, ret, ch); }\n',
           replace=['ianaHashAlgorithmToQt'], extra=t_user + '\n' + b.prototype(t_iana),
           note='loop-free; user name, token secret, challenge arbitrary; every token/mechanism combination; all seven IANA hash names')
    simple('ianaHashAlgorithmToQt', 'ianaHashAlgorithmToQt', t_iana, sp_iana, 'void h_ianaHashAlgorithmToQt(void) { int alg; ianaHashAlgorithmToQt(alg); }\n')
    simple('calculateDigest', 'calculateDigest', t_dig, sp_dig,
           'void h_calculateDigest(void) { BA *r; const BA *m, *u, *s, *n, *c, *nc; calculateDigest(r, m, u, s, n, c, nc); }\n',
           note='loop-free; all six arguments arbitrary (opaque) byte strings')
    # ---------------------------------------------------------------- constructors: the invariants respond() relies on
    sp_nonce = b.spec('nonce.spec')
    t_nonce = b.lower(tgt('generateNonce', 'generateNonce', 'generateNonce'), sp_nonce)
    t_basector = b.lower(tgt('QXmppSaslClient::QXmppSaslClient', 'QXmppSaslClient', 'QXmppSaslClient_ctor', this='QXmppSaslClient'))
    sp_sc = b.spec('scram_ctor.spec')
    t_sc = b.lower(tgt('QXmppSaslClientScram::QXmppSaslClientScram', 'QXmppSaslClientScram', 'QXmppSaslClientScram_ctor', this='QXmppSaslClientScram'), sp_sc)
    sp_dc = b.spec('digest_ctor.spec')
    t_dc = b.lower(tgt('QXmppSaslClientDigestMd5::QXmppSaslClientDigestMd5', 'QXmppSaslClientDigestMd5', 'QXmppSaslClientDigestMd5_ctor', this='QXmppSaslClientDigestMd5'), sp_dc)
    sp_pc = b.spec('plain_ctor.spec')
    t_pc = b.lower(tgt('QXmppSaslClientPlain::QXmppSaslClientPlain', 'QXmppSaslClientPlain', 'QXmppSaslClientPlain_ctor', this='QXmppSaslClientPlain'), sp_pc)
    simple('generateNonce', 'generateNonce', t_nonce, sp_nonce, 'void h_generateNonce(void) { BA f; forcedNonce = f; BA *r; generateNonce(r); }\n', replace=['QXmppUtils_generateRandomBytes'],
           note='loop-free; the forced (test) nonce arbitrary')
    ctor_head = records.replace(record('QXmppSaslClient', prof), '').replace(record('SaslScramMechanism', prof), '') + '\n' + rd('scram_spec.h') + b.prototype(t_alg) + b.prototype(t_nonce) + t_basector + '\n'
    simple('scram_ctor', 'QXmppSaslClientScram_ctor', t_sc, sp_sc,
           'void h_scram_ctor(void) { BA f; forcedNonce = f; QXmppSaslClientScram *self; SaslScramMechanism *m; QObject *parent; QXmppSaslClientScram_ctor(self, m, parent); }\n',
           replace=['SaslScramMechanism_qtAlgorithm', 'generateNonce'], extra=record('SaslScramMechanism', prof) + '\n' + ctor_head,
           note='loop-free; all four mechanisms; establishes the invariants scram.spec requires (non-empty nonce, dklen = hash length, step 0)')
    simple('digest_ctor', 'QXmppSaslClientDigestMd5_ctor', t_dc, sp_dc,
           'void h_digest_ctor(void) { BA f; forcedNonce = f; QXmppSaslClientDigestMd5 *self; QObject *parent; QXmppSaslClientDigestMd5_ctor(self, parent); }\n',
           replace=['generateNonce'], extra=record('QXmppSaslClientDigestMd5', prof, base='QXmppSaslClient') + '\n' + b.prototype(t_nonce) + t_basector + '\n',
           note='loop-free; establishes the invariants digest_respond.spec requires (non-empty client nonce, nonce count 00000001, step 0)')
    simple('plain_ctor', 'QXmppSaslClientPlain_ctor', t_pc, sp_pc, 'void h_plain_ctor(void) { QXmppSaslClientPlain *self; QObject *parent; QXmppSaslClientPlain_ctor(self, parent); }\n',
           extra=t_basector + '\n')
    # ---------------------------------------------------------------- DIGEST-MD5 respond (RFC 2831), split by step
    sp_dr = b.spec('digest_respond.spec')
    t_dr = b.lower(tgt('QXmppSaslClientDigestMd5::respond', 'respond', 'QXmppSaslClientDigestMd5_respond', this='QXmppSaslClientDigestMd5'), sp_dr)
    t_svc = b.lower(tgt('QXmppSaslClient::serviceType', 'serviceType', 'QXmppSaslClient_serviceType', this='QXmppSaslClient'))
    t_host = b.lower(tgt('QXmppSaslClient::host', 'host', 'QXmppSaslClient_host', this='QXmppSaslClient'))
    head3 = head2.replace('#define TERM_L %d\n' % TERM_L, '#define TERM_L %d\n' % DIGEST_TERM_L, 1)   # the nonce count "00000001" alone is 8 atoms
    c = head3 + record('QXmppSaslClientDigestMd5', prof, base='QXmppSaslClient') + '\n' + rd('digest_model.h') + t_user + '\n' + t_svc + '\n' + t_host + '\n' + t_dig + '\n' + t_dr + \
        '\nvoid h_digest_respond(void) { QXmppSaslClientDigestMd5 *self; OptBA *ret; const BA *ch; QXmppSaslClientDigestMd5_respond(self, ret, ch); }\n'
    f = b.write('digest_respond.c', c)
    alltext += rd('digest_model.h')
    for pid, defs in (('digest_respond.step0', ['ONLY_STEP=0']), ('digest_respond.step1', ['ONLY_STEP=1']), ('digest_respond.step2', ['ONLY_STEP=2']), ('digest_respond.other_steps', ['OTHER_STEPS'])):
        p = Proof(pid, f, 'h_digest_respond', enforce='QXmppSaslClientDigestMd5_respond', replace=['QXmppSaslDigestMd5_parseMessage', 'QXmppSaslDigestMd5_serializeMessage'],
                  kind='complete', loop_contracts=False, unwind=DIGEST_TERM_L + 2, include_dirs=[QT], defines=defs, timeout=1500, object_bits=OBJECT_BITS,
                  note='loop-free; user, password, host, service type, client nonce, challenge arbitrary (opaque); calculateDigest inlined (the real body); split by the value of the step counter')
        proofs.append(labelled(p, 'QXmppSaslClientDigestMd5_respond', sp_dr))
    # ---------------------------------------------------------------- the managers: success only after the server proved itself
    mprof = M.profile()
    mb = Builder('C06', work, mprof)
    sp_m1 = mb.spec('mgr1.spec')
    t_m1 = mb.lower(Target(MGR, 'SaslManager::handleElement', 'handleElement', 'SaslManager_handleElement', this='SaslManager', lowerer_cls=M.MgrLowerer), sp_m1)
    sp_m2 = mb.spec('mgr2.spec')
    t_m2 = mb.lower(Target(MGR, 'Sasl2Manager::handleElement', 'handleElement', 'Sasl2Manager_handleElement', this='Sasl2Manager', lowerer_cls=M.MgrLowerer), sp_m2)
    msrc = os.path.join(REPO, MGR)
    mb.need_enums.setdefault((msrc, ()), {}).setdefault('QXmpp::Private::HandleElementResult', set()).update({'Accepted', 'Rejected', 'Finished'})
    mcontext = mb.context()
    mtypes = '\n'.join([
        'typedef int qba; typedef int promise_id; typedef int mech_id; typedef int socket_id; typedef int auth_result; typedef int auth_error; typedef int any_t;',
        opt('promise_id', 'OptPromise'), opt('qba', 'OptQba'), opt('int', 'OptCondition'), 'typedef struct OptSuccess1 { bool has; } OptSuccess1;   /* Sasl::Success has no members */',
        mrecord(mprof, 'Sasl::Challenge', 'Challenge', 'SaslChallenge'), opt('SaslChallenge', 'OptChallenge'),
        mrecord(mprof, 'Sasl::Failure', 'Failure', 'SaslFailure'), opt('SaslFailure', 'OptFailure'),
        mrecord(mprof, 'Sasl::Response', 'Response', 'SaslResponse'),
        mrecord(mprof, 'Sasl2::Challenge', 'Challenge', 'Sasl2Challenge'), opt('Sasl2Challenge', 'OptChallenge2'),
        mrecord(mprof, 'Sasl2::Failure', 'Failure', 'Sasl2Failure'), opt('Sasl2Failure', 'OptFailure2'),
        mrecord(mprof, 'Sasl2::Success', 'Success', 'Sasl2Success'), opt('Sasl2Success', 'OptSuccess2'),
        mrecord(mprof, 'Sasl2::Continue', 'Continue', 'Sasl2Continue'), opt('Sasl2Continue', 'OptContinue'),
        mrecord(mprof, 'Sasl2::Response', 'Response', 'Sasl2Response'), mrecord(mprof, 'Sasl2::Abort', 'Abort', 'Sasl2Abort'),
        mrecord(mprof, 'Sasl2Manager::State', 'State', 'Sasl2State'), opt('Sasl2State', 'OptState'),
        mrecord(mprof, 'SaslManager', 'SaslManager', 'SaslManager'), mrecord(mprof, 'Sasl2Manager', 'Sasl2Manager', 'Sasl2Manager')])
    mhead = '#include "opaque.h"\n' + mprof.literal_ids.table() + mcontext + '\n' + mtypes + '\n' + mb.subst(rd('mgr_model.h'))
    alltext += mhead
    parsers = {'SaslManager_handleElement': ['Sasl_Success_fromDom', 'Sasl_Challenge_fromDom', 'Sasl_Failure_fromDom'],
               'Sasl2Manager_handleElement': ['Sasl2_Success_fromDom', 'Sasl2_Challenge_fromDom', 'Sasl2_Failure_fromDom', 'Sasl2_Continue_fromDom']}
    for cname, text, sp, short in (('SaslManager_handleElement', t_m1, sp_m1, 'sasl_manager'), ('Sasl2Manager_handleElement', t_m2, sp_m2, 'sasl2_manager')):
        c = mhead + text + '\nvoid h_%s(void) { gh_server_verified = nondet_bool(); gh_mech_has_server_proof = nondet_bool(); %s *self; qdom el; %s(self, el); }\n' % (short, cname.split('_')[0], cname)
        f = mb.write(short + '.c', c)
        for pid, defs, finding in ((short + '.handleElement', ['FINDING_EXCLUDED'], None), (short + '.handleElement.success_without_server_proof', ['FINDING_ONLY'], 'C06-success-unverified')):
            p = Proof(pid, f, 'h_' + short, enforce=cname, replace=['SaslClient_respond'] + parsers[cname], kind='complete', loop_contracts=False, include_dirs=[QT], defines=defs,
                      timeout=600, object_bits=OBJECT_BITS, note='loop-free; every element, every mechanism (abstract: with or without server proof, verified or not), pending or no pending authentication')
            if finding:
                p.finding = finding
            proofs.append(labelled(p, cname, sp))
    b.functions.extend(mb.functions)
    b.dropped.extend(mb.dropped)
    for k, v in mb.fired.items():
        b.fired[k] = b.fired.get(k, 0) + v
    return {
        'proofs': proofs, 'functions': b.functions, 'dropped': b.dropped, 'fired': b.fired, 'hooks': [],
        'assumed': [
            'A-CRYPTO (qtmodel/terms.h): QCryptographicHash::hash, QMessageAuthenticationCode (hash / addData / result), QPasswordDigestor::deriveKeyPbkdf2 compute H, HMAC (RFC 2104), Hi = PBKDF2-HMAC (RFC 8018) of their arguments for the given algorithm; modelled as free (uninterpreted) constructors; QCryptographicHash::hashLength is the output length',
            'A-B64/HEX: toBase64 / fromBase64 / toHex are functions of the bytes; the encoding of the empty string is empty',
            'A-UTF8-HOM: QString::toUtf8 distributes over concatenation and maps ASCII characters to themselves; QString::arg(a, b) with a literal format substitutes %1, %2 in one pass',
            'A-SEQ: byte strings are sequences of <= %d (DIGEST-MD5 respond: %d) atoms -- concrete characters of literals, one opaque non-empty chunk per input and per constructor result; equality = equality of sequences (Dolev-Yao reading)' % (TERM_L, DIGEST_TERM_L),
            'digests of one algorithm have one length (used only for the obligation that the byte-wise XOR in SCRAM reads inside its second operand)',
            'parseGS2 (QXmppSasl.cpp) used through its contract: the attribute map is a function of the message bytes; QMap::value(k) = attribute k or empty; QByteArray::toInt a function of the bytes (0 for the empty string)',
            'QXmppSaslDigestMd5::parseMessage / serializeMessage (QXmppSasl.cpp) used through contracts: directives are functions of the message bytes; the serialisation is a function of the set of directives and their values',
            'QByteArray::startsWith: true for equal values and for an empty prefix, otherwise uninterpreted; QByteArray::split(sep).contains(x): exact for values without the separator, otherwise uninterpreted',
            'QXmppUtils::generateRandomBytes(n) used through its contract: n > 0 bytes are a non-empty value',
            'object invariants between calls of respond(): the members written by the constructor / earlier steps are not changed by anybody else (they are private; setUsername / setCredentials change only the inputs)',
            'managers: the mechanism behind m_saslClient->respond() is abstract (units/C06/mgr_model.h): server_verified can become true only inside a respond() call that returns a value; the nonza parsers Sasl::{Success,Challenge,Failure}::fromDom, Sasl2::{Challenge,Success,Failure,Continue}::fromDom are arbitrary functions of the element; serializeXml(T) a function of the payload; QXmppPromise::finish and SendDataInterface::sendData are events',
        ],
        'assumes': scan_assumes(alltext + open(os.path.join(QT, 'terms.h')).read() + open(os.path.join(QT, 'opaque.h')).read()),
        'not_covered': ['SASLprep normalisation (outside the statement: "in the normalised form")', 'the hash primitives themselves (Qt)',
                        'character-level grammars: parseGS2 attribute extraction, DIGEST-MD5 parseMessage / serializeMessage quoting, base64 / decimal parsing',
                        'that a conforming server accepts/rejects (the statement\'s "so any conforming server ... accepts them"): follows from equality with the RFC term under A-CRYPTO, not proved as a two-party property',
                        'HT: the server\'s proof (additional-data = HMAC(token, "Responder")) is not verified by the code (TODO in QXmppSaslClientHt::respond) -- not part of the statement, observed only',
                        'SCRAM: a mandatory extension attribute m= in the server-first message is not rejected (RFC 5802 5.1); channel binding variants (gs2 header is always "n,,")',
                        'DIGEST-MD5: charset=utf-8 is sent whether or not the server offered it',
                        'who calls handleElement and in which order (the exchange as a history): the manager postconditions hold for every state of the abstract mechanism, the link "verified only in SCRAM step 2" is by the definitions in mgr_model.h and scram.spec',
                        'QXmppSaslClientHt constructor, QXmppSaslClientAnonymous / Facebook / Google / WindowsLive mechanisms (not in the statement)'],
        'explanation': 'Term-algebra idiom (DESIGN 5.6): every mechanism response is proved EQUAL to the term its RFC prescribes, for all inputs as opaque atoms; the two managers are proved against "success is reported only if the mechanism verified the server or has no server proof" -- which fails on the unchanged tree exactly for <success/> while a server-proof mechanism has not verified (KNOWN-FINDING C06-success-unverified, reproduced natively); SCRAM step 0 fails for user names needing saslname escaping (KNOWN-FINDING C06-scram-saslname).',
    }


def find_input(unit, proof, ob, label, work):
    """the term model has no concrete bytes; for the two recorded input classes the native drivers carry concrete witnesses"""
    from vlib import native
    if proof.id.endswith('success_without_server_proof') or 'success_reported_only_if' in label:
        sc = 'sasl2-wrong' if 'sasl2' in proof.id else 'wrong-v'
        rc, out = native.run_driver(os.path.join(HERE, 'replay_success_unverified.cpp'), [sc])
        return {'inputs': {'driver': 'units/C06/replay_success_unverified.cpp', 'args': [sc], 'meaning': 'scripted peer that never computes a valid ServerSignature'},
                'native_output': out, 'reproduced': rc == 1}
    if proof.id.startswith('scram_respond.step1') and ('iteration' in label or 'refused' in label):
        rc, out = native.run_driver(os.path.join(HERE, 'replay_scram_iterations.cpp'), [])
        return {'inputs': {'driver': 'units/C06/replay_scram_iterations.cpp', 'args': [], 'meaning': 'server-first messages with i = 4096, 1, 0, -7, abc, missing'},
                'native_output': out, 'reproduced': rc == 1}
    if proof.id.startswith('digest_respond.step1'):
        rc, out = native.run_driver(os.path.join(HERE, 'replay_digest_secret.cpp'), [])
        return {'inputs': {'driver': 'units/C06/replay_digest_secret.cpp', 'args': [], 'meaning': 'user names / realms / passwords containing %1 %2 %3'},
                'native_output': out, 'reproduced': rc == 1}
    if proof.id.startswith('scram_respond.step2'):
        rc, out = native.run_driver(os.path.join(HERE, 'replay_scram_signature.cpp'), [])
        return {'inputs': {'driver': 'units/C06/replay_scram_signature.cpp', 'args': [], 'meaning': 'server-final messages: correct / wrong / truncated / empty / missing verifier'},
                'native_output': out, 'reproduced': rc == 1}
    if proof.id.startswith('digest_respond.step2'):
        rc, out = native.run_driver(os.path.join(HERE, 'replay_digest_rspauth.cpp'), [])
        return {'inputs': {'driver': 'units/C06/replay_digest_rspauth.cpp', 'args': [], 'meaning': 'final DIGEST-MD5 challenges: correct / wrong / missing rspauth, empty'},
                'native_output': out, 'reproduced': rc == 1}
    if proof.id.startswith('scram_respond.step0'):
        args = ['alice', 'a=b', 'a,b']
        rc, out = native.run_driver(os.path.join(HERE, 'replay_scram_saslname.cpp'), args)
        return {'inputs': {'driver': 'units/C06/replay_scram_saslname.cpp', 'args': args, 'meaning': 'user names'}, 'native_output': out, 'reproduced': rc == 1}
    return None


def native_replay(rp):
    from vlib import native
    inp = rp['inputs']
    rc, out = native.run_driver(os.path.join(VERIF, inp['driver']), inp['args'])
    return rc == 1, out
