// native replay for C06/QXmppSaslClientDigestMd5::respond step 1 (RFC 2831 2.1.2.1): response = HEX(KD(HEX(H(A1)), nonce:nc:cnonce:auth:HEX(H(A2))))
// with A1 = H(username ":" realm ":" passwd) ":" nonce ":" cnonce -- for user names / realms / passwords that contain '%1', '%2', '%3'
// (text a formatting routine might treat as a place marker).  Exit 1 if a response differs from the independently computed value.
#include <QByteArray>
#include <QCryptographicHash>
#include <cstdio>
#include "QXmppSasl_p.h"
static QByteArray md5(const QByteArray &x) { return QCryptographicHash::hash(x, QCryptographicHash::Md5); }
int main()
{
    const QByteArray cnonce = "AMzVG8Oibf+sVUCPPlWLR8lZQvbbJtJB9vJd+u3c6dw=", nonce = "2530347127", nc = "00000001", uri = "xmpp/jabber.ru";
    QXmppSaslDigestMd5::setNonce(cnonce);
    struct { const char *user, *realm, *pass; } sc[] = { { "qxmpp1", "example.org", "qxmpp123" }, { "50%2off", "example.org", "secret" }, { "a%3b", "example.org", "pw" },
                                                         { "user", "realm%3", "pw" }, { "%1%2%3", "example.org", "%1" } };
    int bad = 0;
    for (auto &s : sc) {
        auto client = QXmppSaslClient::create(QStringLiteral("DIGEST-MD5"));
        client->setUsername(QString::fromUtf8(s.user));
        client->setHost(QStringLiteral("jabber.ru"));
        client->setServiceType(QStringLiteral("xmpp"));
        QXmpp::Private::Credentials cred;
        cred.password = QString::fromUtf8(s.pass);
        client->setCredentials(cred);
        client->respond(QByteArray());
        auto r = client->respond(QByteArray("nonce=\"") + nonce + "\",qop=\"auth\",charset=utf-8,algorithm=md5-sess,realm=\"" + s.realm + "\"");
        const QByteArray a1 = md5(QByteArray(s.user) + ":" + s.realm + ":" + s.pass) + ":" + nonce + ":" + cnonce;
        const QByteArray want = md5(md5(a1).toHex() + ":" + nonce + ":" + nc + ":" + cnonce + ":auth:" + md5("AUTHENTICATE:" + uri).toHex()).toHex();
        const QByteArray got = r ? QXmppSaslDigestMd5::parseMessage(*r).value("response") : QByteArray("(no response)");
        bool ok = got == want;
        printf("user='%s' realm='%s' pass='%s'\n  response %s\n  RFC 2831 %s  %s\n", s.user, s.realm, s.pass, got.constData(), want.constData(), ok ? "ok" : "POST=VIOLATED");
        if (!ok) bad++;
    }
    return bad ? 1 : 0;
}
