"""C06: lowering profile for the SASL client mechanisms (term-algebra model of QByteArray / QString, qtmodel/terms.h)."""
import re
from vlib.cxx2c import Lowerer, Profile, Unsupported, strip_type, strip_amp, find_string, line_of, qt, dqt

TYPES = {
    'QByteArray': 'BA', 'QString': 'QS', 'std::optional<QByteArray>': 'OptBA',
    'QMap<char,QByteArray>': 'GS2Map', 'QMap<QByteArray,QByteArray>': 'DMap', 'QList<QByteArray>': 'BAList',
    'QMap<QByteArray,QByteArray>::const_iterator': 'DMapIt', 'QMap<QByteArray,QByteArray>::iterator': 'DMapIt',
    'QMap<char,QByteArray>::const_iterator': 'GS2It', 'QMap<char,QByteArray>::iterator': 'GS2It',
    'QCryptographicHash::Algorithm': 'int',
    'QXmpp::Private::SaslScramMechanism': 'SaslScramMechanism', 'SaslScramMechanism': 'SaslScramMechanism',
    'QXmpp::Private::SaslHtMechanism': 'SaslHtMechanism', 'SaslHtMechanism': 'SaslHtMechanism', 'HtMechanism': 'SaslHtMechanism',
    'QXmpp::Private::SaslScramMechanism::Algorithm': 'int', 'SaslScramMechanism::Algorithm': 'int',
    'QXmpp::Private::SaslHtMechanism::ChannelBindingType': 'int', 'SaslHtMechanism::ChannelBindingType': 'int',
    'QXmpp::Private::IanaHashAlgorithm': 'int', 'IanaHashAlgorithm': 'int',
    'QXmpp::Private::HtToken': 'HtToken', 'HtToken': 'HtToken',
    'std::optional<QXmpp::Private::HtToken>': 'OptHtToken', 'std::optional<HtToken>': 'OptHtToken',
    'QXmppSaslClient': 'QXmppSaslClient', 'QXmppSaslClientScram': 'QXmppSaslClientScram', 'QXmppSaslClientPlain': 'QXmppSaslClientPlain',
    'QXmppSaslClientHt': 'QXmppSaslClientHt', 'QXmppSaslClientDigestMd5': 'QXmppSaslClientDigestMd5',
    'QMessageAuthenticationCode': 'QMac',
    'QChar': 'quint16', 'QObject': 'QObject', 'QXmppLoggable': 'QXmppLoggable',
}
CLASS_TYPES = {'BA', 'QS', 'OptBA', 'GS2Map', 'DMap', 'BAList', 'DMapIt', 'GS2It', 'SaslScramMechanism', 'SaslHtMechanism', 'HtToken', 'OptHtToken', 'QXmppSaslClient',
               'QXmppSaslClientScram', 'QXmppSaslClientPlain', 'QXmppSaslClientHt', 'QXmppSaslClientDigestMd5', 'QMac'}


def builder_type(s):
    """QStringBuilder<..> expression templates (QT_USE_QSTRINGBUILDER): the value they convert to"""
    if not s.startswith('QStringBuilder<'):
        return None
    toks = set(t for t in re.split(r'[<>,\s]+', s.replace('typename QConcatenable', '').replace('::type', '')) if t) - {'QStringBuilder'}
    if toks and all(re.fullmatch(r'QByteArray|char(\[\d+\])?', t) for t in toks) and 'QByteArray' in toks:
        return 'BA'
    if toks and toks <= {'QString', 'char16_t', 'QChar'} and 'QString' in toks:
        return 'QS'
    return None


class SaslLowerer(Lowerer):
    # ---- constructors: clang lists every base and member initialiser (written or implicit) as CXXCtorInitializer, in
    #      initialisation order; they are lowered as the first statements of the body
    def lower(self, extra_params=()):
        self._ctor_body = None
        if self.decl.get('kind') == 'CXXConstructorDecl':
            self._ctor_inits = [c for c in self.decl['inner'] if c.get('kind') == 'CXXCtorInitializer']
            self._ctor_body = next(c for c in self.decl['inner'] if c.get('kind') == 'CompoundStmt')
        return Lowerer.lower(self, extra_params)

    def ctor_init(self, ci, sp):
        self.pre = []
        (e,) = [c for c in ci.get('inner', []) if isinstance(c, dict)]
        if 'baseInit' in ci:
            bt = self.ctype(ci['baseInit']['qualType'])
            key = 'baseinit:' + bt
            rule = self.p.calls.get(key)
            if rule is None:
                raise Unsupported(key)
            self.fire(key)
            if rule[0] == 'drop':
                for a in self.skip(e).get('inner', []):
                    if not self.pure(a):
                        raise Unsupported('dropped base initialiser %s has an argument with side effects' % key)
                self.dropped.append({'call': key, 'line': line_of(ci)})
                return
            args = [self.arg(a) for a in self.skip(e).get('inner', []) if a.get('kind') != 'CXXDefaultArgExpr']
            self.flush(sp)
            self.repo_callees.add(rule[1])
            self.emit('%s%s(&self->base%s);' % (sp, rule[1], ''.join(', ' + a for a in args)))
            return
        f = ci['anyInit']
        target = 'self->%s' % f['name']
        ct = self.ctype(f['type'].get('qualType')) if not builder_type(strip_type(f['type'].get('qualType'))) else None
        e0 = self.skip(e)
        if e0.get('kind') == 'CXXDefaultInitExpr':
            e0 = self.skip(e0['inner'][0]) if e0.get('inner') else None
            if e0 is None:
                raise Unsupported('default member initialiser of %s not in the AST' % f['name'])
        self.fire('ctor-init:' + ('class' if ct in self.p.class_types else 'scalar'))
        if ct in self.p.class_types:
            if e0.get('kind') in ('CXXConstructExpr', 'CXXTemporaryObjectExpr') and self.ntype(e0) == ct:
                self.construct(e0, target)
            else:
                self.pre.append('%s = %s;' % (target, self.expr(e0)))
            self.flush(sp)
        else:
            v = self.expr(e0)
            self.flush(sp)
            self.emit('%s%s = %s;' % (sp, target, v))

    def ctype(self, t, node=None):
        if t is not None:
            b = builder_type(strip_type(t))
            if b:
                return b
        return Lowerer.ctype(self, t, node)

    def is_narrow_literal(self, n):
        n = self.skip(n)
        return n.get('kind') == 'StringLiteral' and re.fullmatch(r'(const )?char ?\[\d+\]', qt(n)) is not None

    def ntype(self, n):
        if self.is_narrow_literal(n):
            return 'BA'      # a "..." literal used as a byte string
        return Lowerer.ntype(self, n)

    def tkey(self, n):
        if self.is_narrow_literal(n):
            return 'BA'
        for cand in (qt(n), dqt(n)):
            b = builder_type(strip_type(cand))
            if b:
                return b
        return Lowerer.tkey(self, n)

    def literal_seq(self, s, ctype):
        """a string literal as a sequence of its characters (qtmodel/terms.h)"""
        if len(s) > 20 or any(ord(c) > 127 for c in s):
            raise Unsupported('literal %r not representable as a term sequence' % s)
        t = self.newtmp()
        atoms = ', '.join('%d /*%s*/' % (ord(c) + 1, c if 32 < ord(c) < 127 and c not in '*/' else '\\x%02x' % ord(c)) for c in s)
        self.pre.append('%s %s = { %d, { %s } };' % (ctype, t, len(s), atoms or '0'))
        self.fire('literal:sequence')
        return t

    def opcall(self, n):
        rd = self.callee_ref(n)
        ops = n['inner'][1:]
        if rd.get('name') == 'operator()' and len(ops) == 1 and self.skip(ops[0]).get('kind') == 'LambdaExpr':
            return self.qbytearray_literal(self.skip(ops[0]))
        return Lowerer.opcall(self, n)

    def stmt(self, n, ind):
        if getattr(self, '_ctor_body', None) is n and n is not None:
            sp = '  ' * ind
            self.emit(sp + '{')
            for ci in self._ctor_inits:
                self.ctor_init(ci, sp + '  ')
            for c in n.get('inner', []):
                self.stmt(c, ind + 1)
            self.emit(sp + '}')
            return
        if n.get('kind') == 'DoStmt':
            # do { ... } while (false)  (Q_UNREACHABLE, Q_ASSERT): the body runs exactly once
            body, cond = n['inner']
            c = self.skip(cond)

            def has_jump(x):
                return x.get('kind') in ('BreakStmt', 'ContinueStmt') or any(has_jump(y) for y in x.get('inner', []) if isinstance(y, dict))
            if c.get('kind') != 'CXXBoolLiteralExpr' or c.get('value') or has_jump(body):
                raise Unsupported('do-while other than do { } while (false) without break/continue')
            self.fire('stmt:do-while-false')
            self.block(body, ind)
            return
        return Lowerer.stmt(self, n, ind)

    def expr(self, n):
        n0 = self.skip(n)
        if n0.get('kind') == 'CXXRewrittenBinaryOperator':
            # C++20: a != b rewritten by the compiler as !(a == b); clang's AST carries the rewritten form
            self.fire('expr:CXXRewrittenBinaryOperator')
            return self.expr(n0['inner'][0])
        return Lowerer.expr(self, n)

    # ---- QString::arg: the whole chain  fmt.arg(a).arg(b)...  is lowered at its outermost call (qtmodel/terms.h explains the model)
    def membercall(self, n):
        me = self.skip(n['inner'][0])
        if me.get('kind') == 'MemberExpr' and me.get('name') == 'arg' and self.tkey(self.skip(me['inner'][0])) == 'QS':
            return self.qs_arg_chain(n)
        return Lowerer.membercall(self, n)

    def qs_arg_chain(self, n):
        calls = []
        cur = self.skip(n)
        while cur.get('kind') == 'CXXMemberCallExpr':
            me = self.skip(cur['inner'][0])
            if me.get('kind') != 'MemberExpr' or me.get('name') != 'arg' or self.tkey(self.skip(me['inner'][0])) != 'QS':
                break
            calls.append([a for a in cur['inner'][1:] if a.get('kind') != 'CXXDefaultArgExpr'])
            cur = self.skip(me['inner'][0])
        calls.reverse()
        fmt = find_string(cur) if cur.get('kind') in ('StringLiteral', 'UserDefinedLiteral', 'CXXConstructExpr') else None
        if fmt is None and cur.get('kind') == 'UserDefinedLiteral':
            fmt = self.udl_from_source(cur)
        self.fire('QString::arg:chain')

        def qs_args(argn):
            out = []
            for a in argn:
                if self.tkey(self.skip(a)) != 'QS':
                    raise Unsupported('QString::arg with an argument of type %s' % self.tkey(self.skip(a)))
                e = self.addr(self.skip(a))
                if not re.fullmatch(r'&?\w+(->\w+)*', e):      # evaluate once
                    t = self.newtmp()
                    self.pre.append('QS %s = %s;' % (t, strip_amp(e)))
                    e = '&' + t
                out.append(e)
            return out

        def opaque(cur_e, args):
            for a in args:
                t = self.newtmp()
                self.pre.append('QS %s; QS_arg_opaque(&%s, %s, %s);' % (t, t, cur_e, a))
                cur_e = '&' + t
            return cur_e
        if fmt is None:
            # the format is not a literal: every substitution is an opaque term
            cur_e = self.addr(cur)
            for argn in calls:
                cur_e = opaque(cur_e, qs_args(argn))
            return strip_amp(cur_e)
        if re.search(r'%L?\d', fmt) is None or '%L' in fmt:
            raise Unsupported('QString::arg on the literal format %r' % fmt)
        pieces = [('mark', int(p[1:])) if re.fullmatch(r'%\d\d?', p) else ('lit', p) for p in re.split(r'(%\d\d?)', fmt) if p != '']

        def concat(pcs):
            cur_e = None
            for kind, v in pcs:
                e = v if kind == 'arg' else '&' + self.literal_seq(v if kind == 'lit' else '%%%d' % v, 'QS')
                if cur_e is None:
                    cur_e = e
                else:
                    t = self.newtmp()
                    self.pre.append('QS %s; QS_concat(&%s, %s, %s);' % (t, t, cur_e, e))
                    cur_e = '&' + t
            if cur_e is None:
                cur_e = '&' + self.literal_seq('', 'QS')
            return cur_e
        earlier = []          # arguments substituted by earlier calls of the chain
        cur_e = None          # C value of the string so far (None: still the literal format)
        dirty = None          # C bool: some earlier substituted text contains a '%'
        for argn in calls:
            args = qs_args(argn)
            marks = sorted(set(v for k, v in pieces if k == 'mark'))
            if len(marks) < len(args):
                raise Unsupported('QString::arg: more arguments than place markers left in %r' % fmt)
            for i, (k, v) in enumerate(pieces):
                if k == 'lit' and v.endswith('%') and i + 1 < len(pieces) and pieces[i + 1][0] == 'arg':
                    raise Unsupported('QString::arg: a literal %% directly before substituted text')
            sub = dict(zip(marks, args))          # one pass: lowest marker <- first argument, ...
            before = concat(pieces) if earlier else None
            pieces = [('arg', sub[v]) if k == 'mark' and v in sub else (k, v) for k, v in pieces]
            clean = concat(pieces)
            if not earlier:
                cur_e = clean
            else:
                d = self.newtmp()
                self.pre.append('bool %s = %s%s;' % (d, (dirty + ' || ') if dirty else '', ' || '.join('QS_has_percent(%s)' % a for a in earlier)))
                dirty = d
                r = self.newtmp()
                self.pre.append('QS %s = %s;   /* value if no earlier substituted text contains a place marker */' % (r, strip_amp(clean)))
                o = opaque(cur_e if cur_e else before, args)
                self.pre.append('if (%s) %s = %s;' % (d, r, strip_amp(o)))
                cur_e = '&' + r
            earlier = earlier + args
        return strip_amp(cur_e)

    def fncall(self, n):
        rd = self.callee_ref(n)
        if rd.get('name') == 'transform' and len(n['inner']) == 6:
            # the iterator arguments are not values of the model: the rule reads the shape of the call itself
            self.fire('fn:transform/5')
            return std_transform(self, n, None)
        return Lowerer.fncall(self, n)

    def qbytearray_literal(self, lam):
        """QByteArrayLiteral("..") expands to an immediately invoked lambda returning a QByteArray over static data named
        qbytearray_literal; anything else of that shape is refused"""
        def find(n, pred):
            if pred(n):
                return n
            for c in n.get('inner', []):
                if isinstance(c, dict):
                    r = find(c, pred)
                    if r is not None:
                        return r
            return None
        v = find(lam, lambda x: x.get('kind') == 'VarDecl' and x.get('name') == 'qbytearray_literal')
        if v is None or 'QStaticByteArrayData' not in qt(v):
            raise Unsupported('immediately invoked lambda that is not QByteArrayLiteral')
        sl = [c for c in v['inner'][0].get('inner', []) if c.get('kind') == 'StringLiteral']
        if len(sl) != 1:
            raise Unsupported('QByteArrayLiteral without a single string literal')
        s = find_string(sl[0])
        self.fire('macro:QByteArrayLiteral')
        return self.literal_seq(s, 'BA')

    def string_literal(self, n):
        s = find_string(n)
        if s is None and self.skip(n).get('kind') == 'UserDefinedLiteral':
            s = self.udl_from_source(self.skip(n))
        if s is None:
            raise Unsupported('string literal without value')
        return self.literal_seq(s, 'BA' if self.is_narrow_literal(n) else 'QS')


def opt_none(lw, n, target):
    dst = target
    if not dst:
        dst = lw.newtmp()
        lw.pre.append('OptBA %s;' % dst)
    lw.pre.append('%s.has = false; %s.v = ba_empty();' % (dst, dst))
    return dst


def opt_some(lw, n, target):
    a = lw.arg(n['inner'][0])
    dst = target
    if not dst:
        dst = lw.newtmp()
        lw.pre.append('OptBA %s;' % dst)
    lw.pre.append('%s.has = true; %s.v = %s;' % (dst, dst, strip_amp(a)))
    return dst


def base_getter(cname, ctype):
    """inline getter of the base class QXmppSaslClient (lowered from the header, called on the base sub-object)"""
    def rule(lw, node, args):
        lw.repo_callees.add(cname)
        t = lw.newtmp()
        lw.pre.append('%s %s; %s(&%s->base, &%s);' % (ctype, t, cname, args[0], t))
        return t
    return rule


def hash_fn(lw, node, args):
    """QMessageAuthenticationCode::hash(message, key, method) / QCryptographicHash::hash(data, method): told apart by the
    resolved signature"""
    sig = lw.callee_ref(node).get('type', {}).get('qualType', '')
    t = lw.newtmp()
    if sig.startswith('QByteArray (const QByteArray &, const QByteArray &, QCryptographicHash::Algorithm)'):
        lw.pre.append('BA %s; QMessageAuthenticationCode_hash(&%s, %s);' % (t, t, ', '.join(args)))
    elif sig.startswith('QByteArray (const QByteArray &, QCryptographicHash::Algorithm)'):
        lw.pre.append('BA %s; QCryptographicHash_hash(&%s, %s);' % (t, t, ', '.join(args)))
    else:
        raise Unsupported('hash with signature %s' % sig)
    return t


def std_transform(lw, node, args):
    """std::transform(x.cbegin(), x.cend(), y.cbegin(), x.begin(), std::bit_xor<char>()) -- exactly this shape"""
    a = [lw.skip(x) for x in node['inner'][1:]]

    def it(x, names):
        if x.get('kind') != 'CXXMemberCallExpr':
            return None
        me = lw.skip(x['inner'][0])
        if me.get('name') not in names:
            return None
        b = lw.skip(me['inner'][0])
        return b if b.get('kind') == 'DeclRefExpr' else None
    b0, b1, b2, b3 = it(a[0], ('cbegin', 'begin', 'constBegin')), it(a[1], ('cend', 'end', 'constEnd')), it(a[2], ('cbegin', 'begin', 'constBegin')), it(a[3], ('begin',))
    if None in (b0, b1, b2, b3) or 'std::bit_xor<char>' not in qt(a[4]):
        raise Unsupported('std::transform of an unrecognised shape')
    ids = [b['referencedDecl']['id'] for b in (b0, b1, b3)]
    if len(set(ids)) != 1 or b2['referencedDecl']['id'] == ids[0]:
        raise Unsupported('std::transform: not an in-place XOR of one array with another')
    return 'BA_xor_inplace(%s, %s)' % (lw.addr(b0), lw.addr(b2))


def defaulted_eq(fields):
    """`bool operator==(const T &) const = default` (explicit, or implied by a defaulted operator<=>): member-wise comparison
    of the scalar members listed in the class definition (taken from the AST by the unit)"""
    def rule(lw, node, args):
        rd = lw.callee_ref(node)
        if not (rd.get('name') == 'operator=='):
            raise Unsupported('defaulted comparison expected')
        a, b = strip_amp(args[0]), strip_amp(args[1])
        return '(' + ' && '.join('%s.%s == %s.%s' % (a, f, b, f) for f in fields) + ')'
    return rule


def it_deref(fn):
    """*it / it.value() / it.key() / it->: a reference to the entry's value (key); the model function carries the obligation that the
    iterator is not past-the-end"""
    def rule(lw, node, args):
        return '(*%s(%s))' % (fn, args[0])
    return rule


def it_arrow(fn):
    def rule(lw, node, args):
        return '%s(%s)' % (fn, args[0])
    return rule


def gs2_index(lw, node, args):
    """QMap<char,QByteArray>::operator[](key) const: the value or a default-constructed one, like value(key); the inserting
    non-const overload is not modelled"""
    if not re.search(r'\)\s*const\s*$', lw.callee_ref(node).get('type', {}).get('qualType', '')):
        raise Unsupported('non-const QMap<char,QByteArray>::operator[]')
    t = lw.newtmp()
    lw.pre.append('BA %s; GS2Map_value(&%s, %s, %s);' % (t, t, args[0], args[1]))
    return t


def map_index(lw, node, args):
    """QMap::operator[](key).  const overload: the value or a default-constructed one, like value(key).  Non-const overload with a
    literal key: a reference to the (default-inserted) value of that directive"""
    if re.search(r'\)\s*const\s*$', lw.callee_ref(node).get('type', {}).get('qualType', '')):
        t = lw.newtmp()
        lw.pre.append('BA %s; DMap_value(&%s, %s, %s);' % (t, t, args[0], args[1]))
        return t
    k = lw.skip(node['inner'][2])
    while k.get('kind') == 'ParenExpr':
        k = lw.skip(k['inner'][0])
    lit = None
    if k.get('kind') == 'CXXOperatorCallExpr' and lw.callee_ref(k).get('name') == 'operator()' and lw.skip(k['inner'][1]).get('kind') == 'LambdaExpr':
        v = None
        def walk(n):
            nonlocal v
            if n.get('kind') == 'VarDecl' and n.get('name') == 'qbytearray_literal':
                v = n
            for c in n.get('inner', []):
                if isinstance(c, dict):
                    walk(c)
        walk(lw.skip(k['inner'][1]))
        if v is not None:
            lit = find_string(v)
    if lit is None or not re.fullmatch(r'[A-Za-z][A-Za-z0-9-]*', lit):
        raise Unsupported('QMap::operator[] with a key that is not a QByteArrayLiteral directive name')
    t = lw.newtmp()
    lw.pre.append('BA *%s = DMap_slot(%s, DIR_%s);' % (t, args[0], lit.replace('-', '_')))
    return '(*%s)' % t


def qstring_arg(lw, node, args):
    """u"..%1..%2.."_s.arg(a, b): multi-argument arg() replaces the place markers in one pass (Qt documentation); the format is a
    literal, so the result is the concatenation of its pieces and the arguments"""
    me = lw.skip(node['inner'][0])
    base = lw.skip(me['inner'][0])
    fmt = find_string(base)
    if fmt is None and base.get('kind') == 'UserDefinedLiteral':
        fmt = lw.udl_from_source(base)
    if fmt is None:
        raise Unsupported('QString::arg on a format that is not a literal')
    n = len(args) - 1
    marks = re.findall(r'%(\d+)', fmt)
    if sorted(set(marks)) != [str(i + 1) for i in range(n)] or len(marks) != n:
        raise Unsupported('QString::arg: place markers %r for %d arguments' % (marks, n))
    lw.fire('QString::arg:literal-format')
    cur = None
    for piece in re.split(r'(%\d+)', fmt):
        if piece == '':
            continue
        m = re.fullmatch(r'%(\d+)', piece)
        e = args[int(m.group(1))] if m else '&' + lw.literal_seq(piece, 'QS')
        if cur is None:
            cur = e
        else:
            t = lw.newtmp()
            lw.pre.append('QS %s; QS_concat(&%s, %s, %s);' % (t, t, cur, e))
            cur = '&' + t
    return strip_amp(cur)


def ba_replace(lw, node, args):
    """QByteArray::replace(char, const char *) modifies the object and returns a reference to it"""
    lw.pre.append('BA_replace_char(%s);' % ', '.join(args))
    return strip_amp(args[0])


def unreachable(lw, node, args):
    return '__CPROVER_assert(0, "[safety.unreachable_code_is_not_reached] Q_UNREACHABLE")'


def profile():
    calls = {
        # QByteArray
        'ctor:BA()': ('fn', 'BA_ctor'),
        'op=:BA:BA': ('fn', 'BA_assign'),
        'op+:BA:BA': ('fnret', 'BA_concat', 'BA'),
        'op+:BA:char': ('fnret', 'BA_concat_char', 'BA'),
        'op==:BA:BA': ('fn', 'BA_eq'),
        'op!=:BA:BA': ('fn', 'BA_ne'),
        'BA::operator QByteArray/0': ('arg', 0),
        'BA::isEmpty/0': ('fn', 'BA_isEmpty'),
        'BA::size/0': ('fn', 'BA_size'), 'BA::length/0': ('fn', 'BA_size'), 'BA::count/0': ('fn', 'BA_size'),
        'BA::at/1': ('fn', 'BA_at'), 'op[]:BA:int': ('fn', 'BA_at'), 'op[]:BA:unsigned int': ('fn', 'BA_at'),
        'fn:fromUtf8/1': ('fnret', 'QS_fromUtf8', 'QS'),
        'BA::startsWith/1': ('fn', 'BA_startsWith'),
        'BA::toBase64/0': ('fnret', 'BA_toBase64', 'BA'),
        'BA::toHex/0': ('fnret', 'BA_toHex', 'BA'),
        'BA::toInt/0': ('fn', 'BA_toInt'),
        'BA::toInt/1': ('fn', 'BA_toInt_ok'),
        'BA::toInt/2': ('fn', 'BA_toInt_ok_base'),
        'BA::replace/2': ba_replace,
        'fn:fromBase64/1': ('fnret', 'BA_fromBase64', 'BA'),
        # QString
        'ctor:QS()': ('fn', 'QS_ctor'),
        'op=:QS:QS': ('fn', 'QS_assign'),
        'QS::toUtf8/0': ('fnret', 'QS_toUtf8', 'BA'),
        'QS::isEmpty/0': ('fn', 'QS_isEmpty'),
        'QS::operator QString/0': ('arg', 0),
        'op+:quint16:QS': ('fnret', 'QS_char_concat', 'QS'),
        'op+:QS:quint16': ('fnret', 'QS_concat_char', 'QS'),
        'op+:QS:QS': ('fnret', 'QS_concat', 'QS'),
        # optional<HtToken>
        'OptHtToken::operator bool/0': ('expr', '{v0}.has'),
        'op->:OptHtToken': ('expr', '(&{v0}.v)'),
        'QMac::addData/1': ('fn', 'QMac_addData'),
        # optional<QByteArray>
        'ctor:OptBA()': opt_none,
        'ctor:OptBA(BA)': opt_some,
        # crypto (Qt; A-CRYPTO)
        'fn:hash/2': hash_fn,
        'fn:hash/3': hash_fn,
        'fn:deriveKeyPbkdf2/5': ('fnret', 'QPasswordDigestor_deriveKeyPbkdf2', 'BA'),
        'ctor:QMac(int,BA)': ('fn', 'QMac_ctor'),
        'QMac::result/0': ('fnret', 'QMac_result', 'BA'),
        # GS2 attribute map (parseGS2 is a repository function used through its contract)
        'fn:parseGS2/1': ('calleeret', 'parseGS2', 'GS2Map'),
        'GS2Map::value/1': ('fnret', 'GS2Map_value', 'BA'),
        'GS2Map::value/2': ('fnret', 'GS2Map_value2', 'BA'),
        'GS2Map::contains/1': ('fn', 'GS2Map_contains'),
        'GS2Map::count/1': ('fn', 'GS2Map_count'),
        'op[]:GS2Map:char': gs2_index,
        'GS2Map::find/1': ('fnret', 'GS2Map_find', 'GS2It'), 'GS2Map::constFind/1': ('fnret', 'GS2Map_find', 'GS2It'),
        'GS2Map::end/0': ('fnret', 'GS2Map_end', 'GS2It'), 'GS2Map::constEnd/0': ('fnret', 'GS2Map_end', 'GS2It'), 'GS2Map::cend/0': ('fnret', 'GS2Map_end', 'GS2It'),
        'op==:GS2It:GS2It': ('fn', 'GS2It_eq'), 'op!=:GS2It:GS2It': ('fn', 'GS2It_ne'),
        'op*:GS2It': it_deref('GS2It_value'), 'GS2It::value/0': it_deref('GS2It_value'), 'op->:GS2It': it_arrow('GS2It_value'),
        'GS2It::key/0': ('fn', 'GS2It_key'),
        # DIGEST-MD5: Qt containers and the message grammar (QXmppSaslDigestMd5::parseMessage / serializeMessage through contracts)
        'ctor:DMap()': ('fn', 'DMap_ctor'),
        'fn:parseMessage/1': ('calleeret', 'QXmppSaslDigestMd5_parseMessage', 'DMap'),
        'fn:serializeMessage/1': ('calleeret', 'QXmppSaslDigestMd5_serializeMessage', 'BA'),
        'fn:calculateDigest/6': ('calleeret', 'calculateDigest', 'BA'),
        'DMap::contains/1': ('fn', 'DMap_contains'),
        'DMap::count/1': ('fn', 'DMap_count'),
        'DMap::find/1': ('fnret', 'DMap_find', 'DMapIt'), 'DMap::constFind/1': ('fnret', 'DMap_find', 'DMapIt'),
        'DMap::end/0': ('fnret', 'DMap_end', 'DMapIt'), 'DMap::constEnd/0': ('fnret', 'DMap_end', 'DMapIt'), 'DMap::cend/0': ('fnret', 'DMap_end', 'DMapIt'),
        'op==:DMapIt:DMapIt': ('fn', 'DMapIt_eq'), 'op!=:DMapIt:DMapIt': ('fn', 'DMapIt_ne'),
        'op*:DMapIt': it_deref('DMapIt_value'), 'DMapIt::value/0': it_deref('DMapIt_value'), 'op->:DMapIt': it_arrow('DMapIt_value'),
        'DMapIt::key/0': it_deref('DMapIt_key'),
        'DMap::value/1': ('fnret', 'DMap_value', 'BA'),
        'DMap::value/2': ('fnret', 'DMap_value2', 'BA'),
        'op[]:DMap:BA': map_index,
        'BA::split/1': ('fnret', 'BA_split', 'BAList'),
        'BAList::contains/1': ('fn', 'BAList_contains'),
        '*::serviceType/0': base_getter('QXmppSaslClient_serviceType', 'QS'),
        '*::host/0': base_getter('QXmppSaslClient_host', 'QS'),
        # constructors
        'baseinit:QXmppLoggable': ('drop',),
        'baseinit:QXmppSaslClient': ('callee', 'QXmppSaslClient_ctor'),
        'fn:hashLength/1': ('fn', 'QCryptographicHash_hashLength'),
        'fn:generateNonce/0': ('calleeret', 'generateNonce', 'BA'),
        'fn:generateRandomBytes/1': ('calleeret', 'QXmppUtils_generateRandomBytes', 'BA'),
        # repository callees
        'SaslScramMechanism::qtAlgorithm/0': ('callee', 'SaslScramMechanism_qtAlgorithm'),
        '*::username/0': base_getter('QXmppSaslClient_username', 'QS'),
        'fn:ianaHashAlgorithmToQt/1': ('callee', 'ianaHashAlgorithmToQt'),
        'fn:__builtin_unreachable/0': unreachable,
        '*::warning/1': ('drop',), '*::debug/1': ('drop',), '*::info/1': ('drop',),
        'fn:qWarning': ('drop',),
    }
    return Profile(types=TYPES, class_types=CLASS_TYPES, calls=calls, default_args={}, globals_ok={'forcedNonce'})
