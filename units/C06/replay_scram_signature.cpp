// native replay for C06/QXmppSaslClientScram::respond step 2 (RFC 5802 section 3): the server-final message is accepted iff v is
// base64(ServerSignature), ServerSignature = HMAC(HMAC(SaltedPassword, "Server Key"), AuthMessage).  RFC 5802 section 5 example values.
// A truncated (prefix), empty or missing verifier must be refused.  Exit 1 if any verdict differs.
#include <QByteArray>
#include <cstdio>
#include "QXmppSasl_p.h"
int main()
{
    QXmppSaslDigestMd5::setNonce("fyko+d2lbbFgONRv9qkxdawL");
    const QByteArray sig = QByteArray::fromBase64("rmF9pqV8S7suAoZWja4dJRkFsKQ=");      // RFC 5802 section 5
    struct { const char *name; QByteArray final; bool accept; } sc[] = {
        { "correct signature", "v=" + sig.toBase64(), true },
        { "wrong signature", "v=" + QByteArray(20, 'x').toBase64(), false },
        { "first 10 bytes of the signature", "v=" + sig.left(10).toBase64(), false },
        { "first byte of the signature", "v=" + sig.left(1).toBase64(), false },
        { "empty verifier", "v=", false },
        { "no verifier", "x=y", false },
        { "signature plus one byte", "v=" + (sig + 'z').toBase64(), false },
    };
    int bad = 0;
    for (auto &s : sc) {
        auto client = QXmppSaslClient::create(QStringLiteral("SCRAM-SHA-1"));
        client->setUsername(QStringLiteral("user"));
        QXmpp::Private::Credentials cred;
        cred.password = QStringLiteral("pencil");
        client->setCredentials(cred);
        client->respond(QByteArray());
        auto r1 = client->respond("r=fyko+d2lbbFgONRv9qkxdawL3rfcNHYJY1ZVvWVs7j,s=QSXCR+Q6sek8bf92,i=4096");
        auto r2 = client->respond(s.final);
        bool ok = r1.has_value() && r2.has_value() == s.accept;
        printf("%-34s '%s' -> %s  (RFC 5802: %s)  %s\n", s.name, s.final.constData(), r2 ? "ACCEPTED" : "refused", s.accept ? "accept" : "refuse", ok ? "ok" : "POST=VIOLATED");
        if (!ok) bad++;
    }
    return bad ? 1 : 0;
}
