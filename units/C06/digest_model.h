/* C06 DIGEST-MD5: QMap<QByteArray,QByteArray> and QList<QByteArray> models (Qt containers), the message grammar behind contracts.
 *
 * DMap: either the result of QXmppSaslDigestMd5::parseMessage (parsed = true: lookups are uninterpreted functions of the
 * message bytes and the key -- the character-level grammar with its quoting is NOT verified here), or a map built with
 * operator[] (parsed = false): see DMap_slot below. */
#define DMAP_N 12
typedef struct DMap { bool parsed; bool src_nonempty; int src; bool has[DMAP_N]; BA v[DMAP_N]; } DMap;
bool __CPROVER_uninterpreted_dmsg_has(int msg, int key);
int __CPROVER_uninterpreted_dmsg_attr(int msg, int key);
bool __CPROVER_uninterpreted_dmsg_attr_empty(int msg, int key);
/* directive `key` of a digest-challenge: present or not; its (unquoted) value, possibly empty */
static inline bool dmsg_has(BA msg, BA key) { return msg.n != 0 && __CPROVER_uninterpreted_dmsg_has(ba_id(msg), ba_id(key)); }
static inline BA dmsg_value(BA msg, BA key) { int m = ba_id(msg), k = ba_id(key); return (msg.n != 0 && __CPROVER_uninterpreted_dmsg_has(m, k) && !__CPROVER_uninterpreted_dmsg_attr_empty(m, k)) ? ba_atom(__CPROVER_uninterpreted_dmsg_attr(m, k)) : ba_empty(); }
/* A map BUILT by the code has literal keys; the model keeps one slot per directive name of RFC 2831 section 2.1.2 (in QMap's
   ascending key order), so the value of the map does not depend on the insertion order.  Any other key is a model limit. */
enum { DIR_authzid, DIR_charset, DIR_cipher, DIR_cnonce, DIR_digest_uri, DIR_maxbuf, DIR_nc, DIR_nonce, DIR_qop, DIR_realm, DIR_response, DIR_username };
/* (the lowering turns output[QByteArrayLiteral("digest-uri")] into DMap_slot(&output, DIR_digest_uri): a key that is not a literal,
   or not one of these names, does not compile -> exit 2) */
static inline void DMap_ctor(DMap *m) { m->parsed = false; m->src_nonempty = false; m->src = 0; for (int i = 0; i < DMAP_N; i++) { m->has[i] = false; m->v[i] = ba_empty(); } }
/* QMap::operator[](key): reference to the value, default-inserted when absent */
static inline BA *DMap_slot(DMap *m, int d) {
  MODEL_LIMIT(!m->parsed, "operator[] on a parsed message");
  if (!m->has[d]) { m->has[d] = true; m->v[d] = ba_empty(); }
  return &m->v[d];
}
/* ---- lookups.  On a parsed message: directive `key` is present or not (dmsg_has) and has a possibly empty value; value(key) and
   value(key, default), contains, count, const operator[], find / constFind + iterator all read these same two facts.  On a map built
   with operator[] the key must be one of the directive names (dmap_index). */
static inline int dmap_index(BA key) {
  if (ba_eq(key, BA_LIT("authzid"))) return DIR_authzid;   if (ba_eq(key, BA_LIT("charset"))) return DIR_charset;     if (ba_eq(key, BA_LIT("cipher"))) return DIR_cipher;
  if (ba_eq(key, BA_LIT("cnonce"))) return DIR_cnonce;     if (ba_eq(key, BA_LIT("digest-uri"))) return DIR_digest_uri; if (ba_eq(key, BA_LIT("maxbuf"))) return DIR_maxbuf;
  if (ba_eq(key, BA_LIT("nc"))) return DIR_nc;             if (ba_eq(key, BA_LIT("nonce"))) return DIR_nonce;         if (ba_eq(key, BA_LIT("qop"))) return DIR_qop;
  if (ba_eq(key, BA_LIT("realm"))) return DIR_realm;       if (ba_eq(key, BA_LIT("response"))) return DIR_response;   if (ba_eq(key, BA_LIT("username"))) return DIR_username;
  return -1;
}
/* QMap<QByteArray,QByteArray>::const_iterator / iterator as produced by find / constFind / end: past-the-end, or at one entry */
typedef struct DMapIt { bool at_end; BA k; BA v; } DMapIt;
static inline void DMap_find(DMapIt *r, const DMap *m, const BA *key) {
  r->k = *key; r->v = ba_empty();
  if (m->parsed) {
    int k = ba_id(*key);
    r->at_end = !(m->src_nonempty && __CPROVER_uninterpreted_dmsg_has(m->src, k));
    if (!r->at_end && !__CPROVER_uninterpreted_dmsg_attr_empty(m->src, k)) r->v = ba_atom(__CPROVER_uninterpreted_dmsg_attr(m->src, k));
    return;
  }
  int d = dmap_index(*key);
  r->at_end = !(d >= 0 && m->has[d]);
  if (!r->at_end) r->v = m->v[d];
}
static inline void DMap_end(DMapIt *r, const DMap *m) { r->at_end = true; r->k = ba_empty(); r->v = ba_empty(); }
/* iterators of the same map: equal iff both past-the-end or at the same key */
static inline bool DMapIt_eq(const DMapIt *a, const DMapIt *b) { return a->at_end ? b->at_end : (!b->at_end && ba_eq(a->k, b->k)); }
static inline bool DMapIt_ne(const DMapIt *a, const DMapIt *b) { return !DMapIt_eq(a, b); }
/* *it, it.value(), it->..., it.key(): dereferencing the past-the-end iterator is undefined behaviour */
static inline const BA *DMapIt_value(const DMapIt *it) { __CPROVER_assert(!it->at_end, "[safety.map_iterator_dereferenced_only_when_it_is_not_end]"); return &it->v; }
static inline const BA *DMapIt_key(const DMapIt *it) { __CPROVER_assert(!it->at_end, "[safety.map_iterator_dereferenced_only_when_it_is_not_end]"); return &it->k; }
static inline bool DMap_contains(const DMap *m, const BA *key) { DMapIt it; DMap_find(&it, m, key); return !it.at_end; }
static inline int DMap_count(const DMap *m, const BA *key) { return DMap_contains(m, key) ? 1 : 0; }
static inline void DMap_value2(BA *r, const DMap *m, const BA *key, const BA *dflt) { DMapIt it; DMap_find(&it, m, key); *r = it.at_end ? *dflt : it.v; }
static inline void DMap_value(BA *r, const DMap *m, const BA *key) { BA e = ba_empty(); DMap_value2(r, m, key, &e); }
/* the two grammar functions of QXmppSasl.cpp, used through contracts */
void QXmppSaslDigestMd5_parseMessage(DMap *_ret, const BA *ba)
__CPROVER_requires(__CPROVER_is_fresh(_ret, sizeof(*_ret)))
__CPROVER_requires(__CPROVER_is_fresh(ba, sizeof(*ba)))
__CPROVER_assigns(*_ret)
__CPROVER_ensures(_ret->parsed && _ret->src == ba_id(*ba) && _ret->src_nonempty == (ba->n != 0))
;
/* the serialisation is a function of which directives are present and of their values */
int __CPROVER_uninterpreted_dser(int present, int v0, int v1, int v2, int v3, int v4, int v5, int v6, int v7, int v8, int v9, int v10, int v11);
static inline BA dmsg_serialized(const DMap *m) {
  int present = 0;
  for (int i = 0; i < DMAP_N; i++) if (m->has[i]) present |= 1 << i;
#define DV(i) (m->has[i] ? ba_id(m->v[i]) : 0)
  return ba_atom(__CPROVER_uninterpreted_dser(present, DV(0), DV(1), DV(2), DV(3), DV(4), DV(5), DV(6), DV(7), DV(8), DV(9), DV(10), DV(11)));
#undef DV
}
void QXmppSaslDigestMd5_serializeMessage(BA *_ret, const DMap *map)
__CPROVER_requires(__CPROVER_is_fresh(_ret, sizeof(*_ret)))
__CPROVER_requires(__CPROVER_is_fresh(map, sizeof(*map)))
__CPROVER_assigns(*_ret)
__CPROVER_ensures(ba_eq(*_ret, dmsg_serialized(map)))
;
/* QByteArray::split(sep) -> QList<QByteArray>; only membership is asked.  A value without the separator is its own only part. */
typedef struct BAList { BA whole; char sep; } BAList;
bool __CPROVER_uninterpreted_split_contains(int whole, char sep, int item);
static inline void BA_split(BAList *r, const BA *x, char sep) { r->whole = *x; r->sep = sep; }
static inline bool balist_contains(BA whole, char sep, BA item) {
  bool plain = true;       /* only concrete characters, none of them the separator */
  for (int i = 0; i < TERM_L; i++) if (i < whole.n && (whole.a[i] < 1 || whole.a[i] > 256 || whole.a[i] == TERM_BYTE(sep))) plain = false;
  if (plain) return ba_eq(whole, item);
  return __CPROVER_uninterpreted_split_contains(ba_id(whole), sep, ba_id(item));
}
static inline bool BAList_contains(const BAList *l, const BA *item) { return balist_contains(l->whole, l->sep, *item); }

/* ---- RFC 2831 section 2.1.2 digest-response, written from the RFC:
   digest-response = 1#( username | realm | nonce | cnonce | nonce-count | qop | digest-uri | response | charset | ... )
   digest-uri = serv-type "/" host;  nc = "00000001" for the first use of a nonce;  qop = "auth";  realm only if the server gave one */
static inline BA rfc2831_digest_uri(BA serv_type, BA host) { return ba_cat3(serv_type, BA_LIT("/"), host); }
static inline BA rfc2831_secret(BA user, BA realm, BA passwd) { return T_H(QCryptographicHash_Algorithm__Md5, ba_cat5(user, BA_LIT(":"), realm, BA_LIT(":"), passwd)); }
/* the bytes of the digest-response: the serialisation (dmsg_serialized) of exactly these directives */
static inline BA rfc2831_digest_response(BA user, BA realm, BA nonce, BA cnonce, BA nc, BA digest_uri, BA passwd) {
  int present = (1 << DIR_username) | (1 << DIR_nonce) | (1 << DIR_cnonce) | (1 << DIR_nc) | (1 << DIR_qop) | (1 << DIR_digest_uri) | (1 << DIR_response) | (1 << DIR_charset);
  if (realm.n != 0) present |= 1 << DIR_realm;
  BA response = rfc2831_response_value(BA_LIT("AUTHENTICATE"), digest_uri, rfc2831_secret(user, realm, passwd), nonce, cnonce, nc);
  return ba_atom(__CPROVER_uninterpreted_dser(present, /* authzid */ 0, /* charset */ ba_id(BA_LIT("utf-8")), /* cipher */ 0, /* cnonce */ ba_id(cnonce), /* digest-uri */ ba_id(digest_uri),
                                              /* maxbuf */ 0, /* nc */ ba_id(nc), /* nonce */ ba_id(nonce), /* qop */ ba_id(BA_LIT("auth")), /* realm */ ba_id(realm), /* response */ ba_id(response), /* username */ ba_id(user)));
}
