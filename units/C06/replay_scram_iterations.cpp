// native replay for C06/QXmppSaslClientScram::respond step 1: RFC 5802 section 5.1 -- "i" is the iteration count, a positive integer.
// A server-first message with i = 0, a negative i, a non-number or no i must be refused (with i <= 0 PBKDF2 does not depend on the
// password in any useful way).  Exit 1 if any verdict differs.
#include <QByteArray>
#include <cstdio>
#include "QXmppSasl_p.h"
int main()
{
    QXmppSaslDigestMd5::setNonce("fyko+d2lbbFgONRv9qkxdawL");
    struct { const char *i; bool answer; } sc[] = { { ",i=4096", true }, { ",i=1", true }, { ",i=0", false }, { ",i=-7", false }, { ",i=abc", false }, { "", false } };
    int bad = 0;
    for (auto &s : sc) {
        auto client = QXmppSaslClient::create(QStringLiteral("SCRAM-SHA-1"));
        client->setUsername(QStringLiteral("user"));
        QXmpp::Private::Credentials cred;
        cred.password = QStringLiteral("pencil");
        client->setCredentials(cred);
        client->respond(QByteArray());
        QByteArray serverFirst = QByteArray("r=fyko+d2lbbFgONRv9qkxdawL3rfcNHYJY1ZVvWVs7j,s=QSXCR+Q6sek8bf92") + s.i;
        auto r = client->respond(serverFirst);
        bool ok = r.has_value() == s.answer;
        printf("server-first '%s' -> %s  (RFC 5802: %s)  %s\n", serverFirst.constData(), r ? "ANSWERED" : "refused", s.answer ? "answer" : "refuse", ok ? "ok" : "POST=VIOLATED");
        if (!ok) bad++;
    }
    return bad ? 1 : 0;
}
