// native replay for C06/QXmppSaslClientDigestMd5::respond step 2 (RFC 2831 2.1.3): the final challenge is accepted iff it carries
// rspauth = HEX(KD(HEX(H(A1)), nonce ":" nc ":" cnonce ":auth:" HEX(H(":" digest-uri)))).  Scenarios: correct rspauth (must be
// accepted), wrong rspauth, no rspauth directive, empty final challenge (must all be refused).  Exit 1 if any verdict differs.
#include <QByteArray>
#include <QCryptographicHash>
#include <cstdio>
#include "QXmppSasl_p.h"
static QByteArray md5(const QByteArray &x) { return QCryptographicHash::hash(x, QCryptographicHash::Md5); }
int main()
{
    const QByteArray cnonce = "AMzVG8Oibf+sVUCPPlWLR8lZQvbbJtJB9vJd+u3c6dw=";
    QXmppSaslDigestMd5::setNonce(cnonce);
    const QByteArray nonce = "2530347127", realm = "example.org", user = "qxmpp1", pass = "qxmpp123", uri = "xmpp/jabber.ru", nc = "00000001";
    // RFC 2831, computed here independently of the library
    const QByteArray a1 = md5(user + ":" + realm + ":" + pass) + ":" + nonce + ":" + cnonce;
    const QByteArray a2 = ":" + uri;
    const QByteArray rspauth = md5(md5(a1).toHex() + ":" + nonce + ":" + nc + ":" + cnonce + ":auth:" + md5(a2).toHex()).toHex();
    struct { const char *name; QByteArray final; bool accept; } sc[] = {
        { "correct rspauth", "rspauth=" + rspauth, true },
        { "wrong rspauth", "rspauth=00000000000000000000000000000000", false },
        { "no rspauth directive", "foo=bar", false },
        { "empty final challenge", "", false },
    };
    int bad = 0;
    for (auto &s : sc) {
        auto client = QXmppSaslClient::create(QStringLiteral("DIGEST-MD5"));
        client->setUsername(QString::fromUtf8(user));
        client->setHost(QStringLiteral("jabber.ru"));
        client->setServiceType(QStringLiteral("xmpp"));
        QXmpp::Private::Credentials cred;
        cred.password = QString::fromUtf8(pass);
        client->setCredentials(cred);
        client->respond(QByteArray());
        auto r1 = client->respond("nonce=\"" + nonce + "\",qop=\"auth\",charset=utf-8,algorithm=md5-sess,realm=\"" + realm + "\"");
        auto r2 = client->respond(s.final);
        bool ok = r1.has_value() && r2.has_value() == s.accept;
        printf("%-24s final challenge '%s' -> %s  (RFC 2831: %s)  %s\n", s.name, s.final.constData(), r2 ? "ACCEPTED" : "refused", s.accept ? "accept" : "refuse", ok ? "ok" : "POST=VIOLATED");
        if (!ok) bad++;
    }
    return bad ? 1 : 0;
}
