"""C07: lowering profile -- opaque strings/DOM (vlib/opaque_profile.py) + witness-key view of the request table,
promise/task/variant/any value models (units/C07/model.h)."""
import re
from vlib.cxx2c import Lowerer, Unsupported, strip_type, qt, dqt, SCALARS
from vlib.opaque_profile import opaque_profile

PAIR = r'std::pair<QString,(QXmpp::Private::)?IqState>'
CANON = [
    # every spelling of the table's iterator types clang prints (sugar, desugared node iterators, their common base)
    (re.compile(r'^(std::)?unordered_map<QString,(QXmpp::Private::)?IqState>::(const_)?iterator$'), 'umap_it'),
    (re.compile(r'^(std::__detail::)?_Node_(const_)?iterator(_base)?<' + PAIR + r'.*>$'), 'umap_it'),
    (re.compile(r'^(std::)?unordered_map<QString,(QXmpp::Private::)?IqState>$'), 'umap'),
    (re.compile(r'^(typename )?std::remove_reference<(std::)?unordered_map<QString,(QXmpp::Private::)?IqState>>::type$'), 'umap'),
    (re.compile(r'^(std::)?unordered_map<QString,(QXmpp::Private::)?IqState>::node_type$'), 'umap_node'),
    (re.compile(r'^(std::)?_Node_handle<QString,' + PAIR + r',.*>$'), 'umap_node'),
    (re.compile(r'^' + PAIR + r'$'), 'iqpair'),
    (re.compile(r'^std::pair<(std::__detail::_Node_iterator<' + PAIR + r',false,true>|iterator),bool>$'), 'umap_emplace_ret'),
    (re.compile(r'^QXmppPromise<(QXmpp::Private::IqResult|IqResult|std::variant<QDomElement,QXmppError>)>$'), 'qpromise'),
    (re.compile(r'^QXmppTask<(QXmpp::Private::IqResult|IqResult|QXmppOutgoingClient::IqResult|std::variant<QDomElement,QXmppError>)>$'), 'qtask'),
    (re.compile(r'^(QXmpp::Private::IqResult|IqResult|QXmppOutgoingClient::IqResult|std::variant<QDomElement,QXmppError>|(typename )?std::remove_reference<(std::)?variant<QDomElement,QXmppError>>::type)$'), 'IqResult'),
    (re.compile(r'^std::optional<(QXmppStanza::)?Error>$'), 'optErr'),
    (re.compile(r'^(QXmpp::SendResult|SendResult|(std::)?variant<(QXmpp::)?SendSuccess,QXmppError>|(typename )?std::remove_reference<(std::)?variant<(QXmpp::)?SendSuccess,QXmppError>>::type)$'), 'SendResult'),
    (re.compile(r'^QXmppTask<(QXmpp::SendResult|SendResult|std::variant<QXmpp::SendSuccess,QXmppError>)>$'), 'sendtask'),
    (re.compile(r'^(typename )?std::remove_reference<QXmppPacket>::type$'), 'QXmppPacket'),
    (re.compile(r'^(typename )?std::remove_reference<QXmppIq>::type$'), 'QXmppIq'),
    (re.compile(r'^(QXmppStanza::Error|Err|Error)$'), 'stanzaerr'),
]


class L07(Lowerer):
    """adds: canonical names for the libstdc++ iterator spellings; `a != b` rewritten by clang as !(a == b)"""
    TRANSPARENT = Lowerer.TRANSPARENT + ('CXXRewrittenBinaryOperator',)

    @staticmethod
    def canon(t):
        s = strip_type(t)
        ptr = ''
        while s.endswith('*'):
            s = s[:-1].strip()
            ptr += '*'
        for rx, name in CANON:
            if rx.match(s):
                return name + ptr
        return t

    def ctype(self, t, node=None):
        return super().ctype(self.canon(t) if t is not None else None, node)

    def tkey(self, n):
        for cand in (qt(n), dqt(n)):
            s = strip_type(self.canon(cand))
            base = s.rstrip('*')
            if base in self.p.types or base in SCALARS:
                return (self.p.types.get(base) or SCALARS.get(base)) + s[len(base):]
        return strip_type(qt(n))


# ---------------------------------------------------------------------------------------------------------- callable rules
def promise_finish(lw, node, args):
    """QXmppPromise<IqResult>::finish(U&&): the overload is chosen by the argument type, as in C++"""
    t = lw.tkey(lw.skip(node['inner'][1]))
    fn = {'QXmppError': 'qpromise_finish_error', 'qdom': 'qpromise_finish_element', 'IqResult': 'qpromise_finish_result'}.get(t)
    if fn is None:
        raise Unsupported('QXmppPromise::finish with argument type %s' % t)
    return '%s(%s)' % (fn, ', '.join(args))


def init_error(lw, n):
    """QXmppError { description, std::any(error) }"""
    if len(n['inner']) != 2:
        raise Unsupported('QXmppError initialiser with %d members' % len(n['inner']))
    d, a = n['inner']
    de = lw.expr(d)
    t = lw.newtmp()
    lw.pre.append('QXmppError %s; %s.description = %s;' % (t, t, de))
    a0 = lw.skip(a)
    if a0.get('kind') != 'CXXConstructExpr' or lw.ntype(a0) != 'qany':
        raise Unsupported('QXmppError::error initialised from %s' % a0.get('kind'))
    lw.construct(a0, '%s.error' % t)
    return t


def init_iqstate(lw, n):
    """IqState { promise, jid }"""
    if len(n['inner']) != 2:
        raise Unsupported('IqState initialiser with %d members' % len(n['inner']))
    p, j = n['inner']
    p0 = lw.skip(p)
    if p0.get('kind') != 'CXXConstructExpr' or [a for a in p0.get('inner', []) if a.get('kind') != 'CXXDefaultArgExpr']:
        raise Unsupported('IqState::interface is not default-constructed')
    je = lw.expr(j)
    t = lw.newtmp()
    lw.pre.append('IqState %s; qpromise_ctor(&%s.interface); %s.jid = %s;' % (t, t, t, je))
    return t


def decomposition_emplace(lw, v, sp):
    """auto [itr, success] = m.emplace(k, v)"""
    init = [c for c in v['inner'] if c.get('kind') not in ('BindingDecl',)][0]
    e = lw.expr(init)
    lw.flush(sp)
    name = '_d%d' % (len(lw.names) + 1)
    lw.names.add(name)
    lw.emit('%sumap_emplace_ret %s = %s;' % (sp, name, e))
    bind(lw, v, name, '.', {'itr': None, 'success': None}, ('umap_it', 'bool'))


def decomposition_element(lw, v, sp):
    """auto &[id, state] = *it   (element of the table)"""
    init = [c for c in v['inner'] if c.get('kind') not in ('BindingDecl',)][0]
    e = lw.addr(lw.skip(init))
    lw.flush(sp)
    name = '_d%d' % (len(lw.names) + 1)
    lw.names.add(name)
    lw.emit('%siqpair *%s = %s;' % (sp, name, e))
    bind(lw, v, name, '->', None, ('qstr', 'IqState'))


def bind(lw, v, name, acc, _unused, ctypes):
    fields = ('first', 'second')
    bs = [c for c in v['inner'] if c.get('kind') == 'BindingDecl']
    if len(bs) != 2:
        raise Unsupported('structured binding with %d names' % len(bs))
    for b, f, ct in zip(bs, fields, ctypes):
        # a binding is an alias of the member: register it as a "reference" local whose pointer is &obj.member
        lw.locals[b['id']] = ('&%s%s%s' % (name, acc, f), ct, True)
        lw.names.add(b['name'])


def rangefor_desugared(lw, n, rinit, lv, body, ind):
    """clang's own desugaring of the range-for, statement by statement: __range, __begin, __end, cond, ++__begin, loop variable"""
    init, rng, beg, end, cond, inc, lvd, body = n['inner']
    for s in (rng, beg, end):
        lw.stmt(s, ind)
    lw.loop(None, cond, inc, {'kind': 'CompoundStmt', 'inner': [lvd, body]}, ind)


def src_text(lw, n):
    """source text of node n (used where clang's JSON omits explicit template arguments)"""
    def loc(l):
        for k in ('expansionLoc', 'spellingLoc'):
            if k in l:
                return l[k]
        return l
    b, e = loc(n['range']['begin']), loc(n['range']['end'])
    if 'offset' not in b or 'offset' not in e:
        raise Unsupported('node without source offsets')
    data = open(lw.source_files[0], 'rb').read()
    return data[b['offset']:e['offset'] + e.get('tokLen', 0)].decode('utf-8', 'replace')


def variant_alternatives(lw, n):
    t = strip_type(dqt(n))
    m = re.match(r'^(?:std::)?variant<(.*)>$', t)
    if not m:
        raise Unsupported('not a variant: %s' % t)
    return [a.strip() for a in m.group(1).split(',')]


def holds_alternative(lw, node, args):
    """std::holds_alternative<T>(v): T is read from the source token (clang's JSON does not print explicit template arguments)"""
    txt = src_text(lw, node)
    m = re.match(r'^(?:std::)?holds_alternative\s*<\s*([\w:]+)\s*>\s*\(', txt)
    if not m:
        raise Unsupported('holds_alternative call not recognised in source: %r' % txt[:60])
    alts = variant_alternatives(lw, lw.skip(node['inner'][1]))
    want = m.group(1).split('::')[-1]
    idx = [i for i, a in enumerate(alts) if a.split('::')[-1] == want]
    if len(idx) != 1:
        raise Unsupported('alternative %s not found in %s' % (want, alts))
    return '((%s)->kind == %d)' % (args[0], idx[0])


def variant_get(lw, node, args):
    """std::get<QXmppError>(SendResult&&)"""
    if lw.tkey(node) != 'QXmppError' or lw.tkey(lw.skip(node['inner'][1])) != 'SendResult':
        raise Unsupported('std::get on %s' % lw.tkey(lw.skip(node['inner'][1])))
    alts = variant_alternatives(lw, lw.skip(node['inner'][1]))
    if alts.index('QXmppError') != 1:
        raise Unsupported('QXmppError is not alternative 1 of SendResult')
    return '(*SendResult_get_error(%s))' % args[0]


def lambda_token(lw, n):
    """a lambda passed as continuation: verified as its own target; here only a token (the `then` rule checks the captures)"""
    return '0 /*continuation*/'


def then_on_sent(lw, node, args):
    """m_streamAckManager.send(p).then(l, [this, id](SendResult) {...}):  the continuation is the separately lowered target
    OutgoingIqManager_sendIq_onSent(self, result, id); the captures must be exactly `this` and a copy of the parameter id"""
    lam = lw.skip(node['inner'][2])
    if lam.get('kind') != 'LambdaExpr':
        raise Unsupported('then() with a continuation that is not a lambda')
    caps = [lw.skip(c) for c in lam['inner'][1:-1]]
    if len(caps) != 2 or caps[0].get('kind') != 'CXXThisExpr':
        raise Unsupported('continuation of sendIq captures %d objects (expected this, id)' % len(caps))
    c1 = caps[1]
    while c1.get('kind') in ('CXXConstructExpr',) and len(c1.get('inner', [])) == 1:
        c1 = lw.skip(c1['inner'][0])
    if c1.get('kind') != 'DeclRefExpr' or c1['referencedDecl'].get('kind') != 'ParmVarDecl':
        raise Unsupported('continuation of sendIq does not capture a parameter by copy')
    return 'sendIq_onSent_then(%s, self, %s)' % (args[0], lw.expr(c1))


def method_ret(cname, ctype):
    """call of a lowered member function that returns a class by value: the lowered signature is f(self, &ret, args...)"""
    def rule(lw, node, args):
        lw.repo_callees.add(cname)
        t = lw.newtmp()
        lw.pre.append('%s %s; %s(%s, &%s%s);' % (ctype, t, cname, args[0], t, ''.join(', ' + a for a in args[1:])))
        return t
    return rule


def umap_move_construct(lw, n, target):
    """std::unordered_map move construction `auto x = std::move(m)`: only from an explicit std::move of an lvalue"""
    args = [a for a in n.get('inner', []) if a.get('kind') != 'CXXDefaultArgExpr']
    a0 = lw.skip(args[0]) if len(args) == 1 else {}
    if a0.get('kind') != 'CallExpr' or lw.callee_ref(a0).get('name') != 'move':
        raise Unsupported('copy construction of the request table (only std::move of a table is modelled)')
    src = lw.addr(lw.skip(a0['inner'][1]))
    dst = target or lw.newtmp()
    if not target:
        lw.pre.append('umap %s;' % dst)
    lw.pre.append('umap_move_ctor(&%s, %s);' % (dst, src))
    return dst


def umap_extract(lw, node, args):
    """m.extract(iterator) -> node handle (the key overload is not modelled)"""
    if lw.tkey(lw.skip(node['inner'][1])) != 'umap_it':
        raise Unsupported('unordered_map::extract(key) (only extract(iterator) is modelled)')
    t = lw.newtmp()
    lw.pre.append('umap_node %s; umap_extract(&%s, %s);' % (t, t, ', '.join(args)))
    return t


def profile():
    p = opaque_profile(
        types={'umap_it': 'umap_it', 'umap': 'umap', 'umap_node': 'umap_node', 'iqpair': 'iqpair', 'umap_emplace_ret': 'umap_emplace_ret', 'qpromise': 'qpromise', 'qtask': 'qtask',
               'IqResult': 'IqResult', 'optErr': 'optErr', 'stanzaerr': 'stanzaerr', 'std::any': 'qany', 'QXmppError': 'QXmppError', 'QXmppIq': 'QXmppIq',
               'QXmpp::Private::IqState': 'IqState', 'IqState': 'IqState',
               'std::unordered_map<QString,IqState>': 'umap', 'std::unordered_map<QString,QXmpp::Private::IqState>': 'umap',
               'QXmpp::Private::OutgoingIqManager': 'OutgoingIqManager', 'OutgoingIqManager': 'OutgoingIqManager',
               'QXmpp::Private::SessionBegin': 'SessionBegin', 'QXmpp::Private::SessionEnd': 'SessionEnd',
               'QXmppPacket': 'QXmppPacket', 'QXmpp::Private::StreamAckManager': 'StreamAckManager', 'StreamAckManager': 'StreamAckManager',
               'SendResult': 'SendResult', 'sendtask': 'sendtask', 'QXmppLoggable': 'void', 'QObject': 'void',
               'QXmppOutgoingClient': 'QXmppOutgoingClient', 'QXmppOutgoingClientPrivate': 'QXmppOutgoingClientPrivate',
               'std::unique_ptr<QXmppOutgoingClientPrivate>': 'QXmppOutgoingClientPrivate*', 'std::unique_ptr<QXmppOutgoingClientPrivate>::pointer': 'QXmppOutgoingClientPrivate*',
               'QXmpp::SendError': 'int', 'QXmppStanza::Error::Type': 'int', 'QXmppStanza::Error::Condition': 'int'},
        class_types={'umap', 'umap_node', 'iqpair', 'umap_emplace_ret', 'qpromise', 'qtask', 'IqResult', 'optErr', 'qany', 'QXmppError', 'QXmppIq', 'IqState',
                     'OutgoingIqManager', 'SessionBegin', 'SessionEnd', 'QXmppPacket', 'StreamAckManager', 'SendResult', 'sendtask',
                     'QXmppOutgoingClient', 'QXmppOutgoingClientPrivate'},
        calls={
            # the table
            'umap::find/1': ('fn', 'umap_find'),
            'umap::end/0': ('fn', 'umap_end'),
            'umap::begin/0': ('fn', 'umap_begin'),
            'umap::erase/1': ('fn', 'umap_erase'),
            'umap::clear/0': ('fn', 'umap_clear'),
            'umap::extract/1': umap_extract,
            'umap_node::mapped/0': ('expr', '*umap_node_mapped({0})'),
            'umap_node::key/0': ('expr', 'umap_node_key({0})'),
            'umap_node::empty/0': ('expr', '!({0})->has'),
            'umap::emplace/2': ('fnret', 'umap_emplace', 'umap_emplace_ret'),
            'op==:umap_it:umap_it': ('expr', '{0} == {1}'),
            'op->:umap_it': ('expr', '{0}'),
            'op*:umap_it': ('expr', '(*{0})'),
            'op++:umap_it': ('expr', '{v0} = umap_next({v0})'),
            'rangefor:umap': rangefor_desugared,
            'ctor:umap(umap)': umap_move_construct,
            'ctor:umap()': ('fn', 'umap_ctor'),
            'decomposition:std::pair<iterator,bool>': decomposition_emplace,
            'decomposition:std::pair<QString,QXmpp::Private::IqState>': decomposition_element,
            'expr:InitListExpr:IqState': init_iqstate,
            # promise / task / values
            'qpromise::finish/1': promise_finish,
            'qpromise::task/0': ('fnret', 'qpromise_task', 'qtask'),
            'qtask::isFinished/0': ('fn', 'qtask_isFinished'),
            'fn:makeReadyTask/1': ('fnret', 'makeReadyTask', 'qtask'),
            'ctor:IqResult(QXmppError)': ('fn', 'IqResult_from_error'),
            'expr:InitListExpr:QXmppError': init_error,
            'ctor:qany(int)': ('init', '{{ANY_SENDERROR, {0}}}'),
            'ctor:qany(stanzaerr)': ('init', '{{ANY_STANZAERROR, {0}}}'),
            'ctor:stanzaerr(int,int)': ('fn', 'stanzaerr_make'),
            'op->:optErr': ('expr', '&{v0}.v'),
            'op*:optErr': ('expr', '{v0}.v'),
            'optErr::operator bool/0': ('expr', '({0})->has'),
            'stanzaerr::text/0': ('expr', 'stanzaerr_text(*{0})'),
            # QXmppIq (parser not verified here)
            'ctor:QXmppIq()': ('fn', 'QXmppIq_ctor'),
            'QXmppIq::parse/1': ('fn', 'QXmppIq_parse'),
            'QXmppIq::errorOptional/0': ('fnret', 'QXmppIq_errorOptional', 'optErr'),
            'QXmppIq::id/0': ('field', 'id'),
            'QXmppIq::to/0': ('field', 'to'),
            'QXmppIq::setId/1': ('expr', '{0}->id = {1}'),
            'fn:generateStanzaUuid/0': ('fn', 'generateStanzaUuid'),
            'ctor:QXmppPacket(QXmppIq)': ('fn', 'QXmppPacket_from_iq'),
            # send path (models with assumed contracts, units/C07/model_send.h)
            'StreamAckManager::send/1': ('fnret', 'StreamAckManager_send', 'sendtask'),
            'sendtask::then/2': then_on_sent,
            'expr:LambdaExpr': lambda_token,
            'fn:holds_alternative/1': holds_alternative,
            'fn:get/1': variant_get,
            'op->:QXmppOutgoingClientPrivate*': ('expr', '{0}'),
            '*::jidBare/0': ('const', 'gh_cfg_jidBare'),
            'OutgoingIqManager::sendIq/3': method_ret('OutgoingIqManager_sendIq_packet', 'qtask'),
            'OutgoingIqManager::sendIq/2': method_ret('OutgoingIqManager_sendIq_iq', 'qtask'),
            'StreamAckManager::resetCache/0': ('callee', 'StreamAckManager_resetCache'),
            # repository callees of the same class (each is verified under its own contract)
            'OutgoingIqManager::hasId/1': ('callee', 'OutgoingIqManager_hasId'),
            'OutgoingIqManager::isIdValid/1': ('callee', 'OutgoingIqManager_isIdValid'),
            'OutgoingIqManager::cancelAll/0': ('callee', 'OutgoingIqManager_cancelAll'),
            'OutgoingIqManager::start/2': method_ret('OutgoingIqManager_start', 'qtask'),
            'OutgoingIqManager::finish/2': ('callee', 'OutgoingIqManager_finish'),
        },
    )
    p.field_rules['OutgoingIqManager::l'] = '0 /* context object of the continuation: the logger l */'
    p.pure_fns |= {'config', 'jidBare'}
    return p
