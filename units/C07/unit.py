"""C07 -- every request completes exactly once, and only by a reply from the entity asked."""
import os
from vlib.unit import Builder, Target, VERIF, scan_assumes
from vlib.runner import Proof
from vlib import ctx
from vlib.configure import REPO
from vlib import astx
from vlib.cxx2c import Unsupported, apply_splices
import hashlib, re
from profile import profile, L07

SRC = 'src/client/QXmppOutgoingClient.cpp'
QT = os.path.join(VERIF, 'qtmodel')
HERE = os.path.dirname(os.path.abspath(__file__))
CLS = 'OutgoingIqManager'


def rd(name):
    return open(os.path.join(HERE, name)).read()


HAVOC_GHOST = '''  gh_it_others = nondet_long(); gh_it_w = nondet_bool();
  gh_sent = nondet_int(); gh_cont_registered = nondet_int(); gh_cont_id = nondet_qstr();
  g_wid = nondet_qstr(); g_wgen = nondet_int(); gh_gen_ctr = nondet_int(); gh_reentrant = nondet_bool(); gh_completions = nondet_int(); gh_others_completed = nondet_int();
  gh_value.kind = nondet_int(); gh_value.el = nondet_int(); gh_value.err.description = nondet_qstr(); gh_value.err.error.kind = nondet_int(); gh_value.err.error.val = nondet_int();
  gh_other.first = nondet_qstr(); gh_other.second.jid = nondet_qstr(); gh_other.second.interface.gh_is_w = nondet_bool(); gh_other.second.interface.gh_gen = nondet_int(); gh_other.second.interface.finished = nondet_bool();
'''


REENTRANT_POSTS = ('post.request_started_by_a_continuation_during_cancellation_stays_pending_in_the_table',
                   'post.new_session_keeps_a_request_started_by_a_continuation_pending', 'post.final_close_keeps_a_request_started_by_a_continuation_pending')


WRONG_SENDER_POSTS = ('post.not_handled_leaves_table_and_completions_unchanged', 'post.request_leaves_the_table_only_by_being_completed_exactly_once',
                      'post.no_request_taken_out_of_the_table_is_destroyed_unfinished', 'post.handled_iff_response_with_pending_id_from_addressee_or_server')
DRIVERS = {'reentrant': ('replay_reentrant_cancel.cpp', 'request "first" pending; its continuation calls start("retry", "example.org"); onSessionOpened(smResumed=false)'),
           'wrong_sender': ('replay_wrong_sender.cpp', 'request (id "req1", addressee "server.example") pending; <iq type="result" id="req1" from="stranger@evil.example/x"/> received')}


def find_input(unit, p, o, lab, work):
    """obligations with one canonical concrete scenario are replayed on the real library built from the working tree"""
    which = 'reentrant' if lab in REENTRANT_POSTS else 'wrong_sender' if (lab in WRONG_SENDER_POSTS and p.id.endswith('handleStanza')) else None
    if which is None:
        return None
    from vlib import native
    drv, scenario = DRIVERS[which]
    rc, out = native.run_driver(os.path.join(HERE, drv))
    return {'inputs': {'scenario': scenario, 'driver': 'units/C07/' + drv}, 'reproduced': rc == 0, 'native_output': out[-1500:]}


def native_replay(rp):
    from vlib import native
    drv = (rp.get('inputs') or {}).get('driver', 'units/C07/replay_reentrant_cancel.cpp')
    rc, out = native.run_driver(os.path.join(VERIF, drv))
    return rc == 0, out


def lower_lambda(b, prof, method, sig, ordinal, cname, spec):
    """lower the body of the `ordinal`-th lambda of OutgoingIqManager::<method> as a C function of its own:
    `this` capture -> self, by-copy captures of outer parameters -> extra parameters (same names)"""
    src = os.path.join(REPO, SRC)
    d = astx.find_function(src, CLS + '::' + method, method, None, sig)
    lams = []

    def visit(n):
        if isinstance(n, dict):
            if n.get('kind') == 'LambdaExpr':
                lams.append(n)
                return
            for c in n.get('inner', []):
                visit(c)
    visit(d)
    if len(lams) <= ordinal:
        raise Unsupported('%s has %d lambdas, continuation #%d not found' % (method, len(lams), ordinal))
    lam = lams[ordinal]
    rec = lam['inner'][0]
    ops = [c for c in rec.get('inner', []) if c.get('kind') == 'CXXMethodDecl' and c.get('name') == 'operator()']
    if len(ops) != 1:
        raise Unsupported('lambda without a single operator()')
    lw = L07(ops[0], cname, prof, this_type=CLS)
    lw.source_files = [src]
    extra = []
    for c in lam['inner'][1:-1]:
        c0 = lw.skip(c)
        if c0.get('kind') == 'CXXThisExpr':
            continue
        while c0.get('kind') == 'CXXConstructExpr' and len(c0.get('inner', [])) == 1:
            c0 = lw.skip(c0['inner'][0])
        if c0.get('kind') != 'DeclRefExpr' or c0['referencedDecl'].get('kind') != 'ParmVarDecl':
            raise Unsupported('lambda capture that is not `this` or a copy of a parameter')
        rdl = c0['referencedDecl']
        ct = lw.ctype(rdl['type']['qualType'])
        lw.locals[rdl['id']] = (rdl['name'], ct, False)
        lw.names.add(rdl['name'])
        extra.append('%s %s' % (ct, rdl['name']))
    text = lw.lower(extra)
    # the closure object is const, the captured `this` is not
    text = text.replace('const %s *self' % CLS, '%s *self' % CLS, 1)
    for k, v in lw.fired.items():
        b.fired[k] = b.fired.get(k, 0) + v
    for dr in lw.dropped:
        b.dropped.append(dict(dr, function=cname))
    for et, names in lw.need_enums.items():
        b.need_enums.setdefault((src, ()), {}).setdefault(et, set()).update(names)
    text = apply_splices(text, spec.contract, spec.loops)
    text = re.sub(r'/\*@(CONTRACT|LOOP\d+)@\*/\n?', '', text)
    bl, el = astx.src_range(lam)
    b.functions.append({'function': '%s::%s::<lambda #%d>' % (CLS, method, ordinal), 'cname': cname, 'file': SRC, 'lines': [bl, el], 'ast_hash': astx.node_hash(lam),
                        'lowered_c_sha': hashlib.sha256(text.encode()).hexdigest()[:16], 'loops': lw.loops, 'rules_fired': len(lw.fired), 'calls_dropped': len(lw.dropped)})
    return text


def build(work, tier):
    prof = profile()
    b = Builder('C07', work, prof)
    proofs = []
    lowered = {}

    def lower(method, cname, specf, **kw):
        sp = b.spec(specf)
        txt = b.lower(Target(SRC, CLS + '::' + method, method, cname, this=CLS, parent=None, lowerer_cls=L07, **kw), sp)
        lowered[cname] = (sp, txt)
        return sp, txt

    for m in ('handleStanza', 'hasId', 'isIdValid', 'start', 'finish', 'cancelAll', 'onSessionOpened', 'onSessionClosed'):
        lower(m, 'OutgoingIqManager_' + m, m + '.spec')

    M = 'OutgoingIqManager_'
    sp = b.spec('sendIq_onSent.spec')
    lowered[M + 'sendIq_onSent'] = (sp, lower_lambda(b, prof, 'sendIq', 'QXmppPacket', 0, M + 'sendIq_onSent', sp))
    lower('sendIq', M + 'sendIq_packet', 'sendIq_packet.spec', sig='QXmppPacket')
    lower('sendIq', M + 'sendIq_iq', 'sendIq_iq.spec', sig='QXmppIq')

    CL = 'QXmppOutgoingClient'
    for nm, mth, specf in ((CL + '_sendIq', 'sendIq', 'client_sendIq.spec'), (CL + '_dtor', '~' + CL, 'client_dtor.spec')):
        sp = b.spec(specf)
        lowered[nm] = (sp, b.lower(Target(SRC, CL + '::' + mth, mth, nm, this=CL, parent=None, lowerer_cls=L07), sp))

    rec, fields = ctx.emit_record(os.path.join(REPO, SRC), CLS, CLS, CLS, prof, opaque_ok=True)
    if 'm_requests' not in fields:
        raise Exception('OutgoingIqManager has no member m_requests')
    recs = rec + '\n'
    for st in ('SessionBegin', 'SessionEnd'):
        r_, f_ = ctx.emit_record(os.path.join(REPO, SRC), st, st, st, prof, opaque_ok=True)
        recs += r_ + '\n'
    recs += 'typedef struct %s %s;\n' % (CL, CL)
    for st in (CL + 'Private', CL):
        r_, f_ = ctx.emit_record(os.path.join(REPO, SRC), st, st, st, prof, opaque_ok=True)
        if st == CL + 'Private' and not {'iqManager', 'streamAckManager'} <= set(f_):
            raise Unsupported('QXmppOutgoingClientPrivate lost iqManager / streamAckManager')
        recs += r_ + '\n'
    model = b.subst(rd('model.h'))
    defs = b.subst(rd('specdefs.h'))
    head = '#include "opaque.h"\n' + prof.literal_ids.table() + b.context() + '\n' + model + b.subst(rd('model_send.h')) + recs + defs
    then_model = b.prototype(lowered[M + 'sendIq_onSent'][1]) + rd('model_then.h')

    def proof(cname, harness_args, decls, replace=(), kind='complete', pre='', **kw):
        sp, txt = lowered[cname]
        # a callee the current body no longer calls cannot be replaced (goto-instrument would stop): the proof then runs without it
        body = txt[txt.index('\n{'):] + pre
        replace = [r for r in replace if re.search(r'\b%s\(' % re.escape(r), body)]
        protos = ''.join(b.prototype(lowered[r][1]) for r in replace if r in lowered and b.prototype(lowered[r][1]) not in pre) + pre
        c = head + protos + txt + '\nvoid h_%s(void) {\n%s  %s\n  %s(%s);\n}\n' % (cname, HAVOC_GHOST, decls, cname, harness_args)
        f = b.write(cname + '.c', c)
        p = Proof(cname, f, 'h_' + cname, enforce=cname, replace=list(replace), kind=kind, include_dirs=[QT], timeout=600, object_bits=8,
                  loop_contracts=(kind == 'contract'), **kw)
        p.labels = {'post': {cname: sp.labels}, 'inv': {cname: sp.inv_labels.get(0, [])}}
        p.expect_post = len(sp.labels)
        proofs.append(p)
        return p

    proof('OutgoingIqManager_handleStanza', 'self, stanza', 'OutgoingIqManager *self; qdom stanza;',
          note='loop-free; every element, every sender/id/type string (opaque), table seen through an arbitrary witness id')
    proof(M + 'hasId', 'self, id', 'const OutgoingIqManager *self; qstr id;', note='loop-free')
    proof(M + 'isIdValid', 'self, id', 'const OutgoingIqManager *self; qstr id;', replace=[M + 'hasId'], note='loop-free; hasId by contract')
    proof(M + 'start', 'self, _ret, id, to', 'OutgoingIqManager *self; qtask *_ret; qstr id; qstr to;', replace=[M + 'isIdValid'], note='loop-free; isIdValid by contract')
    proof(M + 'finish', 'self, id, result', 'OutgoingIqManager *self; qstr id; IqResult *result;', note='loop-free')
    reenter = b.prototype(lowered[M + 'start'][1]) + rd('model_reenter.h')
    proof(M + 'cancelAll', 'self', 'OutgoingIqManager *self; gh_iqm_reenter = self;', kind='contract', expect_loops=1, replace=[M + 'start'], pre=reenter,
          defines=['REENTRANT_CONTINUATIONS'],
          note='table of any size: the loop over all pending requests is closed by a loop contract (witness visited at an arbitrary position); '
               'continuations run by finish() may start new requests (OutgoingIqManager::start by its verified contract)')
    proof(M + 'onSessionOpened', 'self, session', 'OutgoingIqManager *self; const SessionBegin *session; gh_iqm_reenter = self;', replace=[M + 'cancelAll'], note='loop-free; cancelAll by contract')
    proof(M + 'onSessionClosed', 'self, session', 'OutgoingIqManager *self; const SessionEnd *session; gh_iqm_reenter = self;', replace=[M + 'cancelAll'], note='loop-free; cancelAll by contract')
    proof(M + 'sendIq_onSent', 'self, result, id', 'OutgoingIqManager *self; SendResult *result; qstr id;', replace=[M + 'finish'],
          note='continuation attached to the send task in sendIq(QXmppPacket&&, id, to); finish by contract')
    proof(M + 'sendIq_packet', 'self, _ret, packet, id, to', 'OutgoingIqManager *self; qtask *_ret; QXmppPacket *packet; qstr id; qstr to;',
          replace=[M + 'start', M + 'sendIq_onSent'], pre=then_model, defines=[],
          note='loop-free; start and the send continuation by contract; the continuation may run at once (send already failed)')
    proof(M + 'sendIq_iq', 'self, _ret, iq, to', 'OutgoingIqManager *self; qtask *_ret; QXmppIq *iq; qstr to;', replace=[M + 'hasId', M + 'sendIq_packet'],
          note='loop-free; hasId and sendIq(QXmppPacket&&, id, to) by contract')
    proof(CL + '_sendIq', 'self, _ret, iq', 'QXmppOutgoingClient *self; qtask *_ret; QXmppIq *iq; gh_cfg_jidBare = nondet_qstr();', replace=[M + 'sendIq_iq'],
          note='loop-free; OutgoingIqManager::sendIq(QXmppIq&&, to) by contract; own bare JID is an arbitrary (possibly empty) string')
    proof(CL + '_dtor', 'self', 'QXmppOutgoingClient *self; gh_iqm = nondet_iqm(); gh_iqm_reenter = gh_iqm;', replace=[M + 'cancelAll', 'StreamAckManager_resetCache'], pre=rd('model_reset.h'),
          note='loop-free; cancelAll by (verified) contract, StreamAckManager::resetCache by an assumed contract')
    # ---------------------------------------------------------------- lemma: exactly-once invariant, from the contracts alone
    ops = [M + m for m in ('start', 'finish', 'handleStanza', 'cancelAll', 'onSessionOpened', 'onSessionClosed', 'hasId', 'isIdValid', 'sendIq_onSent', 'sendIq_packet', 'sendIq_iq')]
    lem = b.subst(rd('lemma.h'))
    f = b.write('lemma.c', head + ''.join(b.prototype(lowered[o][1]) for o in ops) + lem)
    p = Proof('lemma_exactly_once', f, 'h_lemma', enforce=None, replace=ops, kind='complete', include_dirs=[QT], timeout=600, object_bits=9, loop_contracts=False,
              note='inductive invariant over the contracts of all table operations (bodies replaced by contracts): base case + one arbitrary step')
    p.labels = {}
    p.expect_post = lem.count('"[lemma.')
    proofs.append(p)
    # ---------------------------------------------------------------- QXmppClient::sendSensitiveIq / sendIq (client.py)
    import client
    cu = client.build_client(work, tier)
    proofs.extend(cu['proofs'])
    b.functions.extend(cu['functions'])
    b.dropped.extend(cu['dropped'])
    for k_, v_ in cu['fired'].items():
        b.fired[k_] = b.fired.get(k_, 0) + v_
    if tier == 'thorough':
        # second SAT back end (CBMC's built-in minisat) on the central contracts and the lemma
        import copy
        for q in [q for q in proofs if q.id in (M + 'handleStanza', M + 'start', M + 'cancelAll', 'lemma_exactly_once')]:
            q2 = copy.copy(q)
            q2.id = q.id + '_minisat'
            q2.solver = []
            q2.result = None
            q2.note = q.note + ' (cross-check with the built-in minisat back end)'
            proofs.append(q2)
    return {
        'proofs': proofs, 'functions': b.functions, 'dropped': b.dropped, 'fired': b.fired, 'hooks': [],
        'assumed': ['A-UMAP witness-key view of std::unordered_map<QString, IqState>: find/emplace/erase/clear/iteration have their container meaning on one arbitrary key, other keys unconstrained (units/C07/model.h)',
                    'A-PROMISE QXmppPromise<IqResult>::finish completes the task once per call (ghost counter for the promise registered under the witness id); task() is a handle on the same state; makeReadyTask is a finished task (QXmppPromise/QXmppTask are C13)',
                    'A-DOM abstract DOM, opaque-string axioms: equality only (qtmodel/opaque.h)',
                    'QXmppIq::parse / errorOptional / id / to / setId: whether an <error/> was parsed and its value are functions of the element; getters/setters of plain fields (parser not verified here)',
                    'A-SEND StreamAckManager::send hands exactly that packet to the stream and returns a task that is finished already or later (C09); A-THEN QXmppTask::then runs the continuation at once iff the task is already finished (C13) (units/C07/model_send.h)',
                    'A-RESETCACHE StreamAckManager::resetCache only runs send continuations (assumed contract in units/C07/model_reset.h; used by the destructor proof only)',
                    'QXmppConfiguration::jidBare() is a pure getter of the configured own bare JID; QXmppUtils::generateStanzaUuid() returns some non-empty string',
                    'continuations run by QXmppPromise::finish are modelled as callbacks that may start one new request (OutgoingIqManager::start, by its verified contract) in cancelAll and, through its contract, in onSessionOpened / onSessionClosed / ~QXmppOutgoingClient / the lemma; in handleStanza, finish and the send continuation they are not modelled (see not_covered)',
                    'node handles: unordered_map::extract(iterator) moves exactly that element into the handle, which is destroyed (with the IqState and its promise) when the function under contract returns; one handle per call; extract(key) / insert(node) are not modelled (units/C07/model.h)',
                    'A-UMAP-MOVE move construction of the table transfers all elements and leaves the source empty (units/C07/model.h)',
                    'client part (units/C07/client.h): A-E2EE QXmppE2eeExtension::encryptIq / decryptIq return a task that finishes once with one alternative of its result variant; A-RAW QXmppOutgoingClient::sendIq returns the task of the raw request; A-THEN QXmppTask::then stores the continuation and runs it once when the task finishes (C13); std::visit(overloaded{...}) runs the arm of the alternative held (structure checked: one arm per alternative); the promise is a ghost finished/handed-on counter',
                    'logging (warning()) dropped by the lowering after a purity check of its arguments'],
        'assumes': scan_assumes(rd('model.h') + rd('model_send.h') + rd('model_reenter.h') + rd('lemma.h') + open(os.path.join(QT, 'opaque.h')).read()),
        'not_covered': ['the typed continuation chain chainIq/chain in src/base/QXmppFutureUtils_p.h (deep templates), hence QXmppClient::sendGenericIq and the managers\' typed request APIs built on it',
                        'per-manager pending maps of multi-stanza requests (MAM, PubSub, Discovery), including the MAM + encryption non-completion named in the property',
                        'the send-error path inside StreamAckManager (C09); only its effect through the continuation attached in sendIq is verified',
                        'continuations that call back into the table during handleStanza / finish / the send continuation (m_requests.erase(itr) after promise.finish: iterator invalidation by rehash has no observable failure on libstdc++; a re-entrant start with the same id is rejected while the entry is still there), not modelled',
                        'a request started by a continuation while ~QXmppOutgoingClient runs stays in the table and is destroyed with it (the destructor contract says only such a request can be left)',
                        'liveness of the network: a request with no qualifying reply and no session end stays pending (by design of the property)',
                        'Qt 6 branches, BUILD_OMEMO / E2EE decryption of IQ responses'],
        'explanation': 'Witness view: every contract is stated for one arbitrary request -- the g_wgen-th request registered under the arbitrary id g_wid, both chosen by the harness and never assigned; since they are arbitrary the facts hold for every request of every id, and "requests with other ids are untouched" is the same fact read from the other side. Generations make id reuse explicit (a request cancelled in the detached table and a new one with the same id in the live table are different requests).',
    }
