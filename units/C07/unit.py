"""C07 -- every request completes exactly once, and only by a reply from the entity asked."""
import os
from vlib.unit import Builder, Target, VERIF, scan_assumes
from vlib.runner import Proof
from vlib import ctx
from vlib.configure import REPO
from profile import profile, L07

SRC = 'src/client/QXmppOutgoingClient.cpp'
QT = os.path.join(VERIF, 'qtmodel')
HERE = os.path.dirname(os.path.abspath(__file__))
CLS = 'OutgoingIqManager'


def rd(name):
    return open(os.path.join(HERE, name)).read()


HAVOC_GHOST = '''  g_wid = nondet_qstr(); gh_completions = nondet_int(); gh_started = nondet_bool(); gh_others_completed = nondet_int();
  gh_value.kind = nondet_int(); gh_value.el = nondet_int(); gh_value.err.description = nondet_qstr(); gh_value.err.error.kind = nondet_int(); gh_value.err.error.val = nondet_int();
  gh_other.first = nondet_qstr(); gh_other.second.jid = nondet_qstr(); gh_other.second.interface.gh_is_w = nondet_bool(); gh_other.second.interface.finished = nondet_bool();
'''


def build(work, tier):
    prof = profile()
    b = Builder('C07', work, prof)
    proofs = []
    lowered = {}

    def lower(method, cname, specf, **kw):
        sp = b.spec(specf)
        txt = b.lower(Target(SRC, CLS + '::' + method, method, cname, this=CLS, parent=None, lowerer_cls=L07, **kw), sp)
        lowered[cname] = (sp, txt)
        return sp, txt

    for m in ('handleStanza', 'hasId', 'isIdValid', 'start', 'finish', 'cancelAll', 'onSessionOpened', 'onSessionClosed'):
        lower(m, 'OutgoingIqManager_' + m, m + '.spec')

    rec, fields = ctx.emit_record(os.path.join(REPO, SRC), CLS, CLS, CLS, prof, opaque_ok=True)
    if 'm_requests' not in fields:
        raise Exception('OutgoingIqManager has no member m_requests')
    recs = rec + '\n'
    for st in ('SessionBegin', 'SessionEnd'):
        r_, f_ = ctx.emit_record(os.path.join(REPO, SRC), st, st, st, prof, opaque_ok=True)
        recs += r_ + '\n'
    model = b.subst(rd('model.h'))
    defs = b.subst(rd('specdefs.h'))
    head = '#include "opaque.h"\n' + prof.literal_ids.table() + b.context() + '\n' + model + recs + defs

    def proof(cname, harness_args, decls, replace=(), kind='complete', **kw):
        sp, txt = lowered[cname]
        protos = ''.join(b.prototype(lowered[r][1]) for r in replace)
        c = head + protos + txt + '\nvoid h_%s(void) {\n%s  %s\n  %s(%s);\n}\n' % (cname, HAVOC_GHOST, decls, cname, harness_args)
        f = b.write(cname + '.c', c)
        p = Proof(cname, f, 'h_' + cname, enforce=cname, replace=list(replace), kind=kind, include_dirs=[QT], timeout=600,
                  loop_contracts=(kind == 'contract'), **kw)
        p.labels = {'post': {cname: sp.labels}, 'inv': {cname: sp.inv_labels.get(0, [])}}
        p.expect_post = len(sp.labels)
        proofs.append(p)
        return p

    proof('OutgoingIqManager_handleStanza', 'self, stanza', 'OutgoingIqManager *self; qdom stanza;',
          note='loop-free; every element, every sender/id/type string (opaque), table seen through an arbitrary witness id')
    M = 'OutgoingIqManager_'
    proof(M + 'hasId', 'self, id', 'const OutgoingIqManager *self; qstr id;', note='loop-free')
    proof(M + 'isIdValid', 'self, id', 'const OutgoingIqManager *self; qstr id;', replace=[M + 'hasId'], note='loop-free; hasId by contract')
    proof(M + 'start', 'self, _ret, id, to', 'OutgoingIqManager *self; qtask *_ret; qstr id; qstr to;', replace=[M + 'isIdValid'], note='loop-free; isIdValid by contract')
    proof(M + 'finish', 'self, id, result', 'OutgoingIqManager *self; qstr id; IqResult *result;', note='loop-free')
    proof(M + 'cancelAll', 'self', 'OutgoingIqManager *self;', kind='contract', expect_loops=1,
          note='table of any size: the loop over all pending requests is closed by a loop contract (witness visited at an arbitrary position)')
    proof(M + 'onSessionOpened', 'self, session', 'OutgoingIqManager *self; const SessionBegin *session;', replace=[M + 'cancelAll'], note='loop-free; cancelAll by contract')
    proof(M + 'onSessionClosed', 'self, session', 'OutgoingIqManager *self; const SessionEnd *session;', replace=[M + 'cancelAll'], note='loop-free; cancelAll by contract')
    return {
        'proofs': proofs, 'functions': b.functions, 'dropped': b.dropped, 'fired': b.fired, 'hooks': [],
        'assumed': ['A-UMAP witness-key view of std::unordered_map<QString, IqState> (units/C07/model.h)',
                    'A-PROMISE QXmppPromise<IqResult>::finish completes the task once per call; task() is a handle on the same state (QXmppPromise itself is C13)',
                    'A-DOM abstract DOM, opaque-string axioms: equality only (qtmodel/opaque.h)',
                    'QXmppIq::parse / errorOptional: whether an <error/> was parsed and its value are functions of the element (parser not verified here)'],
        'assumes': scan_assumes(rd('model.h') + open(os.path.join(QT, 'opaque.h')).read()),
        'not_covered': [],
    }
