/* units/C07/lemma.h -- the exactly-once lemma, proved from the CONTRACTS of the table operations alone
 * (every callee below is replaced by its contract; each contract is enforced against the real body in its own proof).
 *
 *   Inv  :=  0 <= completions <= 1  /\  (request in table  <=>  started /\ completions = 0)  /\  (not started => completions = 0)
 *            /\  (an entry under the id => id != "" /\ addressee != "" /\ 1 <= its generation <= number registered so far)
 *
 * for the arbitrary witness REQUEST = the g_wgen-th request registered under the arbitrary id g_wid (hence for every request
 * of every id; an id may be reused once its request has left the table, the new request is the next generation).
 * cancelAll / onSession* are used through contracts that allow continuations to start new requests while they run.
 * Base case: the empty table.  Step: one arbitrary operation with arbitrary arguments from an arbitrary Inv-state. */
void h_lemma(void)
{
  OutgoingIqManager mgr;
  OutgoingIqManager *self = &mgr;
  /* ---- base case: a freshly constructed manager has an empty table, nothing was started */
  g_wid = nondet_qstr(); g_wgen = nondet_int(); gh_reentrant = nondet_bool(); gh_iqm_reenter = self;
  __CPROVER_assume(g_wgen >= 1);
  mgr.m_requests.w_present = false; gh_gen_ctr = 0; gh_completions = 0;
  __CPROVER_assert(INV(self), "[lemma.base_empty_table_satisfies_invariant] Inv holds for the empty table");

  /* ---- step: arbitrary state satisfying Inv and the view's representation invariant */
  mgr.m_requests.w_present = nondet_bool(); mgr.m_requests.w.first = g_wid; mgr.m_requests.w.second.jid = nondet_qstr();
  mgr.m_requests.w.second.interface.gh_is_w = true; mgr.m_requests.w.second.interface.gh_gen = nondet_int(); mgr.m_requests.w.second.interface.finished = false;
  gh_other.first = nondet_qstr(); gh_other.second.jid = nondet_qstr(); gh_other.second.interface.gh_is_w = false; gh_other.second.interface.gh_gen = 0; gh_other.second.interface.finished = nondet_bool();
  gh_gen_ctr = nondet_int(); gh_completions = nondet_int(); gh_others_completed = nondet_int();
  gh_value.kind = nondet_int(); gh_value.el = nondet_int(); gh_value.err.description = nondet_qstr(); gh_value.err.error.kind = nondet_int(); gh_value.err.error.val = nondet_int();
  __CPROVER_assume(0 <= gh_others_completed && gh_others_completed <= 1000 && gh_gen_ctr < 998);
  __CPROVER_assume(INV(self));

  bool present0 = mgr.m_requests.w_present; qstr jid0 = mgr.m_requests.w.second.jid; int c0 = gh_completions; bool started0 = STARTED;
  bool in0 = M_IN(mgr.m_requests); int gen0 = mgr.m_requests.w.second.interface.gh_gen; int ctr0 = gh_gen_ctr;
  int op = nondet_int();
  qstr id = nondet_qstr(), to = nondet_qstr();
  qdom stanza = nondet_int();
  qtask task; IqResult res; SessionBegin sb; SessionEnd se;
  res.kind = nondet_int(); res.el = nondet_int(); res.err.description = nondet_qstr(); res.err.error.kind = nondet_int(); res.err.error.val = nondet_int();
  sb.smResumed = nondet_bool(); se.smCanResume = nondet_bool();
  SendResult sres; QXmppPacket packet; QXmppIq iq;
  sres.kind = nondet_bool() ? 1 : 0; sres.err.description = nondet_qstr(); sres.err.error.kind = nondet_int(); sres.err.error.val = nondet_int();
  packet.gh_id = nondet_qstr(); iq.parsed_from = nondet_int(); iq.id = nondet_qstr(); iq.to = nondet_qstr();
  gh_sent = nondet_int(); gh_cont_registered = nondet_int(); gh_cont_id = nondet_qstr();
  __CPROVER_assume(0 <= gh_sent && gh_sent < 1000 && 0 <= gh_cont_registered && gh_cont_registered < 1000);
  gh_node_used = false;
  bool handled = false;
  switch (op) {
  case 0: OutgoingIqManager_start(self, &task, id, to); break;
  case 1: OutgoingIqManager_finish(self, id, &res); break;
  case 2: handled = OutgoingIqManager_handleStanza(self, stanza); break;
  case 3: OutgoingIqManager_cancelAll(self); break;
  case 4: OutgoingIqManager_onSessionOpened(self, &sb); break;
  case 5: OutgoingIqManager_onSessionClosed(self, &se); break;
  case 6: OutgoingIqManager_hasId(self, id); break;
  case 7: OutgoingIqManager_isIdValid(self, id); break;
  case 8: OutgoingIqManager_sendIq_onSent(self, &sres, id); break;      /* a stored send continuation runs (any time, any result) */
  case 9: OutgoingIqManager_sendIq_packet(self, &task, &packet, id, to); break;
  case 10: OutgoingIqManager_sendIq_iq(self, &task, &iq, to); break;
  default: break;
  }
  bool present1 = mgr.m_requests.w_present; int c1 = gh_completions; bool in1 = M_IN(mgr.m_requests);
  __CPROVER_assert(INV(self), "[lemma.invariant_preserved_by_every_operation] exactly-once invariant holds again after any operation");
  __CPROVER_assert(UMAP_REP(mgr.m_requests), "[lemma.view_invariant_preserved] representation invariant of the witness view holds again");
  /* a pending request is completed only by: a qualifying reply, an explicit finish (send error), or the end of a session that cannot continue */
  __CPROVER_assert(!(in0 && c1 != c0) || (op == 1 && id == g_wid) || (op == 8 && id == g_wid && sres.kind == 1) || (op == 2 && handled && ID_IS_W && IS_IQ && IS_RESPONSE && (FROM == 0 || FROM == jid0))
                   || op == 3 || (op == 4 && !sb.smResumed) || (op == 5 && !se.smCanResume),
                   "[lemma.completed_only_by_reply_from_addressee_or_server_send_error_or_session_end] nothing else completes a pending request");
  __CPROVER_assert(!(op == 2 && present0 && ID_IS_W && FROM != 0 && FROM != jid0) || (present1 && in1 == in0 && c1 == c0 && mgr.m_requests.w.second.jid == jid0 && !handled),
                   "[lemma.right_id_from_another_sender_neither_completes_nor_cancels] a stanza with the right id from any other sender changes nothing");
  __CPROVER_assert(!(op == 2 && in0 && ID_IS_W && IS_IQ && IS_RESPONSE && (FROM == 0 || FROM == jid0)) || (!present1 && c1 == 1 && handled),
                   "[lemma.qualifying_reply_completes_the_request] a result/error with the request's id from the addressee (or without from) completes it");
  __CPROVER_assert(!(in0 && (op == 3 || (op == 4 && !sb.smResumed) || (op == 5 && !se.smCanResume))) || (!in1 && c1 == 1 && DISCONNECTED_ERROR(gh_value)),
                   "[lemma.session_end_without_resumption_completes_with_disconnected_error] no request stays pending across a session that cannot continue");
  __CPROVER_assert(!(in0 && ((op == 4 && sb.smResumed) || (op == 5 && se.smCanResume))) || (in1 && c1 == 0),
                   "[lemma.resumable_session_keeps_request_pending] a resumed / resumable session does not cancel");
  __CPROVER_assert(!(started0 && !in0) || (c1 == 1 && !in1),
                   "[lemma.completed_request_is_never_completed_again_nor_re_entered] once completed, a request stays completed exactly once (a reused id is a new request)");
  __CPROVER_assert(!(present1 && gh_gen_ctr > ctr0) || ((!present0 || op == 3 || op == 4 || op == 5) && mgr.m_requests.w.second.interface.gh_gen == gh_gen_ctr && gh_gen_ctr == ctr0 + 1),
                   "[lemma.new_request_under_an_id_only_when_the_id_is_free] a request is registered under an id only while no request with that id is in the table, or after those were cancelled");
}
