/* units/C07/client.h -- QXmppClient::sendSensitiveIq and its continuation chain: the promise behind the task handed to the caller.
 *
 * Every continuation of the chain is `std::visit(overloaded { arm... }, std::move(result))` (checked structurally by client.py:
 * one arm per alternative of the variant); each ARM is lowered from the real code and verified as a function of its own.
 * Ghost view of the caller's promise (QXmppPromise itself is C13): it is either FINISHED (gh_fin counts, gh_fin_value keeps the
 * value) or HANDED to exactly one new continuation by `task.then(ctx, [p = std::move(p), ...] ...)` (gh_handed counts; the
 * moved-from promise object is dead afterwards).  "No path returns without finishing the promise" = every arm increases
 * gh_fin + gh_handed by exactly one.
 *
 * ASSUMED (models): A-E2EE QXmppE2eeExtension::encryptIq / decryptIq return a task that finishes once with one of the
 * alternatives of its result variant (application-provided extension); A-RAW QXmppOutgoingClient::sendIq returns the task of the
 * raw request (completed exactly once: the OutgoingIqManager part of this unit); A-THEN QXmppTask::then stores the continuation
 * and runs it once when the task finishes (C13); std::visit calls the arm of the alternative the variant holds. */
#ifndef C07_CLIENT_H
#define C07_CLIENT_H
typedef struct cpromise { bool valid; } cpromise;               /* QXmppPromise<IqResult>; valid = owns the shared state (not moved from) */
#define TASK_OWN 1   /* the task of the promise created by sendSensitiveIq */
#define TASK_RAW 2   /* the task of the raw request (QXmppOutgoingClient::sendIq) */
#define TASK_ENC 3   /* the extension's encryptIq task */
#define TASK_DEC 4   /* the extension's decryptIq task */
typedef struct ctask { int kind; } ctask;                       /* any QXmppTask<T> of this translation unit */
typedef struct E2ee { int gh_unused; } E2ee;
typedef struct OutClient { int gh_unused; } OutClient;
typedef int qparams;                                            /* std::optional<QXmppSendStanzaParams>, passed through */

int gh_fin;                 /* completions of the caller's promise */
IqResult gh_fin_value;      /* value of the last one */
int gh_handed;              /* times the promise was moved into a new continuation */
int gh_handed_to;           /* which continuation (index in source order) */
int gh_handed_task;         /* kind of the task that continuation was attached to */
qdom gh_handed_el;          /* element copied into that continuation's closure (0: none) */
int gh_enc_calls, gh_dec_calls, gh_raw_sends;
qdom gh_dec_arg;            /* element passed to decryptIq */

static inline void cpromise_ctor(cpromise *p) { p->valid = true; }
static inline void cpromise_task(ctask *t, const cpromise *p) { t->kind = TASK_OWN; }
static inline void cpromise_finish_result(cpromise *p, const IqResult *v) {
  __CPROVER_assert(p->valid, "[safety.finish_on_a_promise_that_was_not_moved_from] finish() is called on a promise that still owns its state");
  if (gh_fin < 1000) gh_fin++;
  gh_fin_value = *v;
}
static inline void cpromise_finish_error(cpromise *p, const QXmppError *e) { IqResult v; IqResult_from_error(&v, e); cpromise_finish_result(p, &v); }
static inline void cpromise_finish_element(cpromise *p, qdom e) { IqResult v; v.kind = IQ_ELEMENT; v.el = e; v.err.description = 0; v.err.error.kind = 0; v.err.error.val = 0; cpromise_finish_result(p, &v); }
static inline void e2ee_encryptIq(ctask *t, E2ee *x, QXmppIq *iq, qparams params) { if (gh_enc_calls < 1000) gh_enc_calls++; t->kind = TASK_ENC; }
static inline void e2ee_decryptIq(ctask *t, E2ee *x, qdom el) { if (gh_dec_calls < 1000) gh_dec_calls++; gh_dec_arg = el; t->kind = TASK_DEC; }
static inline void stream_sendIq(ctask *t, OutClient *s, QXmppIq *iq) { if (gh_raw_sends < 1000) gh_raw_sends++; t->kind = TASK_RAW; }
/* task.then(ctx, [p = std::move(p), el...] (...) {...}) : the promise moves into continuation number k */
static inline void then_cont(const ctask *t, int k, cpromise *p, qdom el) {
  __CPROVER_assert(p->valid, "[safety.moved_promise_still_owned_its_state] the promise moved into the continuation still owns its state");
  p->valid = false;
  if (gh_handed < 1000) gh_handed++;
  gh_handed_to = k; gh_handed_task = t->kind; gh_handed_el = el;
}

/* ---- abbreviations of the contracts */
#define CL_RANGES (0 <= gh_fin && gh_fin < 1000 && 0 <= gh_handed && gh_handed < 1000 && 0 <= gh_enc_calls && gh_enc_calls < 1000 && 0 <= gh_dec_calls && gh_dec_calls < 1000 && 0 <= gh_raw_sends && gh_raw_sends < 1000)
#define CL_FRESH (__CPROVER_is_fresh(self, sizeof(*self)) && __CPROVER_is_fresh(self->d, sizeof(*self->d)) && __CPROVER_is_fresh(self->d->stream, sizeof(*self->d->stream)) \
   && (self->d->encryptionExtension == NULL || __CPROVER_is_fresh(self->d->encryptionExtension, sizeof(*self->d->encryptionExtension))))
#define CL_ASSIGNS gh_fin, gh_fin_value, gh_handed, gh_handed_to, gh_handed_task, gh_handed_el, gh_enc_calls, gh_dec_calls, gh_raw_sends, gh_dec_arg
#define HAS_EXT (self->d->encryptionExtension != NULL)
#define FINISHED_ONCE (gh_fin == __CPROVER_old(gh_fin) + 1 && gh_handed == __CPROVER_old(gh_handed))
#define HANDED_ONCE (gh_handed == __CPROVER_old(gh_handed) + 1 && gh_fin == __CPROVER_old(gh_fin))
#define SETTLED_ONCE (FINISHED_ONCE || HANDED_ONCE)
#define NO_CALLS (gh_enc_calls == __CPROVER_old(gh_enc_calls) && gh_dec_calls == __CPROVER_old(gh_dec_calls) && gh_raw_sends == __CPROVER_old(gh_raw_sends))
#define ENCRYPTION_ERROR(v) ((v).kind == IQ_ERROR && (v).err.error.kind == ANY_SENDERROR && (v).err.error.val == QXmpp_SendError__EncryptionError)
#define SAME_ERROR(v, e) ((v).kind == IQ_ERROR && (v).err.description == (e).description && (v).err.error.kind == (e).error.kind && (v).err.error.val == (e).error.val)
/* the specification's own reading of "is an IQ response": <iq/> of type result or error */
#define IS_IQ_RESPONSE(e) (qdom_tagName(e) == S("iq") && (qdom_attribute((e), S("type")) == S("result") || qdom_attribute((e), S("type")) == S("error")))
#endif
