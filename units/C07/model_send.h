/* units/C07/model_send.h -- the send path as far as the request table sees it (ASSUMED contracts of QXmpp code that is the
 * subject of other properties: StreamAckManager::send = C09, QXmppTask::then = C13):
 * A-SEND  StreamAckManager::send(packet) hands exactly that packet to the stream and returns a task that is either already
 *         finished (with SendSuccess or an error -- e.g. not connected) or finishes later; gh_sent counts the packets.
 * A-THEN  task.then(ctx, k) runs k at once with the task's result if the task is already finished, otherwise stores k; a stored
 *         k may run at any later time with any SendResult (the lemma harness runs it as an operation of its own). */
#ifndef C07_MODEL_SEND_H
#define C07_MODEL_SEND_H
typedef struct QXmppPacket { qstr gh_id; } QXmppPacket;
typedef struct StreamAckManager { int gh_unused; } StreamAckManager;
typedef struct SendResult { int kind; QXmppError err; } SendResult;     /* std::variant<QXmpp::SendSuccess, QXmppError>: kind = index() */
typedef struct sendtask { bool finished; SendResult result; } sendtask;  /* QXmppTask<SendResult> */
int gh_sent;                 /* packets handed to the stream-ack manager */
int gh_cont_registered;      /* continuations attached to send tasks */
qstr gh_cont_id;             /* request id captured by the last attached continuation */
static inline void QXmppPacket_from_iq(QXmppPacket *p, const QXmppIq *iq) { p->gh_id = iq->id; }
static inline void StreamAckManager_send(sendtask *t, StreamAckManager *m, QXmppPacket *p) {
  if (gh_sent < 1000) gh_sent++;
  t->finished = nondet_bool(); t->result.kind = nondet_bool() ? 1 : 0;
  t->result.err.description = nondet_qstr(); t->result.err.error.kind = nondet_int(); t->result.err.error.val = nondet_int();
}
static inline const QXmppError *SendResult_get_error(const SendResult *r) {
  __CPROVER_assert(r->kind == 1, "[safety.variant_get_holds_the_alternative] std::get<QXmppError> is applied to a variant that holds a QXmppError");
  return &r->err;
}
/* generateStanzaUuid(): some non-empty string (a UUID); nothing else is known about it -- it may even collide */
static inline qstr generateStanzaUuid(void) { qstr u = nondet_qstr(); __CPROVER_assume(u != 0); return u; }
#endif
