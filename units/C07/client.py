"""C07, client part: QXmppClient::sendSensitiveIq / sendIq -- the promise behind the task handed to the caller is settled exactly
once on every path of every continuation.  The outer function and every ARM of every `std::visit(overloaded {...}, result)`
continuation are lowered from the real code (fully typed instantiations) and verified under their own contracts; that each
continuation is exactly such a visit with one arm per alternative is checked structurally here (anything else: exit 2)."""
import os, re, hashlib
from vlib.unit import Builder, Target, Spec, VERIF
from vlib.runner import Proof
from vlib.cxx2c import Unsupported, qt, dqt, strip_type, apply_splices
from vlib import astx, ctx
from vlib.configure import REPO
import profile as base

HERE = os.path.dirname(os.path.abspath(__file__))
QT = os.path.join(VERIF, 'qtmodel')
SRC = 'src/client/QXmppClient.cpp'
CL, CP = 'QXmppClient', 'QXmppClientPrivate'
ARM_TAGS = {'std::unique_ptr<QXmppIq>': 'iq', 'QXmppError': 'error', 'QDomElement': 'element', 'QXmppE2eeExtension::NotEncrypted': 'notencrypted'}


def rd(name):
    return open(os.path.join(HERE, name)).read()


def walk(n):
    if isinstance(n, dict):
        yield n
        for c in n.get('inner', []):
            yield from walk(c)


def unwrap(s):
    s = strip_type(s)
    m = re.match(r'^(typename )?(std::)?remove_reference<(.*)>::type$', s)
    return strip_type(m.group(3)) if m else s


class LC(base.L07):
    """every QXmppTask<T> of this TU is one task model, QXmppPromise<IqResult> the client-side promise model"""

    @staticmethod
    def canon(t):
        s = unwrap(t)
        ptr = ''
        while s.endswith('*'):
            s = s[:-1].strip()
            ptr += '*'
        if re.match(r'^QXmppTask<.*>$', s):
            return 'ctask' + ptr
        if re.match(r'^QXmppPromise<.*>$', s):
            return 'cpromise' + ptr
        if re.match(r'^std::optional<QXmppSendStanzaParams>$', s):
            return 'qparams' + ptr
        if s in ('QXmppIq', 'QDomElement', 'QXmppError'):
            return s + ptr
        return base.L07.canon(t)


# ------------------------------------------------------------------------------------------------------------ lambda tree
def lam_pos(n):
    m = re.search(r'lambda at [^:]*:(\d+):(\d+)\)', qt(n))
    if not m:
        raise Unsupported('lambda without position')
    return int(m.group(1)), int(m.group(2))


def loc_off(l):
    for k in ('expansionLoc', 'spellingLoc'):
        if k in l:
            l = l[k]
            break
    return l.get('offset')


def typed_operator(lam):
    """the executable, fully typed operator() of a lambda expression copy (None for copies inside an uninstantiated pattern)"""
    rec = [c for c in lam.get('inner', []) if c.get('kind') == 'CXXRecordDecl']
    if len(rec) != 1:
        return None
    out = []
    for m in rec[0].get('inner', []):
        cands = [m] if m.get('kind') == 'CXXMethodDecl' else [s for s in m.get('inner', []) if s.get('kind') == 'CXXMethodDecl'] if m.get('kind') == 'FunctionTemplateDecl' else []
        for s in cands:
            if s.get('name') == 'operator()' and astx.has_body(s) and not qt(s).startswith('auto') and 'auto' not in ' '.join(qt(x) for x in s.get('inner', []) if x.get('kind') == 'ParmVarDecl'):
                if not astx.contains_error_nodes(s):
                    out.append(s)
    return out[0] if len(out) == 1 else None


class Lam:
    def __init__(self, pos):
        self.pos, self.copies, self.ops, self.children, self.begin, self.end = pos, [], [], [], None, None


def lambda_tree(decl):
    lams = {}
    for n in walk(decl):
        if n.get('kind') == 'LambdaExpr':
            L = lams.setdefault(lam_pos(n), Lam(lam_pos(n)))
            L.copies.append(n)
            op = typed_operator(n)
            if op is not None:
                L.ops.append((n, op))
            b, e = loc_off(n['range']['begin']), loc_off(n['range']['end'])
            if b is not None and e is not None:
                L.begin, L.end = b, e
    order = sorted(lams.values(), key=lambda L: L.pos)
    for L in order:
        if not L.ops or L.begin is None:
            raise Unsupported('lambda at %d:%d has no fully typed instantiation' % L.pos)
        hs = {astx.node_hash(op) for _, op in L.ops}
        if len(hs) != 1:
            raise Unsupported('instantiations of the lambda at %d:%d differ' % L.pos)
    roots = []
    for L in order:
        parents = [P for P in order if P is not L and P.begin <= L.begin and L.end <= P.end]
        if parents:
            max(parents, key=lambda P: P.begin).children.append(L)
        else:
            roots.append(L)
    return roots, order


def param_type(op):
    ps = [c for c in op.get('inner', []) if c.get('kind') == 'ParmVarDecl']
    if len(ps) != 1:
        raise Unsupported('continuation / arm with %d parameters' % len(ps))
    return ps[0]


def variant_alts(p):
    t = unwrap(dqt(p))
    m = re.match(r'^(?:std::)?variant<(.*)>$', t)
    if not m:
        raise Unsupported('continuation parameter is not a variant: %s' % t)
    out, d, cur = [], 0, ''
    for ch in m.group(1):
        if ch == '<':
            d += 1
        elif ch == '>':
            d -= 1
        if ch == ',' and d == 0:
            out.append(cur.strip())
            cur = ''
        else:
            cur += ch
    out.append(cur.strip())
    return out


def check_continuation(L):
    """the continuation is exactly `std::visit(overloaded { one lambda per alternative }, std::move(result));`"""
    lam, op = L.ops[0]
    body = [c for c in op['inner'] if c.get('kind') == 'CompoundStmt'][0]
    stmts = [c for c in body.get('inner', []) if isinstance(c, dict) and c.get('kind')]
    if len(stmts) != 1:
        raise Unsupported('continuation at %d:%d is not a single std::visit statement' % L.pos)
    call = stmts[0]
    while call.get('kind') in ('ExprWithCleanups',):
        call = call['inner'][0]
    ref = call['inner'][0]
    while 'referencedDecl' not in ref and ref.get('inner'):
        ref = ref['inner'][0]
    if call.get('kind') != 'CallExpr' or ref.get('referencedDecl', {}).get('name') != 'visit' or len(call['inner']) != 3:
        raise Unsupported('continuation at %d:%d is not a single std::visit statement' % L.pos)
    if 'overloaded<' not in qt(call['inner'][1]):
        raise Unsupported('std::visit at %d:%d is not given an overloaded {...} set of lambdas' % L.pos)
    arg = call['inner'][2]
    refs = [x for x in walk(arg) if x.get('kind') == 'DeclRefExpr' and x['referencedDecl'].get('kind') == 'ParmVarDecl']
    pv = param_type(op)
    if len(refs) != 1 or refs[0]['referencedDecl']['id'] != pv['id']:
        raise Unsupported('std::visit at %d:%d does not visit the continuation parameter' % L.pos)
    alts = variant_alts(pv)
    arms = {}
    for A in L.children:
        t = strip_type(qt(param_type(A.ops[0][1])))
        if t in arms:
            raise Unsupported('two arms for alternative %s' % t)
        arms[t] = A
    if sorted(arms) != sorted(alts):
        raise Unsupported('arms %s do not cover the alternatives %s exactly' % (sorted(arms), sorted(alts)))
    return arms


# ------------------------------------------------------------------------------------------------------------ rules
def promise_finish(lw, node, args):
    t = lw.tkey(lw.skip(node['inner'][1]))
    fn = {'QXmppError': 'cpromise_finish_error', 'qdom': 'cpromise_finish_element', 'IqResult': 'cpromise_finish_result'}.get(t)
    if fn is None:
        raise Unsupported('QXmppPromise::finish with argument type %s' % t)
    return '%s(%s)' % (fn, ', '.join(args))


def then_rule(lw, node, args):
    """task.then(this, [this, p = std::move(p), copies...] (...) {...}): the promise moves into that continuation"""
    lam = lw.skip(node['inner'][2])
    if lam.get('kind') != 'LambdaExpr':
        raise Unsupported('then() with a continuation that is not a lambda')
    k = lw.p.cont_ids.get(lam_pos(lam))
    if k is None:
        raise Unsupported('then() with an unknown continuation')
    moved, el = None, '0'
    for c in lam['inner'][1:-1]:
        c0 = lw.skip(c)
        if c0.get('kind') == 'CXXThisExpr':
            continue
        x = c0
        while x.get('kind') == 'CXXConstructExpr' and len(x.get('inner', [])) == 1:
            x = lw.skip(x['inner'][0])
        if x.get('kind') == 'CallExpr' and lw.callee_ref(x).get('name') == 'move' and lw.tkey(x) == 'cpromise':
            if moved is not None:
                raise Unsupported('continuation captures two promises')
            moved = lw.addr(lw.skip(x['inner'][1]))
        elif x.get('kind') == 'DeclRefExpr' and lw.tkey(x) == 'qdom':
            el = lw.expr(x)
        else:
            raise Unsupported('continuation capture of kind %s' % x.get('kind'))
    if moved is None:
        raise Unsupported('continuation does not take the promise')
    return 'then_cont(%s, %d, %s, %s)' % (args[0], k, moved, el)


def profile():
    p = base.profile()
    p.types.update({CL: CL, CP: CP, 'std::unique_ptr<%s>' % CP: CP + '*', 'std::unique_ptr<%s>::pointer' % CP: CP + '*',
                    'QXmppE2eeExtension': 'E2ee', 'QXmppOutgoingClient': 'OutClient', 'std::unique_ptr<QXmppIq>': 'QXmppIq*',
                    'ctask': 'ctask', 'cpromise': 'cpromise', 'qparams': 'qparams', 'QObject': 'void'})
    p.class_types |= {CL, CP, 'E2ee', 'OutClient', 'ctask', 'cpromise'}
    p.calls.update({
        'op->:%s*' % CP: ('expr', '{0}'),
        'op*:QXmppIq*': ('expr', '(*{0})'),
        'E2ee::encryptIq/2': ('fnret', 'e2ee_encryptIq', 'ctask'),
        'E2ee::decryptIq/1': ('fnret', 'e2ee_decryptIq', 'ctask'),
        'OutClient::sendIq/1': ('fnret', 'stream_sendIq', 'ctask'),
        'ctask::then/2': then_rule,
        'expr:LambdaExpr': lambda lw, n: '0 /*continuation*/',
        'ctor:cpromise()': ('fn', 'cpromise_ctor'),
        'cpromise::task/0': ('fnret', 'cpromise_task', 'ctask'),
        'cpromise::finish/1': promise_finish,
        'fn:isIqResponse/1': ('callee', 'isIqResponse'),
        # std::move(x) is x (as an lvalue; the caller takes the address of class models)
        'fn:move/1': lambda lw, node, args: lw.expr(node['inner'][1]),
    })
    p.cont_ids = {}
    return p


# ------------------------------------------------------------------------------------------------------------ lowering
CAP_NAMES = {'cpromise': 'p', 'qdom': 'captured'}


def closure_vars(L):
    """(canonical name, C type) of every by-copy capture of a continuation except `this`; one per type"""
    lam, op = L.ops[0]
    rec = [c for c in lam['inner'] if c.get('kind') == 'CXXRecordDecl'][0]
    lw = LC(op, 'x', None)
    out = []
    for f in rec.get('inner', []):
        if f.get('kind') != 'FieldDecl':
            continue
        t = LC.canon(f['type'].get('qualType', ''))
        t = {'QDomElement': 'qdom'}.get(t, t)
        if strip_type(t).rstrip('*') == CL:
            continue
        if t not in CAP_NAMES or CAP_NAMES[t] in [n for n, _ in out]:
            raise Unsupported('continuation at %d:%d captures %s (only the promise and one element are modelled)' % (L.pos + (t,)))
        out.append((CAP_NAMES[t], t))
    if 'p' not in [n for n, _ in out]:
        raise Unsupported('continuation at %d:%d does not own the promise' % L.pos)
    return out


def lower_arm(b, prof, op, lam, cname, spec, label, caps):
    src = os.path.join(REPO, SRC)
    lw = LC(op, cname, prof, this_type=CL)
    lw.source_files = [src]
    def own(n):
        # the arm's own code: nested lambdas contribute only their capture initialisers (evaluated here), not their bodies
        if isinstance(n, dict):
            yield n
            kids = n.get('inner', [])
            if n.get('kind') == 'LambdaExpr':
                kids = [c for c in kids[1:] if isinstance(c, dict) and c.get('kind') != 'CompoundStmt']
            for c in kids:
                yield from own(c)
    declared = {x['id'] for x in own(op) if x.get('kind') in ('VarDecl', 'ParmVarDecl', 'BindingDecl') and 'id' in x}
    # the arm captures by reference ([&]): it works on the enclosing continuation's closure variables.  They are ALL passed (whether
    # the arm uses them or not, so that "forgot to finish the promise" is a violation and not a changed signature), under names
    # fixed by their type: the promise `p`, the kept element `captured`.
    by_type = {ct: nm for nm, ct in caps}
    for nm, ct in caps:
        lw.names.add(nm)
    for x in own(op):
        if x.get('kind') == 'DeclRefExpr' and x['referencedDecl'].get('kind') in ('VarDecl', 'ParmVarDecl'):
            r = x['referencedDecl']
            if r['id'] in declared or r['id'] in lw.locals:
                continue
            ct = lw.ctype(r['type'].get('qualType'))
            if ct not in by_type:
                raise Unsupported('arm refers to %s (%s), which is not a closure variable of its continuation' % (r.get('name'), ct))
            lw.locals[r['id']] = (by_type[ct], ct, True)
    extra = ['%s *%s' % (ct, nm) for nm, ct in sorted(caps)]
    text = lw.lower(extra)
    text = text.replace('const %s *self' % CL, '%s *self' % CL, 1)
    sig = text.split('\n', 1)[0]
    for k, v in lw.fired.items():
        b.fired[k] = b.fired.get(k, 0) + v
    for dr in lw.dropped:
        b.dropped.append(dict(dr, function=cname))
    for et, names in lw.need_enums.items():
        b.need_enums.setdefault((src, ()), {}).setdefault(et, set()).update(names)
    text = apply_splices(text, spec.contract, spec.loops)
    text = re.sub(r'/\*@(CONTRACT|LOOP\d+)@\*/\n?', '', text)
    bl, el = astx.src_range(lam)
    b.functions.append({'function': label, 'cname': cname, 'file': SRC, 'lines': [bl, el], 'ast_hash': astx.node_hash(op),
                        'lowered_c_sha': hashlib.sha256(text.encode()).hexdigest()[:16], 'loops': lw.loops, 'rules_fired': len(lw.fired), 'calls_dropped': len(lw.dropped)})
    return text, sig, lw


def harness(cname, sig, pre=''):
    m = re.match(r'^\w[\w ]*?\b(\w+)\((.*)\)$', sig)
    params = [x.strip() for x in m.group(2).split(',')] if m.group(2).strip() != 'void' else []
    decls, names = [], []
    for prm in params:
        mm = re.match(r'^(.*?)(\w+)$', prm)
        decls.append('%s%s;' % (mm.group(1), mm.group(2)))
        names.append(mm.group(2))
    hv = ('  gh_fin = nondet_int(); gh_handed = nondet_int(); gh_enc_calls = nondet_int(); gh_dec_calls = nondet_int(); gh_raw_sends = nondet_int();\n'
          '  gh_handed_to = nondet_int(); gh_handed_task = nondet_int(); gh_handed_el = nondet_int(); gh_dec_arg = nondet_int();\n'
          '  gh_fin_value.kind = nondet_int(); gh_fin_value.el = nondet_int(); gh_fin_value.err.description = nondet_qstr(); gh_fin_value.err.error.kind = nondet_int(); gh_fin_value.err.error.val = nondet_int();\n')
    return '\nvoid h_%s(void) {\n%s%s  %s\n  %s(%s);\n}\n' % (cname, hv, pre, ' '.join(decls), cname, ', '.join(names))


def build_client(work, tier):
    prof = profile()
    b = Builder('C07', work, prof)
    src = os.path.join(REPO, SRC)
    decl = astx.find_function(src, CL + '::sendSensitiveIq', 'sendSensitiveIq')
    roots, order = lambda_tree(decl)
    if len(roots) != 1:
        raise Unsupported('sendSensitiveIq: %d top-level continuations (expected the one attached to encryptIq)' % len(roots))
    # continuations = lambdas at even depth, arms of their std::visit at odd depth
    conts, targets = [], []

    def visit_cont(L):
        k = len(conts)
        conts.append(L)
        prof.cont_ids[L.pos] = k
        arms = check_continuation(L)
        for t in sorted(arms, key=lambda t: arms[t].pos):
            A = arms[t]
            if t not in ARM_TAGS:
                raise Unsupported('no name for an arm taking %s' % t)
            if len(A.children) > 1:
                raise Unsupported('arm at %d:%d attaches more than one continuation' % A.pos)
            for C in A.children:
                visit_cont(C)
            targets.append((k, ARM_TAGS[t], A))
    visit_cont(roots[0])
    targets.sort(key=lambda x: (x[0], x[2].pos))

    lowered = {}
    for k, tag, A in targets:
        cname = 'sendSensitiveIq_k%d_%s' % (k, tag)
        specf = 'ss_k%d_%s.spec' % (k, tag)
        if not os.path.exists(os.path.join(HERE, specf)):
            raise Unsupported('continuation %d of sendSensitiveIq has an arm for %s for which the unit has no contract (%s)' % (k, tag, specf))
        sp = b.spec(specf)
        lam, op = A.ops[0]
        text, sig, lw = lower_arm(b, prof, op, lam, cname, sp, '%s::sendSensitiveIq::<continuation #%d>::<arm %s>' % (CL, k, tag), closure_vars(conts[k]))
        lowered[cname] = (sp, text, sig, lw)
    # outer functions
    for nm, mth, specf in ((CL + '_sendSensitiveIq', 'sendSensitiveIq', 'ss_outer.spec'), (CL + '_sendIq', 'sendIq', 'client_plain_sendIq.spec')):
        sp = b.spec(specf)
        text = b.lower(Target(SRC, CL + '::' + mth, mth, nm, this=CL, parent=None, lowerer_cls=LC), sp)
        lowered[nm] = (sp, text, text.split('\n', 1)[0] if '/*@END-HELPERS@*/' not in text else text.split('/*@END-HELPERS@*/\n', 1)[1].split('\n', 1)[0], None)
    # the file-static helper isIqResponse: lowered from the real code, used as is (no contract)
    helper = b.lower(Target(SRC, 'isIqResponse', 'isIqResponse', 'isIqResponse', this=None, parent=None, lowerer_cls=LC), None)

    recs = 'typedef struct %s %s;\n' % (CL, CL)
    for st in (CP, CL):
        r_, f_ = ctx.emit_record(src, st, st, st, prof, opaque_ok=True)
        if st == CP and not {'stream', 'encryptionExtension'} <= set(f_):
            raise Unsupported('QXmppClientPrivate lost stream / encryptionExtension')
        recs += r_ + '\n'
    model = b.subst(rd('model.h'))
    cl = b.subst(rd('client.h'))
    head = '#include "opaque.h"\n' + prof.literal_ids.table() + b.context() + '\n' + model + cl + recs
    proofs = []
    for cname, (sp, text, sig, lw) in lowered.items():
        body = text
        pre = helper + '\n' if re.search(r'\bisIqResponse\(', text) else ''
        f = b.write(cname + '.c', head + pre + body + harness(cname, sig))
        p = Proof(cname, f, 'h_' + cname, enforce=cname, kind='complete', include_dirs=[QT], timeout=600, object_bits=8, loop_contracts=False,
                  note='loop-free; the promise behind the caller\'s task: finished or handed to exactly one continuation')
        p.labels = {'post': {cname: sp.labels}}
        p.expect_post = len(sp.labels)
        proofs.append(p)
    # ---------------------------------------------------------------- chain lemma over the arm contracts
    lem = b.subst(rd('client_lemma.h'))
    names = [c for c in lowered if c.startswith('sendSensitiveIq_k')] + [CL + '_sendSensitiveIq']
    protos = ''.join(b.prototype(lowered[c][1]) for c in names)
    f = b.write('client_lemma.c', head + protos + lem)
    p = Proof('lemma_sensitive_iq_completes_exactly_once', f, 'h_client_lemma', enforce=None, replace=names, kind='complete', include_dirs=[QT], timeout=600,
              object_bits=9, loop_contracts=False,
              note='chain of continuations over the contracts of the arms: whatever alternative each task delivers, the caller\'s task is completed exactly once')
    p.labels = {}
    p.expect_post = lem.count('"[lemma.')
    proofs.append(p)
    arms = sorted('k%d/%s' % (k, tag) for k, tag, _ in targets)
    return {'proofs': proofs, 'functions': b.functions, 'dropped': b.dropped, 'fired': b.fired, 'arms': arms}
