/* A-THEN for the continuation of OutgoingIqManager::sendIq (placed after the prototype of the lowered lambda) */
static inline void sendIq_onSent_then(sendtask *t, OutgoingIqManager *self, qstr id) {
  if (gh_cont_registered < 1000) gh_cont_registered++;
  gh_cont_id = id;
  if (t->finished) { SendResult r = t->result; OutgoingIqManager_sendIq_onSent(self, &r, id); }
}
