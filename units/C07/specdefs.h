/* abbreviations used by the C07 contracts: what the received element says (abstract DOM, qtmodel/opaque.h) */
#define TAG qdom_tagName(stanza)
#define TYPE qdom_attribute(stanza, S("type"))
#define FROM qdom_attribute(stanza, S("from"))
#define ID_IS_W (qdom_attribute(stanza, S("id")) == g_wid)
#define IS_IQ (TAG == S("iq"))
#define IS_RESPONSE (TYPE == S("result") || TYPE == S("error"))
/* the entry stored under the witness id as the table sees it; the witness REQUEST (g_wid, g_wgen) is in the table iff that entry
   exists and is of the witness generation; "nothing about it changed" */
#define W_PRESENT (self->m_requests.w_present)
#define W_JID (self->m_requests.w.second.jid)
#define W_GEN (self->m_requests.w.second.interface.gh_gen)
#define W_IN (W_PRESENT && W_GEN == g_wgen)
#define OLD_W_IN (__CPROVER_old(self->m_requests.w_present) && __CPROVER_old(self->m_requests.w.second.interface.gh_gen) == g_wgen)
#define W_UNCHANGED (self->m_requests.w_present == __CPROVER_old(self->m_requests.w_present) && self->m_requests.w.second.jid == __CPROVER_old(self->m_requests.w.second.jid) \
   && self->m_requests.w.second.interface.gh_gen == __CPROVER_old(self->m_requests.w.second.interface.gh_gen) \
   && gh_completions == __CPROVER_old(gh_completions) && gh_gen_ctr == __CPROVER_old(gh_gen_ctr) && VALUE_UNCHANGED)
/* the value the witness request was completed with is not overwritten */
#define VALUE_UNCHANGED (gh_value.kind == __CPROVER_old(gh_value.kind) && gh_value.el == __CPROVER_old(gh_value.el) && gh_value.err.description == __CPROVER_old(gh_value.err.description) \
   && gh_value.err.error.kind == __CPROVER_old(gh_value.err.error.kind) && gh_value.err.error.val == __CPROVER_old(gh_value.err.error.val))
#define VALUE_AS_AT_LOOP_ENTRY (gh_value.kind == __CPROVER_loop_entry(gh_value.kind) && gh_value.el == __CPROVER_loop_entry(gh_value.el) && gh_value.err.description == __CPROVER_loop_entry(gh_value.err.description) \
   && gh_value.err.error.kind == __CPROVER_loop_entry(gh_value.err.error.kind) && gh_value.err.error.val == __CPROVER_loop_entry(gh_value.err.error.val))
#define GHOST_RANGES (0 <= gh_completions && gh_completions < 1000 && 0 <= gh_others_completed && gh_others_completed <= 1000 && 0 <= gh_gen_ctr && gh_gen_ctr < 1000)
#define DISCONNECTED_ERROR(v) ((v).kind == IQ_ERROR && (v).err.error.kind == ANY_SENDERROR && (v).err.error.val == QXmpp_SendError__Disconnected)
#define SAME_RESULT(a, b) ((a).kind == (b).kind && (a).el == (b).el && (a).err.description == (b).err.description && (a).err.error.kind == (b).err.error.kind && (a).err.error.val == (b).err.error.val)
/* the exactly-once invariant for the witness request (see lemma.h) */
#define M_IN(m) ((m).w_present && (m).w.second.interface.gh_gen == g_wgen)
#define INV(self) (0 <= gh_completions && gh_completions <= 1 && 0 <= gh_gen_ctr \
   && ((M_IN((self)->m_requests) ? 1 : 0) == ((STARTED && gh_completions == 0) ? 1 : 0)) && (STARTED || gh_completions == 0) \
   && (!(self)->m_requests.w_present || (g_wid != 0 && (self)->m_requests.w.second.jid != 0 && 1 <= (self)->m_requests.w.second.interface.gh_gen && (self)->m_requests.w.second.interface.gh_gen <= gh_gen_ctr)))
