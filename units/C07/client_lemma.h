/* units/C07/client_lemma.h -- QXmppClient::sendSensitiveIq: the task returned to the caller is completed exactly once, whatever
 * alternative each of the tasks in the chain delivers and whether or not an encryption extension is (still) installed when a
 * continuation runs.  Uses only the contracts of the outer function and of the arms (each enforced against the real body).
 * Premises (A-E2EE, A-RAW, A-THEN): each task of the chain finishes exactly once, which runs the continuation attached to it
 * exactly once, and std::visit runs the arm of the delivered alternative.  For the raw request "finishes exactly once" is the
 * lemma of the OutgoingIqManager part (it may stay pending as long as there is neither a reply nor a session end). */
static void any_error(QXmppError *e) { e->description = nondet_qstr(); e->error.kind = nondet_int(); e->error.val = nondet_int(); }

void h_client_lemma(void)
{
  QXmppClient cl; QXmppClientPrivate priv; OutClient stream; E2ee ext;
  QXmppClient *self = &cl;
  cl.d = &priv; priv.stream = &stream;
  priv.encryptionExtension = nondet_bool() ? &ext : NULL;
  gh_fin = 0; gh_handed = 0; gh_enc_calls = 0; gh_dec_calls = 0; gh_raw_sends = 0;
  ctask ret; QXmppIq iq; QXmppError err; cpromise p;
  iq.parsed_from = 0; iq.id = nondet_qstr(); iq.to = nondet_qstr();
  bool had_ext = priv.encryptionExtension != NULL;
  QXmppClient_sendSensitiveIq(self, &ret, &iq, nondet_int());
  if (!had_ext) {
    __CPROVER_assert(ret.kind == TASK_RAW && gh_raw_sends == 1 && gh_fin == 0 && gh_handed == 0,
                     "[lemma.without_extension_the_caller_gets_the_task_of_the_raw_request] which the request table completes exactly once");
    return;
  }
  __CPROVER_assert(ret.kind == TASK_OWN && gh_fin == 0 && gh_handed == 1 && gh_handed_to == 0 && gh_handed_task == TASK_ENC,
                   "[lemma.with_extension_the_promise_is_owned_by_the_encryption_continuation] the caller gets the promise's task, continuation 0 owns the promise");
  /* ---- the encryptIq task finishes: continuation 0 runs (the extension may have been removed or replaced meanwhile) */
  priv.encryptionExtension = nondet_bool() ? &ext : NULL;
  p.valid = true;
  if (nondet_bool()) { QXmppIq enc; QXmppIq *up = &enc; enc.parsed_from = 0; enc.id = nondet_qstr(); enc.to = nondet_qstr(); sendSensitiveIq_k0_iq(self, &up, &p); }
  else { any_error(&err); sendSensitiveIq_k0_error(self, &err, &p); }
  __CPROVER_assert((gh_fin == 1 && gh_handed == 1) || (gh_fin == 0 && gh_handed == 2 && gh_handed_to == 1 && gh_handed_task == TASK_RAW && gh_raw_sends == 1),
                   "[lemma.after_encryption_the_task_is_completed_or_the_reply_continuation_owns_the_promise] never both, never neither");
  if (gh_fin == 0) {
    /* ---- the raw request completes (reply, error, or disconnect): continuation 1 runs */
    priv.encryptionExtension = nondet_bool() ? &ext : NULL;
    p.valid = true;
    qdom reply = nondet_int();
    if (nondet_bool()) { qdom el = reply; sendSensitiveIq_k1_element(self, &el, &p); }
    else { any_error(&err); sendSensitiveIq_k1_error(self, &err, &p); }
    __CPROVER_assert((gh_fin == 1 && gh_handed == 2) || (gh_fin == 0 && gh_handed == 3 && gh_handed_to == 2 && gh_handed_task == TASK_DEC && gh_handed_el == reply && gh_dec_arg == reply),
                     "[lemma.after_the_reply_the_task_is_completed_or_the_decryption_continuation_owns_the_promise] never both, never neither");
    if (gh_fin == 0) {
      /* ---- the decryptIq task finishes: continuation 2 runs with the raw reply it copied */
      priv.encryptionExtension = nondet_bool() ? &ext : NULL;
      p.valid = true;
      qdom kept = gh_handed_el;
      int alt = nondet_int();
      if (alt == 0) { qdom dec = nondet_int(); sendSensitiveIq_k2_element(self, &dec, &kept, &p); }
      else if (alt == 1) { sendSensitiveIq_k2_notencrypted(self, NULL, &kept, &p); __CPROVER_assert(gh_fin_value.kind == IQ_ELEMENT && gh_fin_value.el == reply, "[lemma.unencrypted_reply_is_reported_as_received] the raw reply completes the task"); }
      else { any_error(&err); sendSensitiveIq_k2_error(self, &err, &kept, &p); }
      __CPROVER_assert(gh_fin == 1 && gh_handed == 3, "[lemma.after_decryption_the_task_is_completed] the last continuation completes the task");
    }
  }
  __CPROVER_assert(gh_fin == 1, "[lemma.sensitive_iq_task_completes_exactly_once] on every path of every continuation the caller's task is completed exactly once");
}
