// Native reproduction for finding C07-F1: a request started from the continuation of a request that cancelAll() is
// cancelling is wiped by the m_requests.clear() that follows the loop -- it never completes (and inserting into the
// unordered_map while the range-for iterates it is undefined behaviour).
// Calls the REAL OutgoingIqManager of the library built from the working tree.  Exit 0 = reproduced, 1 = not reproduced.
#include <QCoreApplication>
#include <QDomElement>
#include <cstdio>
#include "QXmppOutgoingClient.h"
#include "QXmppOutgoingClient_p.h"
#include "QXmppTask.h"

using namespace QXmpp::Private;

int main(int argc, char **argv)
{
    QCoreApplication app(argc, argv);
    QXmppOutgoingClient client(nullptr);
    auto &iqs = client.iqManager();
    QObject ctx;

    int firstCompleted = 0, retryCompleted = 0, retryStarted = 0;
    // a pending request whose owner reacts to the cancellation by issuing a follow-up request (e.g. a retry)
    iqs.start(QStringLiteral("first"), QStringLiteral("example.org")).then(&ctx, [&](QXmppOutgoingClient::IqResult &&) {
        firstCompleted++;
        auto t = iqs.start(QStringLiteral("retry"), QStringLiteral("example.org"));
        if (!t.isFinished()) {
            retryStarted++;
            t.then(&ctx, [&](QXmppOutgoingClient::IqResult &&) { retryCompleted++; });
        }
    });

    // what OutgoingIqManager::onSessionOpened() does for a session that was not resumed
    SessionBegin begin { false, false, false, false, {} };
    iqs.onSessionOpened(begin);

    bool stillInTable = iqs.hasId(QStringLiteral("retry"));
    std::printf("first completed %d time(s); retry accepted %d time(s), completed %d time(s), still in table: %s\n",
                firstCompleted, retryStarted, retryCompleted, stillInTable ? "yes" : "no");
    // property: every accepted request completes exactly once or is still pending in the table (so that a reply / the next
    // session end can complete it).  Reproduced if the accepted retry was neither completed nor kept.
    bool lost = retryStarted == 1 && retryCompleted == 0 && !stillInTable;
    std::printf(lost ? "REPRODUCED: the follow-up request is gone from the table without ever completing\n"
                     : "NOT-REPRODUCED\n");
    return lost ? 0 : 1;
}
