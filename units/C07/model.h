/* units/C07/model.h -- witness-key view of the outstanding-request table (DESIGN 5.5), promise completion as a ghost
 * counter, and the value types that travel through a completion.  Everything here is a MODEL WITH AN ASSUMED CONTRACT of a
 * libstdc++ / Qt type, or of a QXmpp type that is not the subject of C07 (QXmppPromise = C13, QXmppIq parsing = C01/C02);
 * each of them is listed in the unit's `assumed`.
 *
 * A-UMAP   std::unordered_map<QString, IqState>, seen through ONE arbitrary key g_wid (never assigned, chosen by the harness):
 *          `w_present` / `w` are membership and element of that key.  Every other key is unconstrained: looking it up yields
 *          end() or an element with arbitrary contents (kept in gh_other), inserting/erasing it never changes the witness
 *          entry.  find/emplace/erase/clear have their container meaning on the witness key: find = element iff present,
 *          emplace inserts only if absent and reports that, erase(it) removes exactly the element `it` designates, clear
 *          removes everything, move construction transfers all elements, extract(it) moves exactly that element into a node
 *          handle.  Iteration visits every element exactly once: the witness (if present) at a
 *          nondeterministic position among an arbitrary (unbounded) number of other elements.
 * A-PROMISE QXmppPromise<IqResult>::finish(v) completes the task of that promise with v, once per call (ghost: the promise of
 *          the witness request -- the g_wgen-th one registered under g_wid -- counts its completions in gh_completions and keeps the
 *          last value in gh_value);
 *          task() is a handle on the same state.  Continuations run by finish() are modelled only for cancelAll
 *          (-DREENTRANT_CONTINUATIONS, model_reenter.h: a continuation may start a new request). */
#ifndef C07_MODEL_H
#define C07_MODEL_H

/* ---- values carried by a completion -------------------------------------------------------------------------------- */
typedef int stanzaerr;                                  /* QXmppStanza::Error as an opaque value */
typedef struct qany { int kind; int val; } qany;        /* std::any: kind 0 empty, 1 QXmpp::SendError (val = enumerator), 2 QXmppStanza::Error (val = opaque) */
#define ANY_SENDERROR 1
#define ANY_STANZAERROR 2
typedef struct QXmppError { qstr description; qany error; } QXmppError;
typedef struct IqResult { int kind; qdom el; QXmppError err; } IqResult;   /* std::variant<QDomElement, QXmppError>: kind = index() */
#define IQ_ELEMENT 0
#define IQ_ERROR 1
static inline void IqResult_from_error(IqResult *r, const QXmppError *e) { r->kind = IQ_ERROR; r->el = 0; r->err = *e; }
typedef struct optErr { bool has; stanzaerr v; } optErr; /* std::optional<QXmppStanza::Error> */

stanzaerr __CPROVER_uninterpreted_stanzaerr_make(int type, int condition);
qstr __CPROVER_uninterpreted_stanzaerr_text(stanzaerr e);
static inline stanzaerr stanzaerr_make(int type, int condition) { return __CPROVER_uninterpreted_stanzaerr_make(type, condition); }
static inline qstr stanzaerr_text(stanzaerr e) { return __CPROVER_uninterpreted_stanzaerr_text(e); }

/* QXmppIq as far as this unit looks at it: the element it was parsed from, id and to.  parse()/errorOptional() are the
   stanza parser (not verified here): whether an <error/> child was found and what it contains are functions of the element */
typedef struct QXmppIq { qdom parsed_from; qstr id; qstr to; } QXmppIq;
bool __CPROVER_uninterpreted_iq_has_error(qdom e);
stanzaerr __CPROVER_uninterpreted_iq_error(qdom e);
static inline void QXmppIq_ctor(QXmppIq *iq) { iq->parsed_from = 0; iq->id = 0; iq->to = 0; }
static inline void QXmppIq_parse(QXmppIq *iq, qdom e) { iq->parsed_from = e; iq->id = qdom_attribute(e, S("id")); iq->to = qdom_attribute(e, S("to")); }
static inline void QXmppIq_errorOptional(optErr *r, const QXmppIq *iq) { r->has = __CPROVER_uninterpreted_iq_has_error(iq->parsed_from); r->v = __CPROVER_uninterpreted_iq_error(iq->parsed_from); }

/* ---- ghost state ------------------------------------------------------------------------------------------------------ */
qstr g_wid;                 /* the witness request id: arbitrary, never assigned by code or model */
int g_wgen;                 /* the witness generation: the witness REQUEST is the g_wgen-th request registered under g_wid (an id may be
                               reused once its request has left the table); arbitrary, never assigned */
int gh_gen_ctr;             /* number of requests registered under g_wid so far (emplace succeeded); generations are 1, 2, ... */
int gh_completions;         /* completions of the witness request (g_wid, g_wgen) */
IqResult gh_value;          /* value of its last completion */
#define STARTED (gh_gen_ctr >= g_wgen)   /* the witness request has been registered */
int gh_others_completed;    /* completions of promises registered under other keys (observed, no claim) */

qstr gh_cfg_jidBare;        /* the configured own bare JID (QXmppConfiguration::jidBare(), a pure getter) */

/* ---- promise / task ----------------------------------------------------------------------------------------------------- */
typedef struct qpromise { bool gh_is_w; int gh_gen; bool finished; } qpromise;   /* gh_is_w: registered under g_wid, as its gh_gen-th request */
typedef struct qtask { bool finished; bool of_w; IqResult value; } qtask; /* of_w: handle on the witness request's promise */
static inline void qpromise_ctor(qpromise *p) { p->gh_is_w = false; p->gh_gen = 0; p->finished = false; }
bool gh_reentrant;                       /* continuations start new requests while they are being run (chosen by the harness) */
struct OutgoingIqManager *gh_iqm_reenter; /* the table such continuations call back into */
void gh_continuation_runs(void);         /* units/C07/model_reenter.h */
static inline void qpromise_finish_result(qpromise *p, const IqResult *v) {
  p->finished = true;
  if (p->gh_is_w && p->gh_gen == g_wgen) { if (gh_completions < 1000) gh_completions++; gh_value = *v; }
  else if (gh_others_completed < 1000) gh_others_completed++;
#ifdef REENTRANT_CONTINUATIONS
  gh_continuation_runs();
#endif
}
static inline void qpromise_finish_error(qpromise *p, const QXmppError *e) { IqResult v; IqResult_from_error(&v, e); qpromise_finish_result(p, &v); }
static inline void qpromise_finish_element(qpromise *p, qdom e) { IqResult v; v.kind = IQ_ELEMENT; v.el = e; v.err.description = 0; v.err.error.kind = 0; v.err.error.val = 0; qpromise_finish_result(p, &v); }
static inline void qpromise_task(qtask *t, const qpromise *p) { t->finished = p->finished; t->of_w = p->gh_is_w; t->value.kind = 0; t->value.el = 0; t->value.err.description = 0; t->value.err.error.kind = 0; t->value.err.error.val = 0; }
static inline void makeReadyTask(qtask *t, const IqResult *v) { t->finished = true; t->of_w = false; t->value = *v; }
static inline bool qtask_isFinished(const qtask *t) { return t->finished; }

/* ---- the table ------------------------------------------------------------------------------------------------------------ */
typedef struct IqState { qpromise interface; qstr jid; } IqState;
typedef struct iqpair { qstr first; IqState second; } iqpair;
typedef iqpair *umap_it;                                 /* iterator: the element it designates, NULL = end() */
typedef struct umap { bool w_present; iqpair w; } umap;
typedef struct umap_emplace_ret { umap_it first; bool second; } umap_emplace_ret;
iqpair gh_other;                                         /* some element stored under a key != g_wid */
/* representation invariant of the view (required and re-established by every contract) */
#define UMAP_REP(m) ((m).w.first == g_wid && (m).w.second.interface.gh_is_w && !gh_other.second.interface.gh_is_w)

static inline void gh_other_havoc(qstr k) { gh_other.first = k; gh_other.second.jid = nondet_qstr(); gh_other.second.interface.gh_is_w = false; gh_other.second.interface.gh_gen = 0; gh_other.second.interface.finished = nondet_bool(); }
static inline umap_it umap_end(const umap *m) { return NULL; }
static inline umap_it umap_find(const umap *m, qstr k) {
  if (k == g_wid) return m->w_present ? (umap_it)&m->w : NULL;
  if (nondet_bool()) return NULL;
  gh_other_havoc(k);
  return &gh_other;
}
static inline void umap_emplace(umap_emplace_ret *r, umap *m, qstr k, const IqState *v) {
  if (k == g_wid) {
    r->first = &m->w;
    if (m->w_present) { r->second = false; return; }
    m->w.first = k; m->w.second = *v; m->w.second.interface.gh_is_w = true; m->w_present = true;
    /* one more request is registered under the witness id: it is the next generation */
    MODEL_LIMIT(gh_gen_ctr < 1000000, "more than 10^6 requests registered under one id");
    gh_gen_ctr++; m->w.second.interface.gh_gen = gh_gen_ctr;
    r->second = true;
    return;
  }
  r->second = nondet_bool();
  gh_other_havoc(k);
  if (r->second) { gh_other.second = *v; gh_other.second.interface.gh_is_w = false; gh_other.second.interface.gh_gen = 0; }
  r->first = &gh_other;
}
static inline void umap_erase(umap *m, umap_it it) {
  __CPROVER_assert(it != NULL, "[safety.erase_designates_an_element] erase() is called with an iterator that designates an element");
  if (it == &m->w) { MODEL_LIMIT(m->w_present, "erase of a stale witness iterator"); m->w_present = false; }
}
static inline void umap_clear(umap *m) { m->w_present = false; }
/* node handle (std::unordered_map::node_type): extract(it) takes exactly the element `it` designates out of the table and hands
   its ownership to the handle; mapped()/key() designate that element.  The handle is a local of the function under contract:
   when the function returns the handle -- and with it the IqState and its promise -- is destroyed.  The element lives in the
   ghost slot gh_node_slot so that the contract can see whether it was destroyed unfinished (one handle per call). */
typedef struct umap_node { bool has; } umap_node;
bool gh_node_used;          /* a node handle was extracted during this call (and is destroyed at its end) */
iqpair gh_node_slot;        /* the element it owns */
static inline void umap_extract(umap_node *r, umap *m, umap_it it) {
  __CPROVER_assert(it != NULL, "[safety.extract_designates_an_element] extract() is called with an iterator that designates an element");
  MODEL_LIMIT(!gh_node_used, "more than one node handle extracted in one call");
  gh_node_used = true; gh_node_slot = *it; r->has = true;
  if (it == &m->w) { MODEL_LIMIT(m->w_present, "extract of a stale witness iterator"); m->w_present = false; }
}
static inline IqState *umap_node_mapped(const umap_node *n) {
  __CPROVER_assert(n->has, "[safety.node_handle_not_empty] mapped() is called on a node handle that owns an element");
  return &gh_node_slot.second;
}
static inline qstr umap_node_key(const umap_node *n) {
  __CPROVER_assert(n->has, "[safety.node_handle_not_empty] key() is called on a node handle that owns an element");
  return gh_node_slot.first;
}
/* default construction: empty; move construction: the new map holds exactly the elements the source held, the source is left
   empty (A-UMAP-MOVE: libstdc++; the standard only says "valid but unspecified" -- the repaired cancelAll clear()s it anyway) */
static inline void umap_ctor(umap *m) { m->w_present = false; m->w.first = g_wid; m->w.second.jid = 0; m->w.second.interface.gh_is_w = true; m->w.second.interface.gh_gen = 0; m->w.second.interface.finished = false; }
static inline void umap_move_ctor(umap *d, umap *src) { *d = *src; src->w_present = false; }
/* iteration (one at a time): gh_it_others elements under other keys and, if gh_it_w, the witness are still to be visited */
#define UMAP_MAX_SIZE (1L << 62)   /* any number of elements a 64-bit process can hold */
long gh_it_others; bool gh_it_w; umap *gh_it_map;
static inline umap_it umap_pick(void) {
  if (gh_it_w && (gh_it_others == 0 || nondet_bool())) { gh_it_w = false; return &gh_it_map->w; }
  if (gh_it_others > 0) { gh_it_others--; gh_other_havoc(nondet_qstr()); __CPROVER_assume(gh_other.first != g_wid); return &gh_other; }
  return NULL;
}
static inline umap_it umap_begin(umap *m) { gh_it_map = m; gh_it_others = nondet_long(); __CPROVER_assume(gh_it_others >= 0 && gh_it_others < UMAP_MAX_SIZE); gh_it_w = m->w_present; return umap_pick(); }
static inline umap_it umap_next(umap_it it) { MODEL_LIMIT(it != NULL, "++ on end()"); return umap_pick(); }
#endif
