/* A-RESETCACHE (assumed; StreamAckManager::resetCache is C09's subject): it reports every unacknowledged packet as failed, which
 * runs the continuations sendIq attached to those packets -- i.e. any number of OutgoingIqManager_sendIq_onSent(error, id) calls.
 * By that continuation's (verified) contract the effect of any such sequence on the witness request is: nothing, or -- if it is
 * pending -- one completion with a send error and removal.  gh_iqm: the request table those continuations captured. */
OutgoingIqManager *gh_iqm;
OutgoingIqManager *nondet_iqm(void);
#define RESET_OLD_IN (__CPROVER_old(gh_iqm->m_requests.w_present) && __CPROVER_old(gh_iqm->m_requests.w.second.interface.gh_gen) == g_wgen)
void StreamAckManager_resetCache(StreamAckManager *m)
__CPROVER_requires(gh_iqm != NULL && UMAP_REP(gh_iqm->m_requests) && GHOST_RANGES)
__CPROVER_assigns(gh_iqm->m_requests.w_present, gh_iqm->m_requests.w.second.interface.finished, gh_other, gh_completions, gh_value, gh_others_completed)
__CPROVER_ensures(UMAP_REP(gh_iqm->m_requests) && 0 <= gh_others_completed && gh_others_completed <= 1000)
__CPROVER_ensures(gh_iqm->m_requests.w_present ==> (__CPROVER_old(gh_iqm->m_requests.w_present) && gh_completions == __CPROVER_old(gh_completions) && VALUE_UNCHANGED))
__CPROVER_ensures(!__CPROVER_old(gh_iqm->m_requests.w_present) ==> (!gh_iqm->m_requests.w_present && gh_completions == __CPROVER_old(gh_completions) && VALUE_UNCHANGED))
__CPROVER_ensures((__CPROVER_old(gh_iqm->m_requests.w_present) && !gh_iqm->m_requests.w_present) ==> (gh_completions == __CPROVER_old(gh_completions) + (RESET_OLD_IN ? 1 : 0) && (RESET_OLD_IN ? gh_value.kind == IQ_ERROR : VALUE_UNCHANGED)))
;
