/* Continuations that call back into the request table (cancelAll proof, -DREENTRANT_CONTINUATIONS):
 * QXmppPromise::finish runs the continuation attached to the task synchronously; application code in that continuation may
 * issue a new request.  gh_reentrant selects whether it does; the new request goes through OutgoingIqManager::start (by its
 * verified contract) with an arbitrary id and addressee. */
void gh_continuation_runs(void)
{
  if (gh_reentrant && gh_iqm_reenter != NULL && nondet_bool()) {
    qtask t;
    OutgoingIqManager_start(gh_iqm_reenter, &t, nondet_qstr(), nondet_qstr());
  }
}
