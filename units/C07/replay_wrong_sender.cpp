// Native replay for handleStanza's "a stanza that is not accepted leaves every pending request untouched; a request leaves the
// table only by being completed exactly once": a pending request, then a result with the right id from ANOTHER sender.
// Calls the REAL OutgoingIqManager built from the working tree.  Exit 0 = violation reproduced, 1 = not reproduced.
#include <QCoreApplication>
#include <QDomDocument>
#include <cstdio>
#include "QXmppOutgoingClient.h"
#include "QXmppOutgoingClient_p.h"
#include "QXmppTask.h"

int main(int argc, char **argv)
{
    QCoreApplication app(argc, argv);
    QXmppOutgoingClient client(nullptr);
    auto &iqs = client.iqManager();
    QObject ctx;
    int completed = 0;
    iqs.start(QStringLiteral("req1"), QStringLiteral("server.example")).then(&ctx, [&](QXmppOutgoingClient::IqResult &&) { completed++; });

    QDomDocument doc;
    doc.setContent(QStringLiteral("<iq xmlns='jabber:client' type='result' id='req1' from='stranger@evil.example/x'/>"), true);
    bool handled = iqs.handleStanza(doc.documentElement());
    bool stillPending = iqs.hasId(QStringLiteral("req1"));
    std::printf("forged reply handled: %s; request completed %d time(s); still in table: %s\n", handled ? "yes" : "no", completed, stillPending ? "yes" : "no");
    // property: not handled => still pending and not completed; it may leave the table only by being completed exactly once
    bool violated = handled || completed != 0 || !stillPending;
    std::printf(violated ? "REPRODUCED: a stanza with the right id from another sender changed the pending request\n" : "NOT-REPRODUCED\n");
    return violated ? 0 : 1;
}
