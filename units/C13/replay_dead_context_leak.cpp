// units/C13/replay_dead_context_leak.cpp -- native reproduction of finding C13-F1 on the REAL library.
// A continuation that holds a copy of its own task (the situation QXmppTask::then() itself anticipates: "clear continuation to
// avoid deadlocks in case the user captured this QXmppTask") is registered; its context object is destroyed; the promise is
// finished; every handle is dropped.  finish() neither runs nor clears the continuation, so the cycle
// record -> std::function -> closure -> task copy -> record keeps the record, the closure and everything it captured alive for ever.
// Observation without a sanitizer: a shared token captured by the continuation is still referenced after all handles are gone.
#include "QXmppPromise.h"
#include "QXmppTask.h"

#include <cstdio>
#include <memory>
#include <string>

#include <QObject>

template<typename T, typename Finish>
static long scenario(bool destroyContext, bool captureTask, Finish finish)
{
    auto token = std::make_shared<int>(0);
    int runs = 0;
    {
        QXmppPromise<T> promise;
        QXmppTask<T> task = promise.task();
        auto *context = new QObject;
        if constexpr (std::is_void_v<T>) {
            if (captureTask) {
                task.then(context, [task, token, &runs]() { runs++; });
            } else {
                task.then(context, [token, &runs]() { runs++; });
            }
        } else {
            if (captureTask) {
                task.then(context, [task, token, &runs](T &&) { runs++; });
            } else {
                task.then(context, [token, &runs](T &&) { runs++; });
            }
        }
        if (destroyContext) {
            delete context;
            context = nullptr;
        }
        finish(promise);
        delete context;
    }
    // promise and task are gone; the only legitimate owner of the token is this function
    std::printf("  context %s at finish, continuation %s its task: runs=%d, references to the captured token after all handles are dropped = %ld\n",
                destroyContext ? "destroyed" : "alive    ", captureTask ? "holds" : "does not hold", runs, token.use_count());
    return token.use_count();
}

int main()
{
    bool leak = false, controlsClean = true;
    std::printf("T = void\n");
    auto fv = [](QXmppPromise<void> &p) { p.finish(); };
    controlsClean &= scenario<void>(false, true, fv) == 1;
    controlsClean &= scenario<void>(true, false, fv) == 1;
    leak |= scenario<void>(true, true, fv) > 1;
    std::printf("T = std::string\n");
    auto fs = [](QXmppPromise<std::string> &p) { p.finish(std::string("v")); };
    controlsClean &= scenario<std::string>(false, true, fs) == 1;
    controlsClean &= scenario<std::string>(true, false, fs) == 1;
    leak |= scenario<std::string>(true, true, fs) > 1;
    std::printf("T = std::unique_ptr<int>\n");
    auto fm = [](QXmppPromise<std::unique_ptr<int>> &p) { p.finish(std::make_unique<int>(1)); };
    controlsClean &= scenario<std::unique_ptr<int>>(false, true, fm) == 1;
    controlsClean &= scenario<std::unique_ptr<int>>(true, false, fm) == 1;
    leak |= scenario<std::unique_ptr<int>>(true, true, fm) > 1;
    std::printf("controls (live context, or no self-reference) released everything: %s\n", controlsClean ? "yes" : "NO");
    std::printf("%s\n", leak ? "REPRODUCED: a continuation whose context is dead at finish() stays registered; with a copy of its task inside it is never released" : "NOT-REPRODUCED");
    return leak ? 0 : 1;
}
