/* units/C13/model.h -- ASSUMED contracts of the libstdc++ / Qt types the task record is built from, and the environment
 * (the user's continuation).  Nothing in this file models QXmpp code.
 *
 * A-VALUE    a value of the result type T is an abstract identity (`cval`); T's own copy / move / destructor are not
 *            verified; std::move / std::forward are casts; moving a value transports its identity.
 * A-CONV     T's converting constructor T(U&&) is a function of its argument (uninterpreted).
 * A-NEW      `new T(v)` yields a fresh heap box holding v; `delete p` releases it (malloc/free: CBMC then checks every
 *            dereference and release of a box for use-after-free / double free).
 * A-SHARED   std::shared_ptr<TaskData> is the pointer to the one shared record: every copy of a TaskPrivate / QXmppTask /
 *            QXmppPromise points to the same record; make_shared value-initialises the record with its default member
 *            initialisers (TaskData_default_init is generated from the real field list).  Reference counting and the
 *            release of the record are NOT modelled.
 * A-QPOINTER QPointer<const QObject>::isNull() <=> it was never set / set to nullptr / the object has been destroyed.
 *            QObject is opaque (never dereferenced).  "Destroyed" is a ghost predicate of the object's address: for one
 *            arbitrary witness object gh_wctx it is the ghost flag gh_wctx_alive (the lemma's "context destroyed" event
 *            clears it); for every other object it is an uninterpreted (fixed but arbitrary) predicate.
 * A-FUNCTION std::function<void(TaskPrivate&, void*)> is a callable handle: empty, or a copy of the closure object of the
 *            wrapper lambda of QXmppTask<T>::then() for one of the three T (tag K_*).  Copy-assignment copies the
 *            handle, operator bool is "not empty", operator() runs the stored closure's operator() in place (the lowered
 *            real lambda body).  Calling an empty std::function (std::bad_function_call) is reported as a violation.
 *            Destruction of the previous target on assignment is not modelled. */
#ifndef C13_MODEL_H
#define C13_MODEL_H
#include "base.h"
#include <stdlib.h>

typedef int cval;
typedef int uval;
cval nondet_cval(void);
cval __CPROVER_uninterpreted_cval_from_uval(uval u);
#define cval_from_uval(u) __CPROVER_uninterpreted_cval_from_uval(u)
unsigned gh_boxes_live;   /* ghost (modular counter): heap boxes created by `new T(v)` and not yet released by `delete` */
static inline cval *cval_new(cval v) { cval *p = malloc(sizeof(cval)); __CPROVER_assume(p != NULL); *p = v; gh_boxes_live++; return p; }
/* `*p` for a T* made from the record's void* result pointer.  The library's own guards (Q_ASSERT(hasResult())) are compiled out
 * (QT_NO_DEBUG), so the model carries the check: reading the value while no result is stored is a named violation, and the
 * read then yields an arbitrary value (cval_garbage, chosen by the harness) instead of undefined behaviour, so that the
 * remaining obligations of the function are still decided.  A non-null pointer is returned as it is: a dangling one is still
 * caught by CBMC's own dereference checks. */
cval cval_garbage;
static inline cval *cval_at(cval *p)
{
  __CPROVER_assert(p != NULL, "[pre.result_value_is_read_only_while_a_result_is_stored] the stored result is dereferenced only when one is present");
  return p != NULL ? p : &cval_garbage;
}
static inline void cval_delete(cval *p) { if (p != NULL) gh_boxes_live--; free(p); }

typedef struct QObject QObject;
const QObject *nondet_qobject(void);
const QObject *gh_wctx;   /* witness context object (never assigned by verified code) */
bool gh_wctx_alive;       /* ... and whether it still exists */
bool __CPROVER_uninterpreted_other_object_alive(const QObject *o);
#define OBJ_ALIVE(o) ((o) == gh_wctx ? gh_wctx_alive : __CPROVER_uninterpreted_other_object_alive(o))
typedef struct QPointerObj { const QObject *o; } QPointerObj;
static inline bool QPointerObj_isNull(const QPointerObj *p) { return p->o == NULL || !OBJ_ALIVE(p->o); }
static inline void QPointerObj_assign(QPointerObj *p, const QObject *o) { p->o = o; }

/* the user's continuation object (ContVoid / ContCopy / ContMove of inst.cpp): the identity of one attachment */
typedef struct ucont { int id; } ucont;
/* closure object of the wrapper lambda in QXmppTask<T>::then():  [f = std::forward<Continuation>(continuation)] */
typedef struct closure { ucont f; } closure;
enum { K_EMPTY = 0, K_VOID = 1, K_COPY = 2, K_MOVE = 3 };
typedef struct qfunction { int kind; closure c; } qfunction;
static inline void qfunction_from_closure(qfunction *fn, int kind, const ucont *f) { fn->kind = kind; fn->c.f = *f; }
static inline void qfunction_assign(qfunction *dst, const qfunction *src) { *dst = *src; }
static inline bool qfunction_bool(const qfunction *fn) { return fn->kind != K_EMPTY; }

/* void (*)(void *): null, or the address of the captureless lambda `[](void *r) { delete static_cast<T *>(r); }` of
 * QXmppPromise<T>'s constructor for T = copyable / move-only (its lowered body is QXmppPromise_<T>_deleter) */
struct qdeleter_s { char tag; };
typedef const struct qdeleter_s *qdeleter;
extern const struct qdeleter_s DELETER_COPY, DELETER_MOVE;

/* ---- ghost state: one arbitrary (witness) attachment, identified by the id of its continuation object */
int g_watt;          /* never assigned by any verified function */
unsigned gh_runs;    /* how often the continuation object with id g_watt has been run (modular counter, like the other two) */
cval gh_delivered;   /* the value it was run with (non-void T) */
cval g_stored;       /* logical variable of the contracts: value in the result box before the call (never assigned) */
unsigned gh_total_runs;   /* runs of all continuation objects together */
/* ---- environment: re-entrant attach.  The continuation object with id gh_reentering_id (if re-entry is enabled) has captured a
 * copy of its task and, from inside its body, attaches one more continuation (id gh_nested_id, a different attachment) to it.
 * All three are chosen arbitrarily by the harness and never assigned.  The nested continuation does not attach again (depth 1). */
bool gh_reentry_enabled;
int gh_reentering_id, gh_nested_id;
#define REENTERS(id) (gh_reentry_enabled && (id) == gh_reentering_id)
#endif
