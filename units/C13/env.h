/* units/C13/env.h -- environment of the task record (included after the record types and the prototypes of the lowered functions):
 * the user's continuation, dispatch of a std::function call to the stored closure, dispatch of the deleter pointer. */
const struct qdeleter_s DELETER_COPY = {1}, DELETER_MOVE = {2};

/* the user's continuation is run: the only place where the ghost run counters change */
static inline void ucont_run_value(const ucont *f, cval v)
{
  if (f->id == g_watt) { gh_runs++; gh_delivered = v; }
  gh_total_runs++;
}
static inline void ucont_run_void(const ucont *f)
{
  if (f->id == g_watt) { gh_runs++; }
  gh_total_runs++;
}

/* re-entrant attach from inside the continuation that has just been run (ghost hook placed directly after the call of the
 * user's continuation in the lowered wrapper lambda and in the lowered then()): the continuation captured a copy of its task
 * ("in case the user captured this QXmppTask") and calls then() on it; that call is taken by its CONTRACT (induction on the nesting) */
#define DEF_REENTRY(T) static inline void USER_REENTRY_##T(TaskPrivate *d, int running_id) { \
  if (REENTERS(running_id)) { QXmppTask t; t.d = *d; ucont f2; f2.id = gh_nested_id; QXmppTask_##T##_then_nested(&t, d->d->context.o, &f2); } }
DEF_REENTRY(void)
DEF_REENTRY(copy)
DEF_REENTRY(move)

/* A-FUNCTION: std::function::operator() runs the stored closure in place */
static inline void qfunction_call(const qfunction *fn, TaskPrivate *d, void *result)
{
  __CPROVER_assert(fn->kind != K_EMPTY, "[pre.invoked_std_function_is_not_empty] an empty std::function is never invoked (std::bad_function_call)");
  MODEL_LIMIT(fn->kind == K_EMPTY || fn->kind == K_VOID || fn->kind == K_COPY || fn->kind == K_MOVE, "std::function target other than a then() wrapper");
  if (fn->kind == K_VOID) QXmppTask_void_then_wrapper((closure *)&fn->c, d, result);
  else if (fn->kind == K_COPY) QXmppTask_copy_then_wrapper((closure *)&fn->c, d, result);
  else if (fn->kind == K_MOVE) QXmppTask_move_then_wrapper((closure *)&fn->c, d, result);
}

/* call through the function pointer TaskData::freeResult */
static inline void qdeleter_call(qdeleter k, void *p)
{
  MODEL_LIMIT(k == &DELETER_COPY || k == &DELETER_MOVE, "deleter other than the lambda installed by QXmppPromise<T>'s constructor");
  if (k == &DELETER_COPY) QXmppPromise_copy_deleter(p);
  else if (k == &DELETER_MOVE) QXmppPromise_move_deleter(p);
}
