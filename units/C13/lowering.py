"""C13 lowering: profile, Lowerer subclass (if-constexpr, lambda -> std::function, constructor initialisers, calls through a
function-pointer member) and the finder for instantiated template members in the unit's instantiating TU."""
import os, re, json
from vlib import astx
from vlib.cxx2c import Lowerer, Profile, Unsupported, qt, strip_type, strip_amp

HERE = os.path.dirname(os.path.abspath(__file__))
INST = os.path.join(HERE, 'inst.cpp')

FN_T = 'std::function<void (QXmpp::Private::TaskPrivate,void*)>'
SENDRESULT = 'std::variant<QXmpp::SendSuccess,QXmppError>'

# the three instantiations: tag -> (substring of the template argument as clang spells it, value kind, K_ constant)
INSTS = {
    'void': ('void', 'K_VOID'),
    'copy': ('std::variant<QXmpp::SendSuccess, QXmppError>', 'K_COPY'),
    'move': ('std::unique_ptr<int', 'K_MOVE'),
}


class L13(Lowerer):
    """`inst` = tag of the instantiation being lowered; `captures` = {name of an init-capture: C expression} when the
    function is the operator() of a lambda"""
    inst = None
    captures = {}
    param_names = None     # names for parameters the source leaves unnamed (by position), so that the contract can speak about them

    # -- if constexpr: clang has already decided the branch (ConstantExpr value=...); the discarded branch is a NullStmt
    def ifstmt(self, n, ind):
        if n.get('isConstexpr'):
            inner = list(n['inner'])
            c = inner[0]
            if c.get('kind') != 'ConstantExpr' or c.get('value') not in ('true', 'false') or n.get('hasInit') or n.get('hasVar'):
                raise Unsupported('if constexpr without a resolved constant condition')
            self.fire('if-constexpr:resolved-by-clang')
            taken = inner[1] if c['value'] == 'true' else (inner[2] if len(inner) > 2 else None)
            if taken is not None and taken.get('kind') != 'NullStmt':
                self.block(taken, ind)
            return
        return super().ifstmt(n, ind)

    # -- *reinterpret_cast<T *>(void pointer): the read of the stored result goes through the model's presence check
    def expr(self, n):
        n0 = self.skip(n)
        if n0.get('kind') == 'UnaryOperator' and n0.get('opcode') == '*':
            sub = self.skip(n0['inner'][0])
            if sub.get('kind') in ('CXXReinterpretCastExpr', 'CXXStaticCastExpr', 'CStyleCastExpr') and sub.get('castKind') == 'BitCast':
                try:
                    t = self.ntype(sub)
                except Unsupported:
                    t = None
                if t == 'cval*':
                    self.fire('deref:result-pointer')
                    return '(*cval_at(%s))' % super().expr(sub)
        return super().expr(n)

    def vardecl(self, v, sp):
        if v.get('kind') == 'UsingDirectiveDecl':
            return
        return super().vardecl(v, sp)

    def declref(self, n):
        rd = n['referencedDecl']
        if rd.get('kind') == 'VarDecl' and rd['id'] not in self.locals and rd.get('name') in self.captures:
            self.fire('capture:' + rd['name'])
            return self.captures[rd['name']]
        return super().declref(n)

    # -- std::function constructed from a lambda: the key must not contain the lambda's source position
    def ctor_key(self, n):
        t = self.ntype(n)
        argn = [a for a in n.get('inner', []) if a.get('kind') != 'CXXDefaultArgExpr']
        if len(argn) == 1 and self.skip(argn[0]).get('kind') == 'LambdaExpr':
            return t, argn, 'ctor:%s(lambda)' % t
        return super().ctor_key(n)

    def construct(self, n, target):
        t = self.ntype(n)
        argn = [a for a in n.get('inner', []) if a.get('kind') != 'CXXDefaultArgExpr']
        if t in self.p.class_types and len(argn) == 1 and self.skip(argn[0]).get('kind') == 'LambdaExpr':
            key = 'ctor:%s(lambda)' % t
            rule = self.p.calls.get(key)
            if rule is None:
                raise Unsupported(key)
            self.fire(key)
            return rule(self, n, target)
        return super().construct(n, target)

    # -- call through a function-pointer data member:  d->freeResult(d->result)
    def fncall(self, n):
        callee = self.skip(n['inner'][0])
        if callee.get('kind') == 'MemberExpr' and '(*)' in qt(callee):
            key = 'callptr:' + callee['name']
            rule = self.p.calls.get(key)
            if rule is None:
                raise Unsupported(key)
            self.fire(key)
            args = [self.expr(callee)] + [self.arg(a) for a in n['inner'][1:]]
            return '%s(%s)' % (rule[1], ', '.join(args))
        return super().fncall(n)

    # -- captureless lambda converted to a function pointer: TaskPrivate([](void *r) { delete static_cast<T *>(r); })
    def membercall(self, n):
        me = self.skip(n['inner'][0])
        if me.get('kind') == 'MemberExpr' and me.get('name', '').startswith('operator void (*)') and self.skip(me['inner'][0]).get('kind') == 'LambdaExpr':
            lam = self.skip(me['inner'][0])
            if len(lam['inner']) != 2:
                raise Unsupported('lambda with captures converted to a function pointer')
            return self.custom('lambda-to-function-pointer', lam)
        return super().membercall(n)

    # -- constructors: member initialisers are part of the verified text
    def lower(self, extra_params=()):
        if self.param_names:
            inner, i = [], 0
            for c in self.decl['inner']:
                if c.get('kind') == 'ParmVarDecl':
                    if not c.get('name') and i < len(self.param_names):
                        c = dict(c, name=self.param_names[i])
                        self.fire('param:named-by-position')
                    i += 1
                inner.append(c)
            self.decl = dict(self.decl, inner=inner)
        text = super().lower(extra_params)
        inits = [c for c in self.decl.get('inner', []) if c.get('kind') == 'CXXCtorInitializer']
        if not inits:
            return text
        lines = []
        for ci in inits:
            fld = ci.get('anyInit', {})
            if fld.get('kind') != 'FieldDecl':
                raise Unsupported('constructor initialiser that is not a data member')
            saved, self.out, self.pre = self.out, [], []
            ft = self.ctype(fld['type'].get('qualType'))
            init = self.skip(ci['inner'][0])
            tgt = 'self->%s' % fld['name']
            if ft in self.p.class_types and init.get('kind') in ('CXXConstructExpr', 'CXXTemporaryObjectExpr'):
                self.construct(init, tgt)
            else:
                e = self.expr(init)
                self.pre.append('%s = %s;' % (tgt, e))
            self.flush('  ')
            lines += self.out
            self.out = saved
            self.fire('ctor-initialiser:' + fld['name'])
        i = text.index('\n{\n') + 3
        return text[:i] + '\n'.join(lines) + '\n' + text[i:]


def closure_fields(lw, lam):
    """captures of the then() wrapper lambda as fields of the closure struct: [(name, C type, mode)], mode =
    'value' (held by value: a TaskPrivate captured this way is a shared_ptr copy, i.e. an OWNER of its record),
    'ref' (captured by reference) or 'ptr' (a raw pointer value): non-owning.
    clang's JSON leaves the closure's fields unnamed; the names are those of the captured variables the body refers to
    (matched by type; ambiguity is a tool limit), a capture the body never uses is called _cap<i>."""
    rec = lam['inner'][0]
    fields = [c for c in rec.get('inner', []) if c.get('kind') == 'FieldDecl']
    inits = lam['inner'][1:-1]
    if len(fields) != len(inits):
        raise Unsupported('then() wrapper lambda: %d closure fields but %d capture initialisers (a `this` or default capture?)' % (len(fields), len(inits)))
    ops = [c for c in rec.get('inner', []) if c.get('kind') == 'CXXMethodDecl' and c.get('name') == 'operator()']
    if len(ops) != 1:
        raise Unsupported('then() wrapper lambda without a single operator()')
    declared, used = set(), []

    def walk(n):
        if isinstance(n, dict):
            if n.get('kind') in ('VarDecl', 'ParmVarDecl') and 'id' in n:
                declared.add(n['id'])
            rd = n.get('referencedDecl')
            if n.get('kind') == 'DeclRefExpr' and rd and rd.get('kind') == 'VarDecl':
                used.append((rd['id'], rd.get('name'), strip_type(rd.get('type', {}).get('qualType', ''))))
            for c in n.get('inner', []):
                walk(c)
    walk(ops[0])
    names = {}
    for vid, name, t in used:
        if vid not in declared:
            names.setdefault(vid, (name, t))
    out, taken = [], set()
    for i, fd in enumerate(fields):
        q = fd['type']['qualType']
        mode = 'ref' if q.strip().endswith('&') else ('ptr' if q.strip().endswith('*') else 'value')
        ct = lw.ntype(fd)
        cands = [(vid, nm) for vid, (nm, t) in names.items() if vid not in taken and t == strip_type(q)]
        if len(cands) > 1:
            raise Unsupported('then() wrapper lambda: two captures of type %s cannot be told apart' % q)
        if cands:
            taken.add(cands[0][0])
            nm = cands[0][1]
        else:
            nm = '_cap%d' % i
        if mode == 'value' and ct.endswith('*'):
            mode = 'ptr'
        out.append((nm, ct, mode))
    return out


def closure_typedef(fields):
    """C struct of the closure + the ownership vocabulary generated from it"""
    lines = []
    for nm, ct, mode in fields:
        lines.append('  %s %s%s;' % (ct, '*' if mode == 'ref' else '', nm))
    owners = ['((c).%s.d == (rec))' % nm for nm, ct, mode in fields if ct == 'TaskPrivate' and mode == 'value']
    return ('typedef struct closure {\n%s\n} closure;\n' % '\n'.join(lines),
            '/* the closure holds a strong handle (a by-value copy of a TaskPrivate = a std::shared_ptr copy) on record rec */\n'
            '#define CLOSURE_OWNS(c, rec) (%s)\n' % (' || '.join(owners) if owners else 'false'))


def capture_map(fields):
    return {nm: ('(*self->%s)' % nm if mode == 'ref' else 'self->%s' % nm) for nm, ct, mode in fields}


def lambda_to_function(lw, n, target):
    """std::function<void(TaskPrivate&, void*)> constructed from the wrapper lambda of QXmppTask<T>::then():
    every capture initialises the field of the closure object with the same name; the body is lowered separately"""
    lam = lw.skip([a for a in n['inner'] if a.get('kind') != 'CXXDefaultArgExpr'][0])
    fields = closure_fields(lw, lam)
    if not any(ct == 'ucont' for nm, ct, mode in fields):
        raise Unsupported('then() wrapper lambda does not capture the continuation')
    dst = target or lw.newtmp()
    if not target:
        lw.pre.append('qfunction %s;' % dst)
    lw.pre.append('%s.kind = %s;' % (dst, INSTS[lw.inst][1]))
    for (nm, ct, mode), init in zip(fields, lam['inner'][1:-1]):
        tgt = '%s.c.%s' % (dst, nm)
        i0 = lw.skip(init)
        if mode == 'ref':
            lw.pre.append('%s = %s;' % (tgt, lw.addr(i0)))
        elif ct in lw.p.class_types and i0.get('kind') in ('CXXConstructExpr', 'CXXTemporaryObjectExpr'):
            lw.construct(i0, tgt)
        else:
            lw.pre.append('%s = %s;' % (tgt, lw.expr(i0)))
        lw.fire('capture-init:' + mode)
    return dst


def task_ctor(lw, n, target):
    """QXmppTask<T>(TaskPrivate) -- the private constructor of the same instantiation (lowered as QXmppTask_<inst>_ctor)"""
    argn = [a for a in n.get('inner', []) if a.get('kind') != 'CXXDefaultArgExpr']
    dst = target or lw.newtmp()
    if not target:
        lw.pre.append('QXmppTask %s;' % dst)
    args = [lw.arg(a) for a in argn]
    lw.pre.append('QXmppTask_%s_ctor(%s%s);' % (lw.inst, lw.addr_of(dst), ''.join(', ' + a for a in args)))
    return dst


def new_value(lw, n):
    """new T(<value>)  ->  a fresh box holding the value"""
    if n.get('kind') != 'CXXNewExpr' or n.get('isArray') or n.get('isPlacement'):
        raise Unsupported('new-expression other than `new T(value)`')
    ce = lw.skip(n['inner'][0])
    if ce.get('kind') != 'CXXConstructExpr':
        raise Unsupported('new-expression without a constructor call')
    return 'cval_new(%s)' % lw.construct_value(ce, lw.ntype(ce), None)


def delete_value(lw, n):
    if n.get('kind') != 'CXXDeleteExpr' or n.get('isArray'):
        raise Unsupported('delete[]')
    return 'cval_delete(%s)' % lw.expr(n['inner'][0])


def same_object(lw, n, args):
    """std::move(x) / std::forward<T>(x): a cast; the argument is passed by address (T&), the value of the call is the object"""
    return strip_amp(args[0])


def ptr_cast(lw, n):
    return '((%s)%s)' % (lw.ntype(n), lw.expr(n['inner'][0]))


def profile():
    types = {
        'QXmpp::Private::TaskPrivate': 'TaskPrivate', 'TaskPrivate': 'TaskPrivate',
        'QXmpp::Private::TaskData': 'TaskData', 'TaskData': 'TaskData',
        'std::shared_ptr<TaskData>': 'TaskData*', 'std::shared_ptr<QXmpp::Private::TaskData>': 'TaskData*',
        'shared_ptr<_NonArray<QXmpp::Private::TaskData>>': 'TaskData*',
        'std::function<void (TaskPrivate,void*)>': 'qfunction', FN_T: 'qfunction',
        'QPointer<QObject>': 'QPointerObj', 'QObject': 'QObject',
        'void (*)(void*)': 'qdeleter',
        'ContVoid': 'ucont', 'ContCopy': 'ucont', 'ContMove': 'ucont',
        SENDRESULT: 'cval', 'QXmpp::SendResult': 'cval', 'std::unique_ptr<int>': 'cval', 'MoveOnly': 'cval',
        'QXmpp::SendSuccess': 'uval',
        'QXmppTask<void>': 'QXmppTask', 'QXmppTask<%s>' % SENDRESULT: 'QXmppTask', 'QXmppTask<std::unique_ptr<int>>': 'QXmppTask',
        'QXmppPromise<void>': 'QXmppPromise', 'QXmppPromise<%s>' % SENDRESULT: 'QXmppPromise', 'QXmppPromise<std::unique_ptr<int>>': 'QXmppPromise',
    }
    calls = {
        # std::shared_ptr<TaskData>: A-SHARED the pointer to the one shared record
        'op->:TaskData*': ('arg', 0),
        'fn:make_shared/0': ('fn', 'TaskData_make_shared'),
        # QPointer<const QObject>
        'QPointerObj::isNull/0': ('fn', 'QPointerObj_isNull'),
        'op=:QPointerObj:QObject*': ('fn', 'QPointerObj_assign'),
        # std::function
        'ctor:qfunction()': ('zero',),
        'ctor:qfunction(lambda)': lambda_to_function,
        'op=:qfunction:qfunction': ('fn', 'qfunction_assign'),
        'qfunction::operator bool/0': ('fn', 'qfunction_bool'),
        'op():qfunction:TaskPrivate': ('fn', 'qfunction_call'),
        # function pointer member freeResult
        'callptr:freeResult': ('fn', 'qdeleter_call'),
        # the user's continuation objects
        'op():ucont': ('fn', 'ucont_run_void'),
        'op():ucont:cval': ('fn', 'ucont_run_value'),
        # values of the result type
        'fn:move/1': same_object, 'fn:forward/1': same_object,
        'ctor:cval(uval)': ('expr', 'cval_from_uval({0})'),
        'expr:CXXNewExpr': new_value, 'expr:CXXDeleteExpr': delete_value,
        'cast:BitCast:void*': ptr_cast, 'cast:BitCast:cval*': ptr_cast,
        # repository functions (lowered themselves; replaced by their contracts in callers' proofs)
        'TaskPrivate::isFinished/0': ('callee', 'TaskPrivate_isFinished'),
        'TaskPrivate::setFinished/1': ('callee', 'TaskPrivate_setFinished'),
        'TaskPrivate::isContextAlive/0': ('callee', 'TaskPrivate_isContextAlive'),
        'TaskPrivate::setContext/1': ('callee', 'TaskPrivate_setContext'),
        'TaskPrivate::result/0': ('callee', 'TaskPrivate_result'),
        'TaskPrivate::setResult/1': ('callee', 'TaskPrivate_setResult'),
        'TaskPrivate::resetResult/0': ('callee', 'TaskPrivate_resetResult'),
        'TaskPrivate::continuation/0': ('calleeret', 'TaskPrivate_continuation', 'qfunction'),
        'TaskPrivate::setContinuation/1': ('callee', 'TaskPrivate_setContinuation'),
        'TaskPrivate::invokeContinuation/1': ('callee', 'TaskPrivate_invokeContinuation'),
        'ctor:TaskPrivate(qdeleter)': ('callee', 'TaskPrivate_ctor'),
        # members of the instantiation being lowered
        'QXmppTask::hasResult/0': lambda lw, n, args: 'QXmppTask_%s_hasResult(%s)' % (lw.inst, ', '.join(args)),
        'QXmppTask::takeResult/0': lambda lw, n, args: 'QXmppTask_%s_takeResult(%s)' % (lw.inst, ', '.join(args)),
        'QXmppTask::isFinished/0': lambda lw, n, args: 'QXmppTask_%s_isFinished(%s)' % (lw.inst, ', '.join(args)),
        'ctor:QXmppTask(TaskPrivate)': task_ctor,
        'lambda-to-function-pointer': lambda lw, n: '&DELETER_%s' % lw.inst.upper(),
    }
    # ghost hooks: the point directly after the user's continuation has been called is where a re-entrant attach takes place
    hooks = []
    for inst in INSTS:
        hooks.append({'id': 'reentry_in_wrapper_' + inst, 'fn': 'QXmppTask_%s_then_wrapper' % inst, 'after': r'ucont_run_(void|value)\(&self->f', 'count': 1,
                      'emit': 'USER_REENTRY_%s(d, self->f.id);' % inst})
        hooks.append({'id': 'reentry_in_then_' + inst, 'fn': 'QXmppTask_%s_then' % inst, 'after': r'ucont_run_(void|value)\(continuation', 'count': 1,
                      'emit': 'USER_REENTRY_%s(&self->d, continuation->id);' % inst})
    return Profile(types=types, class_types={'TaskPrivate', 'TaskData', 'qfunction', 'QPointerObj', 'ucont', 'QXmppTask', 'QXmppPromise'}, calls=calls, hooks=hooks)


def find_member(filt, cls, targ, name, sig=None):
    """the instantiated definition of member `name` of the specialisation cls<targ> in the instantiating TU.
    Returns the declaration node (with body)."""
    docs, errs = astx.dump(INST, filt)
    found = []

    def walk(d, spec, incls):
        k = d.get('kind')
        if k == 'ClassTemplateSpecializationDecl' and d.get('name') == cls:
            ta = [c for c in d.get('inner', []) if c.get('kind') == 'TemplateArgument']
            spec = [c.get('type', {}).get('qualType', '') for c in ta]
            incls = True
        if k in ('CXXMethodDecl', 'CXXConstructorDecl', 'CXXDestructorDecl') and d.get('name') == name and astx.has_body(d) and incls and spec is not None:
            if len(spec) == 1 and (spec[0] == targ or (targ != 'void' and spec[0].startswith(targ))):
                if sig is None or sig in qt(d):
                    found.append(d)
            return
        if k in ('ClassTemplateDecl', 'ClassTemplateSpecializationDecl', 'CXXRecordDecl', 'FunctionTemplateDecl'):
            for c in d.get('inner', []):
                walk(c, spec, incls)
    for d in docs:
        walk(d, None, False)
    seen = {}
    for c in found:
        seen.setdefault(c['id'], c)
    found = list(seen.values())
    if len(found) != 1:
        raise astx.ExtractError('expected exactly one instantiated definition of %s<%s>::%s%s, found %d' % (cls, targ, name, ' [%s]' % sig if sig else '', len(found)))
    d = found[0]
    if astx.contains_error_nodes(d):
        raise astx.ExtractError('AST of %s<%s>::%s contains clang error-recovery nodes' % (cls, targ, name))
    return d


def find_lambdas(d):
    out = []

    def visit(n):
        if isinstance(n, dict):
            if n.get('kind') == 'LambdaExpr':
                out.append(n)
                return
            for c in n.get('inner', []):
                visit(c)
    visit(d)
    return out
