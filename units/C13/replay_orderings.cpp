// units/C13/replay_orderings.cpp -- native differential check of the C13 lemma and of the assumed models
// (A-QPOINTER, A-FUNCTION, A-SHARED, A-NEW) against the REAL library and the real Qt / libstdc++:
// every ordering of {attach, finish, destroy context} x {attach through the original task or a copy}
// x {the continuation re-attaches from inside its body or not} x {void, copyable, move-only result type}
// is executed on QXmppPromise<T>/QXmppTask<T>; the conclusions of the lemma are evaluated on the observed runs:
//   runs <= 1;  runs == 1 iff the context is alive at delivery (delivery = the later of attach and finish);
//   delivered value == finished value;  the nested attachment runs once (void / stored result) or never, not twice.
// Build with -fsanitize=address to let the sanitizer watch the result box and the closures (use-after-free, double free).
// Leak detection is switched off here: the continuations of this driver hold a copy of their task, and the orderings with a
// context that is dead at finish() then leak by design of the library -- that is finding C13-F1, shown by replay_dead_context_leak.cpp.
// Exit code 0 = all orderings agree.
#include "QXmppPromise.h"
#include "QXmppTask.h"

#include <algorithm>
#include <cstdio>
#include <memory>
#include <string>

#include <QObject>

extern "C" const char *__asan_default_options() { return "detect_leaks=0"; }

static int failures = 0;
static int cases = 0;

template<typename T>
struct Val;
template<>
struct Val<void> {
    static constexpr const char *name = "void";
};
template<>
struct Val<std::string> {
    static constexpr const char *name = "std::string (copyable)";
    static std::string make() { return "the-finished-value"; }
    static bool same(const std::string &v) { return v == "the-finished-value"; }
};
template<>
struct Val<std::unique_ptr<int>> {
    static constexpr const char *name = "std::unique_ptr<int> (move-only)";
    static std::unique_ptr<int> make() { return std::make_unique<int>(4711); }
    static bool same(const std::unique_ptr<int> &v) { return v && *v == 4711; }
};

struct Obs {
    int runs = 0;
    bool valueOk = true;
    bool ctxAliveWhenRun = true;
    int nestedRuns = 0;
    bool nestedValueOk = true;
};

template<typename T>
static void runCase(const char order[3], bool viaCopy, bool reenter)
{
    ++cases;
    Obs obs;
    bool ctxAlive = true;
    auto *ctx = new QObject;
    auto promise = std::make_unique<QXmppPromise<T>>();
    auto task = std::make_unique<QXmppTask<T>>(promise->task());
    QXmppTask<T> copy = *task;
    bool attached = false, finished = false;
    bool aliveAtDelivery = false;
    bool nestedDeliverable = false;

    for (int i = 0; i < 3; ++i) {
        switch (order[i]) {
        case 'A': {
            QXmppTask<T> &t = viaCopy ? copy : *task;
            QObject *c = ctx;
            if (!ctxAlive) {
                // attaching with a destroyed context object is a caller error (dangling pointer): use a fresh live one
                c = ctx = new QObject;
                ctxAlive = true;
            }
            if constexpr (std::is_void_v<T>) {
                t.then(c, [&obs, &ctxAlive, reenter, c, t]() mutable {
                    obs.runs++;
                    obs.ctxAliveWhenRun = ctxAlive;
                    if (reenter) {
                        t.then(c, [&obs]() { obs.nestedRuns++; });
                    }
                });
            } else {
                t.then(c, [&obs, &ctxAlive, reenter, c, t](T &&v) mutable {
                    obs.runs++;
                    obs.ctxAliveWhenRun = ctxAlive;
                    obs.valueOk = Val<T>::same(v);
                    if (reenter) {
                        t.then(c, [&obs](T &&v2) { obs.nestedRuns++; obs.nestedValueOk = Val<T>::same(v2); });
                    }
                });
            }
            attached = true;
            if (finished) {
                aliveAtDelivery = true;
                nestedDeliverable = true;      // void: always; value: the result is still stored while the outer continuation runs
            }
            break;
        }
        case 'F':
            if constexpr (std::is_void_v<T>) {
                promise->finish();
            } else {
                promise->finish(Val<T>::make());
            }
            finished = true;
            if (attached) {
                aliveAtDelivery = ctxAlive;
                nestedDeliverable = std::is_void_v<T>;
            }
            break;
        case 'D':
            delete ctx;
            ctxAlive = false;
            break;
        }
    }
    // drop every handle: the record, a stored result and a stored continuation must be released (sanitizer)
    promise.reset();
    task.reset();
    copy = QXmppPromise<T>().task();
    if (ctxAlive) {
        delete ctx;
    }

    const int expected = aliveAtDelivery ? 1 : 0;
    const int expectedNested = (reenter && aliveAtDelivery && nestedDeliverable) ? 1 : 0;
    bool ok = obs.runs == expected && obs.valueOk && obs.ctxAliveWhenRun && obs.nestedRuns == expectedNested && obs.nestedValueOk;
    if (!ok) {
        ++failures;
    }
    std::printf("%s T=%-34s order=%c%c%c copy=%d reenter=%d : runs=%d (expected %d) value_ok=%d ctx_alive_when_run=%d nested_runs=%d (expected %d) nested_value_ok=%d\n",
                ok ? "ok  " : "FAIL", Val<T>::name, order[0], order[1], order[2], viaCopy, reenter, obs.runs, expected, obs.valueOk, obs.ctxAliveWhenRun,
                obs.nestedRuns, expectedNested, obs.nestedValueOk);
}

template<typename T>
static void allOrders()
{
    char order[4] = "ADF";
    std::sort(order, order + 3);
    do {
        for (int viaCopy = 0; viaCopy < 2; ++viaCopy) {
            for (int reenter = 0; reenter < 2; ++reenter) {
                runCase<T>(order, viaCopy, reenter);
            }
        }
    } while (std::next_permutation(order, order + 3));
}

int main()
{
    allOrders<void>();
    allOrders<std::string>();
    allOrders<std::unique_ptr<int>>();
    std::printf("%d orderings, %d disagree with the lemma\n", cases, failures);
    return failures ? 1 : 0;
}
