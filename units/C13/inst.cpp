// units/C13/inst.cpp -- instantiating translation unit for property C13.
// Includes the REAL headers; its only purpose is to make clang instantiate the template bodies of
// QXmppPromise<T>::finish / task and QXmppTask<T>::then / takeResult / hasResult / isFinished for three result types.
// Ours: the choice of T (void, QXmpp::SendResult = copyable, std::unique_ptr<int> = move-only) and the trivial continuations.
#include "QXmppPromise.h"
#include "QXmppSendResult.h"
#include "QXmppTask.h"

#include <memory>

using MoveOnly = std::unique_ptr<int>;

struct ContVoid { void operator()(); };
struct ContCopy { void operator()(QXmpp::SendResult &&); };
struct ContMove { void operator()(MoveOnly &&); };

void inst_void(const QObject *ctx, ContVoid f)
{
    QXmppPromise<void> p;
    QXmppTask<void> t = p.task();
    t.then(ctx, f);
    p.finish();
    (void)t.isFinished();
}

void inst_copy(const QObject *ctx, ContCopy f, QXmpp::SendResult v, QXmpp::SendSuccess s)
{
    QXmppPromise<QXmpp::SendResult> p;
    QXmppTask<QXmpp::SendResult> t = p.task();
    t.then(ctx, f);
    p.finish(std::move(v));   // same-type overload
    p.finish(std::move(s));   // converting overload
    (void)t.isFinished();
    (void)t.hasResult();
    (void)t.takeResult();
}

void inst_move(const QObject *ctx, ContMove f, MoveOnly v)
{
    QXmppPromise<MoveOnly> p;
    QXmppTask<MoveOnly> t = p.task();
    t.then(ctx, f);
    p.finish(std::move(v));
    (void)t.isFinished();
    (void)t.hasResult();
    (void)t.takeResult();
}
