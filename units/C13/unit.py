"""C13 -- a task's continuation runs exactly once, and never after its context has died."""
import os, re, hashlib
from vlib.unit import Builder, Target, Spec, VERIF, scan_assumes
from vlib.runner import Proof
from vlib import ctx, astx
from vlib.configure import REPO
from vlib.cxx2c import Unsupported, Lowerer
from lowering import L13, profile, find_member, find_lambdas, closure_fields, closure_typedef, capture_map, INST, INSTS

QT = os.path.join(VERIF, 'qtmodel')
HERE = os.path.dirname(os.path.abspath(__file__))
CPP = 'src/base/QXmppTask.cpp'
TASK_H = 'src/base/QXmppTask.h'
PROMISE_H = 'src/base/QXmppPromise.h'


def rd(name):
    return open(os.path.join(HERE, name)).read()


def line_span(d, lines):
    """clang's JSON prints a `line` only where it differs from the previously printed location, so the range of an
    instantiated member can lack its begin or end line: fall back to the smallest / largest line mentioned inside the node"""
    seen = []

    def walk(n):
        if isinstance(n, dict):
            for k, v in n.items():
                if k == 'line' and isinstance(v, int):
                    seen.append(v)
                elif k != 'referencedDecl' and k != 'type':
                    walk(v)
        elif isinstance(n, list):
            for x in n:
                walk(x)
    if lines[0] is None or lines[1] is None:
        walk({k: v for k, v in d.items() if k in ('loc', 'range', 'inner')})
    b0 = lines[0] if lines[0] is not None else (min(seen) if seen else None)
    e0 = lines[1] if lines[1] is not None else (max(seen) if seen else None)
    if b0 is not None and e0 is not None and b0 > e0:
        b0 = min(seen + [e0])
    return [b0, e0]


def default_init(prof):
    """TaskData_make_shared(): value-initialisation of the record as std::make_shared<TaskData>() performs it, generated from the
    real field list: in-class initialisers are lowered, class-typed members get their default constructor's model,
    scalars without initialiser stay indeterminate"""
    fields, decl = ctx.record_fields(os.path.join(REPO, CPP), 'TaskData', 'TaskData')
    lw = Lowerer({'inner': []}, 'TaskData_make_shared', prof)
    lines = []
    for c in decl['inner']:
        if c.get('kind') != 'FieldDecl':
            continue
        ct = lw.ctype(c['type'].get('qualType'))
        init = [i for i in c.get('inner', []) if isinstance(i, dict) and 'kind' in i and not i['kind'].endswith('Comment')]
        if init:
            e = lw.expr(init[0])
            if lw.pre:
                raise Unsupported('in-class initialiser of TaskData::%s needs temporaries' % c['name'])
            lines.append('  r->%s = %s;' % (c['name'], e))
        elif ct == 'QPointerObj':
            lines.append('  r->%s.o = NULL;   /* QPointer() */' % c['name'])
        elif ct == 'qfunction':
            lines.append('  memset(&r->%s, 0, sizeof r->%s);   /* std::function() : empty */' % (c['name'], c['name']))
        elif ct in prof.class_types:
            raise Unsupported('TaskData::%s: class-typed member without a default-constructor model' % c['name'])
        else:
            lines.append('  /* %s: no initialiser (indeterminate) */' % c['name'])
    return ('static inline TaskData *TaskData_make_shared(void)\n{\n  TaskData *r = malloc(sizeof(TaskData));\n  __CPROVER_assume(r != NULL);\n'
            + '\n'.join(lines) + '\n  return r;\n}\n')


LEAK_DRIVER = os.path.join(HERE, 'replay_dead_context_leak.cpp')
F1_LABEL = 'post.no_continuation_stays_registered_once_finished'
F1_INPUT = {'schedule': ['promise = QXmppPromise<T>()', 'task = promise.task()', 'task.then(context, [task]{...})  (the continuation holds a copy of its task)',
                         'delete context', 'promise.finish(...)', 'drop promise and task'], 'T': ['void', 'std::string', 'std::unique_ptr<int>']}


def find_input(unit, p, o, lab, work):
    """the only obligation with a canned native reproduction is the release obligation of finding C13-F1"""
    if lab != F1_LABEL:
        return None
    from vlib import native
    rc, out = native.run_driver(LEAK_DRIVER)
    return {'inputs': F1_INPUT, 'reproduced': rc == 0 and 'REPRODUCED' in out and 'NOT-REPRODUCED' not in out, 'native_output': out[-3000:]}


def native_replay(rp):
    from vlib import native
    rc, out = native.run_driver(LEAK_DRIVER)
    return (rc == 0 and 'NOT-REPRODUCED' not in out), out


def build(work, tier):
    prof = profile()
    b = Builder('C13', work, prof)
    F = {}      # cname -> (spec, text)
    order = []

    def lower(cname, specf, decl=None, src=None, filt=None, name=None, this=None, rel=None, label=None, inst=None, captures=None, subst=None, lines_fallback=None, param_names=None, **kw):
        if specf.endswith('.in'):
            text = rd(specf)
            for k, v in dict({'@K@': INSTS[inst][1]}, **(subst or {})).items():
                text = text.replace(k, v)
            if '@' in re.sub(r'/\*.*?\*/', '', text):
                raise Exception('unresolved placeholder in ' + specf)
            sp = Spec(b.subst(text))
        else:
            sp = b.spec(specf)
        cls = type('L13_' + cname, (L13,), {'inst': inst, 'captures': captures or {}, 'param_names': param_names})
        t = Target(src or INST, filt or '', name or label, cname, this=this, parent=None, lowerer_cls=cls, **kw)
        t.rel = rel
        if decl is not None:
            t.decl = decl
        txt = b.lower(t, sp)
        b.functions[-1]['function'] = label
        if None in b.functions[-1]['lines'] and decl is not None:
            b.functions[-1]['lines'] = line_span(decl, b.functions[-1]['lines'])
        ln = b.functions[-1]['lines']
        if ln == [None, None] and lines_fallback:
            ln = list(lines_fallback)
        b.functions[-1]['lines'] = [ln[0] if ln[0] is not None else ln[1], ln[1] if ln[1] is not None else ln[0]]
        F[cname] = (sp, txt)
        order.append(cname)
        return txt

    # ------------------------------------------------------------------ QXmppTask.cpp : TaskPrivate
    for m in ('isFinished', 'setFinished', 'isContextAlive', 'setContext', 'result', 'setResult', 'continuation', 'setContinuation', 'invokeContinuation'):
        lower('TaskPrivate_' + m, 'tp_%s.spec' % m, src=CPP, filt='TaskPrivate::' + m, name=m, this='TaskPrivate', rel=CPP, label='QXmpp::Private::TaskPrivate::' + m)
    lower('TaskPrivate_ctor', 'tp_ctor.spec', src=CPP, filt='TaskPrivate::TaskPrivate', name='TaskPrivate', this='TaskPrivate', rel=CPP, label='QXmpp::Private::TaskPrivate::TaskPrivate')
    lower('TaskData_dtor', 'td_dtor.spec', src=CPP, filt='TaskData::~TaskData', name='~TaskData', this='TaskData', rel=CPP, label='QXmpp::Private::TaskData::~TaskData')
    # resetResult() is defined in the class body in QXmppTask.h
    lower('TaskPrivate_resetResult', 'tp_resetResult.spec', src=CPP, filt='TaskPrivate::resetResult', name='resetResult', this='TaskPrivate', rel=TASK_H, label='QXmpp::Private::TaskPrivate::resetResult')

    # ------------------------------------------------------------------ the three instantiations of the templates
    closure = None
    for inst, (targ, K) in INSTS.items():
        T = {'void': 'void', 'copy': 'QXmpp::SendResult', 'move': 'std::unique_ptr<int>'}[inst]
        tk, pr = 'QXmppTask_%s_' % inst, 'QXmppPromise_%s_' % inst
        d_then = find_member('QXmppTask', 'QXmppTask', targ, 'then')
        lams = find_lambdas(d_then)
        if len(lams) != 1:
            raise Unsupported('QXmppTask<T>::then contains %d lambdas (expected the one wrapper it stores)' % len(lams))
        ops = [c for c in lams[0]['inner'][0].get('inner', []) if c.get('kind') == 'CXXMethodDecl' and c.get('name') == 'operator()']
        if len(ops) != 1:
            raise Unsupported('then() wrapper lambda: expected one operator()')
        cf = closure_fields(L13({'inner': []}, 'closure', prof), lams[0])
        if closure is None:
            closure = cf
        elif closure != cf:
            raise Unsupported('the wrapper lambdas of the three instantiations of then() capture different things: %s vs %s' % (closure, cf))
        if [nm for nm, ct, mode in cf if ct == 'ucont'] != ['f']:
            raise Unsupported('then() wrapper lambda: the captured continuation is no longer called f (the contracts name it)')
        lower(tk + 'then_wrapper', 'wrapper_void.spec' if inst == 'void' else 'wrapper_value.spec.in', decl=ops[0], this='closure', rel=TASK_H, label='QXmppTask<%s>::then::<stored lambda>' % T, inst=inst,
              captures=capture_map(cf), param_names=['d', 'result'])
        lower(tk + 'then', 'then_void.spec' if inst == 'void' else 'then_value.spec.in', decl=d_then, this='QXmppTask', rel=TASK_H, label='QXmppTask<%s>::then' % T, inst=inst)
        lower(tk + 'isFinished', 'task_isFinished.spec', decl=find_member('QXmppTask', 'QXmppTask', targ, 'isFinished'), this='QXmppTask', rel=TASK_H, label='QXmppTask<%s>::isFinished' % T, inst=inst)
        lower(tk + 'ctor', 'task_ctor.spec', decl=find_member('QXmppTask', 'QXmppTask', targ, 'QXmppTask'), this='QXmppTask', rel=TASK_H, label='QXmppTask<%s>::QXmppTask' % T, inst=inst)
        if inst != 'void':
            lower(tk + 'hasResult', 'task_hasResult.spec', decl=find_member('QXmppTask', 'QXmppTask', targ, 'hasResult'), this='QXmppTask', rel=TASK_H, label='QXmppTask<%s>::hasResult' % T, inst=inst)
            lower(tk + 'takeResult', 'task_takeResult.spec.in', decl=find_member('QXmppTask', 'QXmppTask', targ, 'takeResult'), this='QXmppTask', rel=TASK_H, label='QXmppTask<%s>::takeResult' % T, inst=inst)
        d_ctor = find_member('QXmppPromise', 'QXmppPromise', targ, 'QXmppPromise')
        lower(pr + 'ctor', 'promise_ctor.spec.in', decl=d_ctor, this='QXmppPromise', rel=PROMISE_H, label='QXmppPromise<%s>::QXmppPromise' % T, inst=inst)
        if inst != 'void':
            dl = find_lambdas(d_ctor)
            if len(dl) != 1:
                raise Unsupported('QXmppPromise<T>::QXmppPromise(): expected exactly one (deleter) lambda')
            dops = [c for c in dl[0]['inner'][0].get('inner', []) if c.get('kind') == 'CXXMethodDecl' and c.get('name') == 'operator()']
            if len(dl[0]['inner']) != 2 or len(dops) != 1:
                raise Unsupported('deleter lambda has captures')
            lower(pr + 'deleter', 'deleter.spec', decl=dops[0], this=None, rel=PROMISE_H, lines_fallback=line_span(d_ctor, list(astx.src_range(d_ctor))), label='QXmppPromise<%s>::QXmppPromise::<deleter lambda>' % T, inst=inst)
        lower(pr + 'task', 'promise_task.spec', decl=find_member('QXmppPromise', 'QXmppPromise', targ, 'task'), this='QXmppPromise', rel=PROMISE_H, label='QXmppPromise<%s>::task' % T, inst=inst)
        if inst == 'void':
            lower(pr + 'finish', 'finish_void.spec', decl=find_member('QXmppPromise', 'QXmppPromise', targ, 'finish'), this='QXmppPromise', rel=PROMISE_H, label='QXmppPromise<void>::finish()', inst=inst)
        else:
            same = 'std::variant<QXmpp::SendSuccess, QXmppError> &&' if inst == 'copy' else 'std::unique_ptr<int'
            lower(pr + 'finish', 'finish_value.spec.in', decl=find_member('QXmppPromise', 'QXmppPromise', targ, 'finish', sig=same), this='QXmppPromise', rel=PROMISE_H, subst={'@VT@': 'cval', '@V@': '(*value)'},
                  label='QXmppPromise<%s>::finish(T &&)' % T, inst=inst)
        if inst == 'copy':
            lower(pr + 'finish_conv', 'finish_value.spec.in', decl=find_member('QXmppPromise', 'QXmppPromise', targ, 'finish', sig='QXmpp::SendSuccess &&'), this='QXmppPromise', rel=PROMISE_H, subst={'@VT@': 'uval', '@V@': 'cval_from_uval(*value)'},
                  label='QXmppPromise<QXmpp::SendResult>::finish(U &&) [U = QXmpp::SendSuccess, converting overload]', inst=inst)

    if os.environ.get('C13_DUMP'):
        for c in order:
            print(F[c][1])
            print()

    # ------------------------------------------------------------------ record types, generated from the real field lists
    recs = []
    r_, f_ = ctx.emit_record(os.path.join(REPO, CPP), 'TaskData', 'TaskData', 'TaskData', prof)
    if set(f_) != {'context', 'continuation', 'result', 'freeResult', 'finished'}:
        raise Unsupported('TaskData members changed: %s (the contracts speak about context, continuation, result, freeResult, finished)' % f_)
    recs.append(r_)
    rp_, f_ = ctx.emit_record(os.path.join(REPO, CPP), 'TaskPrivate', 'TaskPrivate', 'TaskPrivate', prof)
    if f_ != ['d']:
        raise Unsupported('TaskPrivate members changed: %s' % f_)
    for cls in ('QXmppTask', 'QXmppPromise'):
        r_, f_ = ctx.emit_record(INST, cls, cls, cls, prof)
        if f_ != ['d']:
            raise Unsupported('%s<T> members changed: %s' % (cls, f_))
        recs.append(r_)
    # TaskPrivate (a handle = pointer to the record) is needed by the closure struct, which model.h needs for std::function
    ctd, cowns = closure_typedef(closure)
    pre = 'typedef struct TaskData TaskData;\n' + rp_ + '\n' + ctd
    head = '#define C13_CLOSURE_TYPEDEF ' + pre.replace('\n', ' ') + '\n#include "model.h"\n' + '\n'.join(recs) + '\n' + cowns + rd('specdefs.h') + '\n'
    env = default_init(prof) + rd('env.h')

    # the re-entrant call of then() from inside a continuation: same contract under another name, never a body (always replaced)
    nested = []
    for inst in INSTS:
        n = 'QXmppTask_%s_then' % inst
        F[n + '_nested'] = (F[n][0], re.sub(r'\b%s\(' % n, n + '_nested(', F[n][1], count=1))
        nested.append(n + '_nested')

    def sig(c):
        return F[c][1].split('\n', 1)[0]

    def callees(c):
        body = F[c][1][F[c][1].index('\n{'):]
        out = [o for o in order if o != c and re.search(r'\b%s\(' % re.escape(o), body)]
        if 'qfunction_call(' in body:
            out += [o for o in order if o.endswith('_then_wrapper')]
        if 'qdeleter_call(' in body:
            out += [o for o in order if o.endswith('_deleter')]
        out += ['QXmppTask_%s_then_nested' % i for i in re.findall(r'\bUSER_REENTRY_(\w+)\(', body)]
        return out

    HAVOC = ('  g_watt = nondet_int(); gh_runs = nondet_uint(); gh_total_runs = nondet_uint(); gh_delivered = nondet_cval(); g_stored = nondet_cval(); gh_boxes_live = nondet_uint(); cval_garbage = nondet_cval();\n'
             '  gh_wctx = nondet_qobject(); gh_wctx_alive = nondet_bool(); gh_reentry_enabled = nondet_bool(); gh_reentering_id = nondet_int(); gh_nested_id = nondet_int();\n')
    proofs = []

    # one-line accessors of the shared record: their real lowered bodies are used inside callers' proofs (each is also verified
    # against its own contract).  Reason: a pointer that a *replaced* callee stores or returns is havocked and then
    # constrained by an equality, which CBMC's points-to analysis cannot follow into a later dereference.
    def is_inline(o):
        return (o.startswith('TaskPrivate_') and o not in ('TaskPrivate_invokeContinuation', 'TaskPrivate_ctor')) or o.endswith('_deleter') \
            or re.match(r'QXmppTask_\w+_(hasResult|isFinished|takeResult|ctor)$', o) is not None

    def proof(c, note, pid=None, extra_clauses='', extra_labels=(), **kw):
        sp, txt = F[c]
        if extra_clauses:
            txt = txt.replace('\n{', '\n' + extra_clauses.rstrip('\n') + '\n{', 1)
        rep, inl, work = [], [], callees(c)
        while work:
            o = work.pop(0)
            if o == c or o in rep or o in inl:
                continue
            if is_inline(o):
                inl.append(o)
                work += callees(o)
            else:
                rep.append(o)
        parts = [head]
        for o in order + nested:
            parts.append(b.prototype(F[o][1]) if o in rep else sig(o) + ';\n')
        parts.append(env)
        for o in order:
            if o in inl:
                parts.append(re.sub(r'\n__CPROVER_\w+\(.*', '', F[o][1]) + '\n')    # body only: the contract is neither enforced nor used here
        parts.append(txt + '\n')
        for o in order + nested:
            if o != c and o not in rep and o not in inl:
                parts.append(sig(o) + '\n{\n  __CPROVER_assert(0, "MODEL-LIMIT: call of %s, which this proof neither verifies nor replaces by its contract");\n}\n' % o)
        m = re.match(r'(\w[\w \*]*?)\b%s\((.*)\)$' % re.escape(c), sig(c))
        params = [] if m.group(2).strip() == 'void' else [p.strip() for p in m.group(2).split(',')]
        names = [re.search(r'(\w+)$', p).group(1) for p in params]
        parts.append('void h_%s(void)\n{\n%s%s  %s(%s);\n}\n' % (c, HAVOC, ''.join('  %s;\n' % p for p in params), c, ', '.join(names)))
        f = b.write((pid or c) + '.c', ''.join(parts))
        p = Proof(pid or c, f, 'h_' + c, enforce=c, replace=rep, kind='complete', include_dirs=[QT, HERE], timeout=300, object_bits=8, loop_contracts=False,
                  note=note + ('; real bodies inlined: ' + ', '.join(inl) if inl else '') + ('; callees by contract: ' + ', '.join(rep) if rep else ''), **kw)
        p.labels = {'post': {c: sp.labels + list(extra_labels)}}
        p.expect_post = len(sp.labels) + len(extra_labels)
        proofs.append(p)
        return p

    for c in order:
        proof(c, 'loop-free')

    # ------------------------------------------------------------------ finding C13-F1: release of a continuation that can never run
    # the same real bodies of finish() under the base contract PLUS "no continuation stays registered on a finished task"
    # (property statement: "values and continuations are released"), once with the finding's input class excluded (must pass)
    # and once restricted to it (its failure is the recorded finding)
    F1 = ('#ifdef FINDING_ONLY\n__CPROVER_requires(HAS_CONT(TR(self)) && !CTX_ALIVE(TR(self)))\n#endif\n'
          '#ifdef FINDING_EXCLUDED\n__CPROVER_requires(!(HAS_CONT(TR(self)) && !CTX_ALIVE(TR(self))))\n#endif\n'
          '__CPROVER_ensures(!HAS_CONT(TR(self)))\n')
    for c in [o for o in order if re.search(r'_finish(_conv)?$', o)]:
        for variant, define in (('excluded', 'FINDING_EXCLUDED'), ('only', 'FINDING_ONLY')):
            p = proof(c, 'loop-free; base contract + release of the continuation; '
                      + ('context dead at finish() with a continuation registered excluded by precondition' if variant == 'excluded'
                         else 'restricted to: continuation registered and context dead at finish() (finding C13-F1)'),
                      pid='%s_release_%s' % (c, variant), extra_clauses=F1, extra_labels=['post.no_continuation_stays_registered_once_finished'], defines=[define])
            if variant == 'only':
                p.finding = 'C13-F1'

    # ------------------------------------------------------------------ lemma: exactly once, from the contracts alone
    for inst, (targ, K) in INSTS.items():
        tk, pr = 'QXmppTask_%s_' % inst, 'QXmppPromise_%s_' % inst
        rep = [pr + 'ctor', tk + 'then', pr + 'finish'] + ([pr + 'finish_conv'] if inst == 'copy' else []) + ([tk + 'takeResult'] if inst != 'void' else [])
        inl = [tk + 'ctor', pr + 'task']
        lem = rd('lemma.h.in')
        for k, v in {'@K@': K, '@T@': inst, '@TNAME@': {'void': 'void', 'copy': 'QXmpp::SendResult (copyable)', 'move': 'std::unique_ptr<int> (move-only)'}[inst],
                     '@ISVALUE@': '0' if inst == 'void' else '1', '@HASCONV@': '1' if inst == 'copy' else '0', '@HAVOC@': HAVOC}.items():
            lem = lem.replace(k, v)
        parts = [head]
        for o in order + nested:
            parts.append(b.prototype(F[o][1]) if o in rep else sig(o) + ';\n')
        parts.append(env)
        for o in inl:
            parts.append(re.sub(r'\n__CPROVER_\w+\(.*', '', F[o][1]) + '\n')
        for o in order + nested:
            if o not in rep and o not in inl:
                parts.append(sig(o) + '\n{\n  __CPROVER_assert(0, "MODEL-LIMIT: call of %s, which the lemma does not use");\n}\n' % o)
        parts.append(lem)
        f = b.write('lemma_%s.c' % inst, ''.join(parts))
        p = Proof('lemma_exactly_once_' + inst, f, 'h_lemma_' + inst, enforce=None, replace=rep, kind='complete', include_dirs=[QT, HERE], timeout=600, object_bits=8, loop_contracts=False,
                  note='inductive invariant over the contracts of constructor / then / finish / takeResult (bodies replaced by contracts): base case + one arbitrary step, '
                       're-entrant attach included through the contracts; task() and the private task constructor are the real bodies')
        p.labels = {}
        p.expect_post = lem.count('"[lemma.')
        proofs.append(p)

    if tier == 'thorough':
        # second SAT back end (CBMC's built-in minisat) on the central contracts and the lemmas
        import copy
        for q in [q for q in proofs if re.search(r'(_then|_then_wrapper|_finish|_finish_conv|invokeContinuation)$|^lemma_', q.id)]:
            q2 = copy.copy(q)
            q2.id = q.id + '_minisat'
            q2.solver = []
            q2.result = None
            q2.note = q.note + ' (cross-check with the built-in minisat back end)'
            proofs.append(q2)

    return {
        'proofs': proofs, 'functions': b.functions, 'dropped': b.dropped, 'fired': b.fired,
        'hooks': [{'id': h['id'], 'function': h['fn'], 'after': h['after'], 'emit': h['emit']} for h in prof.hooks],
        'assumed': [
            'A-VALUE a value of the result type T is an abstract identity; T\'s own copy/move/destructor are not verified; std::move/std::forward are casts (units/C13/model.h)',
            'A-CONV the converting constructor T(U&&) used by the converting finish() overload is a function of its argument (uninterpreted)',
            'A-NEW `new T(v)` is a fresh heap box holding v, `delete` releases it (malloc/free, so CBMC checks every access to a box for use-after-free and double free); ghost counter gh_boxes_live',
            'A-SHARED std::shared_ptr<TaskData> is the pointer to the one shared record, every copy of TaskPrivate/QXmppTask/QXmppPromise points to it; make_shared value-initialises the record from its real default member initialisers; reference counting / release of the record not modelled',
            'A-QPOINTER QPointer<const QObject>::isNull() <=> never set, set to nullptr, or the object destroyed; "destroyed" is a ghost flag for one arbitrary witness object and an uninterpreted predicate for all others; QObject is opaque',
            'A-OWNERS the owners of the shared record are the promise, the task handles and every by-value copy of a TaskPrivate (= std::shared_ptr copy) held in a stored closure; the record and the continuation stored in it are released when no owner is left (release itself trusted); the closure struct and CLOSURE_OWNS are generated from the wrapper lambda\'s real capture list (by-reference and raw-pointer captures are non-owning; a capture of an unmodelled type such as std::weak_ptr is exit 2)',
            'A-FUNCTION std::function<void(TaskPrivate&, void*)> is a callable handle: empty, or a copy of the closure of the then() wrapper lambda (one tag per T); copy-assign copies, operator bool = non-empty, operator() runs the stored closure in place (the lowered real lambda body); invoking an empty one is reported as a violation; destruction of the old target on assignment not modelled',
            'function pointer TaskData::freeResult: null or the captureless deleter lambda of QXmppPromise<T>\'s constructor (its lowered body is what a call dispatches to)',
            'environment: the user\'s continuation only counts its run and records the value; it may re-enter by attaching ONE more continuation (a different attachment) to a captured copy of its task (ghost hook after the call; the nested then() is taken by its contract = induction on the nesting); the nested continuation does not attach again',
            'lemma discipline: an attachment object is attached once; finish() is called once (explicit precondition, in the code only a compiled-out Q_ASSERT); H-ONCE for the nested witness (justified by the lemma for the re-entering attachment, see units/C13/lemma.h.in)',
            'instantiating TU units/C13/inst.cpp: ours are only the three result types (void, QXmpp::SendResult, std::unique_ptr<int>) and the continuation types ContVoid/ContCopy/ContMove',
        ],
        'assumes': scan_assumes(rd('model.h') + rd('env.h') + rd('lemma.h.in')),
        'not_covered': [
            'release of values, closures and the shared record inside std::shared_ptr / std::function (no leak, no use-after-free of the record or of a closure that clears itself while running): trusted, not verified; only the result box (new/delete through freeResult) is tracked',
            'release is covered only at the level of the record\'s fields: the result box (gh_boxes_live) and "no continuation stays registered once finished" (finding C13-F1); that a registered closure holding its own task forms a cycle is shown natively (replay_dead_context_leak.cpp), not by an obligation; a promise that is dropped without ever being finished keeps its continuation in the same way',
            'second and later attachments to one task: then() replaces a continuation registered earlier (documented), and a continuation attached after a value-type task has delivered or given away its value is never run (documented: "and still has a result"); the lemma states exactly-once for an attachment that is not replaced and finds a result',
            'then(nullptr, f): a null context is indistinguishable from a destroyed one -- attached before finish it never runs, attached after finish it runs (no call site in the library passes nullptr)',
            'double finish() (guarded only by Q_ASSERT, compiled out): explicit precondition',
            'destruction of the promise/task object from inside the running continuation (the TaskPrivate used by finish()/invokeContinuation would dangle): lifetime, not modelled',
            'QXmppTask<T>::toFuture, QXmppTask<T>::result(), makeReadyTask/chain helpers in QXmppFutureUtils_p.h; result types other than the three instantiated ones (the template text is the same)',
            'threads: the class is documented as not thread-safe; one thread assumed',
        ],
        'explanation': 'Witness attachment: every contract counts the runs of ONE arbitrary continuation object (id g_watt, chosen by the harness, never assigned); since it is arbitrary the facts hold for every attachment. '
                       'One-line accessors of the record are verified against their own contracts and their real lowered bodies are inlined into callers\' proofs (a pointer stored or returned by a replaced callee cannot be dereferenced afterwards in CBMC).',
    }
