/* units/C13/specdefs.h -- vocabulary of the C13 contracts: the abstract task record of DESIGN.md section 6 (C13) read off
 * the shared TaskData record:  finished = r->finished, has_cont = r->continuation is not empty,
 * ctx_alive = r->context is not null (QPointer semantics), has_result = r->result != nullptr. */
#define R(tp) ((tp)->d)
#define TR(t) ((t)->d.d)      /* record behind a QXmppTask / QXmppPromise handle */
#define FRESH_TP(tp) (__CPROVER_is_fresh(tp, sizeof(TaskPrivate)) && __CPROVER_is_fresh((tp)->d, sizeof(TaskData)))
#define FRESH_H(t, T) (__CPROVER_is_fresh(t, sizeof(T)) && __CPROVER_is_fresh(TR(t), sizeof(TaskData)))
#define CTX_ALIVE(r) ((r)->context.o != NULL && OBJ_ALIVE((r)->context.o))
#define HAS_CONT(r) ((r)->continuation.kind != K_EMPTY)
#define CONT_ID(r) ((r)->continuation.c.f.id)
#define OLD_HAS_CONT(r) (__CPROVER_old((r)->continuation.kind) != K_EMPTY)
#define OLD_CONT_ID(r) __CPROVER_old((r)->continuation.c.f.id)
#define DELETER_OK(r) ((r)->freeResult == NULL || (r)->freeResult == &DELETER_COPY || (r)->freeResult == &DELETER_MOVE)
/* boxes released by a call of the deleter on the record's result pointer */
#define RELEASED(FREE0, RES0) (((FREE0) != NULL && (RES0) != NULL) ? 1u : 0u)
/* representation invariant of a record owned by a QXmppPromise<T>/QXmppTask<T> pair with tag K (K_VOID/K_COPY/K_MOVE):
 * the deleter is the one the promise constructor installed; a stored continuation was stored by QXmppTask<T>::then();
 * a result is stored only once finished, and only for non-void T; a stored continuation holds no strong handle on this record
 * (CLOSURE_OWNS is generated from the wrapper lambda's real capture list) */
#define DELETER_OF(K) ((K) == K_VOID ? (qdeleter)NULL : ((K) == K_COPY ? &DELETER_COPY : &DELETER_MOVE))
#define REP(r, K) ((r)->freeResult == DELETER_OF(K) && ((r)->continuation.kind == K_EMPTY || (r)->continuation.kind == (K)) \
                   && ((K) != K_VOID || (r)->result == NULL) && ((r)->finished || (r)->result == NULL) \
                   && (!HAS_CONT(r) || !CLOSURE_OWNS((r)->continuation.c, r)))
#define RESULT_OK(r) ((r)->result == NULL || __CPROVER_is_fresh((r)->result, sizeof(cval)))
#define STORED(r) (*(cval *)(r)->result)
/* logical variable: the value stored in the record's result box before the call (the harness chooses it arbitrarily) */
#define STORED_IS_G(r) ((r)->result == NULL || STORED(r) == g_stored)
/* attachments are distinct objects: the nested attachment is not the re-entering one */
#define ENV_OK (gh_nested_id != gh_reentering_id)
/* ---- "the continuation object ID is run now" (NESTED = its nested attachment, if it makes one, is delivered at once:
 * always for void T; for a value type iff a result is still stored at that moment).
 * RUNS_W: the witness attachment is among the continuations run;  RUNS_N: how many continuations run */
#define NESTED_RUN(ID, NESTED) (REENTERS(ID) && (NESTED))
#define RUNS_W(ID, NESTED) ((ID) == g_watt || (NESTED_RUN(ID, NESTED) && gh_nested_id == g_watt))
#define RUNS_N(ID, NESTED) (1u + (NESTED_RUN(ID, NESTED) ? 1u : 0u))
