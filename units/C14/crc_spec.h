/* Specification of CRC-32 (ISO 3309 / ITU-T V.42, reflected, polynomial 0xEDB88320): one byte = 8 shift/xor steps.
   gh_spec_crc is the specification's register, advanced by a ghost hook for every byte the real loop consumes. */
quint32 gh_spec_crc;
#define CRC_BIT(c) (((c) & 1u) ? (((c) >> 1) ^ 0xEDB88320u) : ((c) >> 1))
#define CRC_BYTE(c, b) CRC_BIT(CRC_BIT(CRC_BIT(CRC_BIT(CRC_BIT(CRC_BIT(CRC_BIT(CRC_BIT((c) ^ (quint32)(unsigned char)(b)))))))))
static inline quint32 crc_spec_step(quint32 c, char b) { quint32 x = c ^ (quint32)(unsigned char)b; x = CRC_BIT(x); x = CRC_BIT(x); x = CRC_BIT(x); x = CRC_BIT(x); x = CRC_BIT(x); x = CRC_BIT(x); x = CRC_BIT(x); x = CRC_BIT(x); return x; }
