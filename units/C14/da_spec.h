/* specification vocabulary for decodeAddress / encodeAddress (RFC 5389 section 15.1, 15.2) */
int g_i;            /* witness index into the 16 address bytes */
#define DA_BYTE(k) ((quint32)(unsigned char)stream->ba->src[__CPROVER_old(stream->pos) + (k)])
#define DA_COMPLETE (__CPROVER_old(stream->pos) + (int)a_length <= stream->ba->n)
/* XOR pad: magic cookie (big endian) followed by the transaction id; bytes beyond the id read as 0 (QByteRef) */
#define DA_XPAD_OF(xid, i) ((i) < 4 ? ((0x2112A442u >> (8 * (3 - (i)))) & 0xffu) : (((i) - 4 < (xid)->n) ? (quint32)(unsigned char)(xid)->src[(xid)->off + (i) - 4] : 0u))
#define DA_XPAD(i) DA_XPAD_OF(xorId, i)
static inline int QDataStream_read_ipv6(QDataStream *s, Q_IPV6ADDR *a, int len) {
  MODEL_LIMIT(len == 16, "readRawData into Q_IPV6ADDR with len != 16"); MODEL_LIMIT(!s->ba->patched && QBA_NOT_OWNED(s->ba), "plain source");
  int av = s->ba->n - s->pos; int k = len < av ? len : av;
  /* short read: the remaining bytes of the (uninitialised) local keep unspecified values */
#define RD6(j) if ((j) < k) a->c[j] = (quint8)QBA_AT(s->ba, s->pos + (j));
  RD6(0) RD6(1) RD6(2) RD6(3) RD6(4) RD6(5) RD6(6) RD6(7) RD6(8) RD6(9) RD6(10) RD6(11) RD6(12) RD6(13) RD6(14) RD6(15)
  s->pos += k; return k; }
static inline void QHostAddress_toIPv6Address(Q_IPV6ADDR *r, const QHostAddress *h) { *r = h->v6; }
#ifdef QBA_WLOG
static inline int QDataStream_write_ipv6(QDataStream *s, const Q_IPV6ADDR *a, int len) { MODEL_LIMIT(len == 16, "writeRawData from Q_IPV6ADDR with len != 16");
  wlog_put(s, a->c[0]); wlog_put(s, a->c[1]); wlog_put(s, a->c[2]); wlog_put(s, a->c[3]); wlog_put(s, a->c[4]); wlog_put(s, a->c[5]); wlog_put(s, a->c[6]); wlog_put(s, a->c[7]);
  wlog_put(s, a->c[8]); wlog_put(s, a->c[9]); wlog_put(s, a->c[10]); wlog_put(s, a->c[11]); wlog_put(s, a->c[12]); wlog_put(s, a->c[13]); wlog_put(s, a->c[14]); wlog_put(s, a->c[15]); return 16; }
/* the stream appends to a write log (or starts one) and the log is not absurdly large */
#define WSTREAM_OK(s) ((s)->wba != 0 && (s)->ba == (s)->wba && (s)->pos == (s)->wba->n && 0 <= (s)->wba->n && (s)->wba->n <= 32 * QBA_MAX && ((s)->wba->wlog || (s)->wba->n == 0) && !(s)->wba->patched)
#ifdef QBA_OWNED
#define WSTREAM_FRAME stream->pos, stream->wba->n, stream->wba->wlog, stream->wba->w_set, stream->wba->w_val, stream->wba->owned, __CPROVER_object_whole(stream->wba->own)
#else
#define WSTREAM_FRAME stream->pos, stream->wba->n, stream->wba->wlog, stream->wba->w_set, stream->wba->w_val
#endif
/* j = offset of the witness position inside the bytes appended by this call (valid when 0 <= j < appended) */
#define W_J (g_w - __CPROVER_old(stream->wba->n))
#define W_BYTE ((quint32)(unsigned char)stream->wba->w_val)
#endif
#define BE16(v, k) ((((quint32)(v)) >> (8 * (1 - (k)))) & 0xffu)
#define BE32(v, k) ((((quint32)(v)) >> (8 * (3 - (k)))) & 0xffu)
/* RFC 5389 15.1 / 15.2: byte j of an address attribute (type, length 8|20, 0, family 1|2, port ^ cookie-high, address ^ cookie [^ id]) */
#define EA_BYTE(j, type, proto, v4, v6c, port, xid) \
  ((j) < 2 ? BE16(type, j) : (j) < 4 ? BE16((proto) == 0 ? 8 : 20, (j) - 2) : (j) == 4 ? 0u : (j) == 5 ? ((proto) == 0 ? 1u : 2u) : \
   (j) < 8 ? BE16((quint16)((port) ^ ((xid)->n == 0 ? 0u : 0x2112u)), (j) - 6) : \
   (proto) == 0 ? BE32((v4) ^ ((xid)->n == 0 ? 0u : 0x2112A442u), (j) - 8) : (quint32)(quint8)((v6c)[(j) - 8] ^ ((xid)->n == 0 ? 0u : DA_XPAD_OF(xid, (j) - 8))))
