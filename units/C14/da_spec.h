/* specification vocabulary for decodeAddress / encodeAddress (RFC 5389 section 15.1, 15.2) */
int g_i;            /* witness index into the 16 address bytes */
#define DA_BYTE(k) ((quint32)(unsigned char)stream->ba->src[__CPROVER_old(stream->pos) + (k)])
#define DA_COMPLETE (__CPROVER_old(stream->pos) + (int)a_length <= stream->ba->n)
/* XOR pad: magic cookie (big endian) followed by the transaction id; bytes beyond the id read as 0 (QByteRef) */
#define DA_XPAD(i) ((i) < 4 ? ((0x2112A442u >> (8 * (3 - (i)))) & 0xffu) : (((i) - 4 < xorId->n) ? (quint32)(unsigned char)xorId->src[(i) - 4] : 0u))
static inline int QDataStream_read_ipv6(QDataStream *s, Q_IPV6ADDR *a, int len) {
  MODEL_LIMIT(len == 16, "readRawData into Q_IPV6ADDR with len != 16"); MODEL_LIMIT(!s->ba->patched && QBA_NOT_OWNED(s->ba), "plain source");
  int av = s->ba->n - s->pos; int k = len < av ? len : av;
  /* short read: the remaining bytes of the (uninitialised) local keep unspecified values */
#define RD6(j) if ((j) < k) a->c[j] = (quint8)QBA_AT(s->ba, s->pos + (j));
  RD6(0) RD6(1) RD6(2) RD6(3) RD6(4) RD6(5) RD6(6) RD6(7) RD6(8) RD6(9) RD6(10) RD6(11) RD6(12) RD6(13) RD6(14) RD6(15)
  s->pos += k; return k; }
