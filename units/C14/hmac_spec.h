/* Hash oracle (A-CRYPTO: QCryptographicHash computes MD5 / SHA-1) and the RFC 2104 specification of HMAC.
   Every addData() argument is logged per hash session; digests are opaque 16/20-byte values. */
typedef struct QCryptographicHash { int alg; int session; int nadd; } QCryptographicHash;
QByteArray gh_hash_chunk[2][2]; int gh_hash_nchunks[2]; int gh_hash_results;
char gh_digest[2][32];              /* H(input of session s) */
char gh_keydigest[32]; int gh_keyhash_calls; const char *gh_keyhash_src; int gh_keyhash_n; int gh_keyhash_alg;   /* QCryptographicHash::hash(key, alg) */
int g_i;   /* witness index into a 64-byte block */
int g_d;   /* witness index into a digest */
#define DIGEST_LEN(alg) ((alg) == QCryptographicHash_Algorithm__Md5 ? 16 : 20)
static inline void QCryptographicHash_ctor(QCryptographicHash *h, int alg) { MODEL_LIMIT(alg == QCryptographicHash_Algorithm__Md5 || alg == QCryptographicHash_Algorithm__Sha1, "hash algorithm other than MD5 / SHA-1"); h->alg = alg; h->session = 0; h->nadd = 0; }
static inline void QCryptographicHash_addData(QCryptographicHash *h, const QByteArray *x) { MODEL_LIMIT(h->session < 2 && h->nadd < 2, "more than two addData per session / more than two sessions"); gh_hash_chunk[h->session][h->nadd] = *x; h->nadd += 1; }
static inline void QCryptographicHash_result(QByteArray *r, QCryptographicHash *h) { MODEL_LIMIT(h->session < 2, "more than two sessions"); gh_hash_nchunks[h->session] = h->nadd; gh_hash_results += 1;
  QByteArray_ctor(r); r->n = DIGEST_LEN(h->alg); r->vlen = r->n; r->src = gh_digest[h->session]; }
static inline void QCryptographicHash_reset(QCryptographicHash *h) { h->session += 1; h->nadd = 0; }
static inline void QCryptographicHash_hash(QByteArray *r, const QByteArray *data, int alg) { MODEL_LIMIT(!data->owned && !data->patched && data->off == 0 && data->vlen == data->n, "hash() of a non-plain array");
  gh_keyhash_calls += 1; gh_keyhash_src = data->src; gh_keyhash_n = data->n; gh_keyhash_alg = alg; QByteArray_ctor(r); r->n = DIGEST_LEN(alg); r->vlen = r->n; r->src = gh_keydigest; }
/* RFC 2104 section 2: K' = key zero-padded to B = 64 bytes if |key| <= B, else H(key) zero-padded */
#define KEYBYTE(i) ((i) < key->n ? key->src[i] : (char)0)
#define KPRIME(i) (key->n <= 64 ? KEYBYTE(i) : ((i) < DIGEST_LEN(algorithm) ? gh_keydigest[i] : (char)0))
