// native replay for C14/decode: argv[1] = packet (hex), argv[2] = key (hex, may be empty "-")
// Evaluates the property on the REAL QXmppStunMessage::decode with an independent reference:
//   accepted && MESSAGE-INTEGRITY present && key non-empty  ==>  attribute value == HMAC-SHA1(key, prefix with length patched)
//   accepted && FINGERPRINT present                          ==>  value == CRC32(prefix with length patched) ^ 0x5354554e
#include <QByteArray>
#include <QMessageAuthenticationCode>
#include <QStringList>
#include <cstdio>
#include "QXmppStun.h"
static quint32 crc32ref(const QByteArray &in)
{
    quint32 c = 0xffffffffu;
    for (int i = 0; i < in.size(); i++) { c ^= (unsigned char)in[i]; for (int k = 0; k < 8; k++) c = (c & 1u) ? ((c >> 1) ^ 0xEDB88320u) : (c >> 1); }
    return c ^ 0xffffffffu;
}
static int be16(const QByteArray &b, int off) { return ((unsigned char)b[off] << 8) | (unsigned char)b[off + 1]; }
int main(int argc, char **argv)
{
    if (argc < 3) return 2;
    QByteArray pkt = QByteArray::fromHex(argv[1]);
    QByteArray key = QByteArray(argv[2]) == "-" ? QByteArray() : QByteArray::fromHex(argv[2]);
    QXmppStunMessage msg;
    QStringList errors;
    bool accepted = msg.decode(pkt, key, &errors);
    printf("packet=%s key=%s real decode() -> %s\n", pkt.toHex().constData(), key.toHex().constData(), accepted ? "true" : "false");
    int bad = 0;
    if (accepted && pkt.size() >= 20) {
        int off = 20;
        bool afterMi = false;
        while (off + 4 <= pkt.size()) {
            int type = be16(pkt, off), len = be16(pkt, off + 2);
            int pad = (4 - len % 4) % 4;
            if (type == 0x0008 && !afterMi) {
                if (len == 20 && off + 24 <= pkt.size() && !key.isEmpty()) {
                    QByteArray prefix = pkt.left(off);
                    int plen = off - 20 + 24;
                    prefix[2] = char(plen >> 8); prefix[3] = char(plen & 0xff);
                    QByteArray want = QMessageAuthenticationCode::hash(prefix, key, QCryptographicHash::Sha1);
                    QByteArray got = pkt.mid(off + 4, 20);
                    if (got != want) { printf("VIOLATED: accepted although MESSAGE-INTEGRITY %s != HMAC-SHA1 %s\n", got.toHex().constData(), want.toHex().constData()); bad++; }
                    else printf("MESSAGE-INTEGRITY verifies\n");
                }
                afterMi = true;
            } else if (type == 0x8028) {
                if (len == 4 && off + 8 <= pkt.size()) {
                    QByteArray prefix = pkt.left(off);
                    int plen = off - 20 + 8;
                    prefix[2] = char(plen >> 8); prefix[3] = char(plen & 0xff);
                    quint32 want = crc32ref(prefix) ^ 0x5354554eu;
                    quint32 got = ((quint32)(unsigned char)pkt[off + 4] << 24) | ((quint32)(unsigned char)pkt[off + 5] << 16) | ((quint32)(unsigned char)pkt[off + 6] << 8) | (unsigned char)pkt[off + 7];
                    if (got != want) { printf("VIOLATED: accepted although FINGERPRINT %08x != %08x\n", got, want); bad++; }
                    else printf("FINGERPRINT verifies\n");
                }
                break;
            }
            off += 4 + len + pad;
        }
    }
    return bad ? 1 : 0;
}
