// native replay for C14/generateHmac: RFC 2104 HMAC for a key of the given length, compared with Qt's QMessageAuthenticationCode
#include <QByteArray>
#include <QMessageAuthenticationCode>
#include <cstdio>
#include <cstdlib>
#include "QXmppUtils.h"
int main(int argc, char **argv)
{
    int bad = 0;
    for (int a = 1; a < argc; a++) {
        int n = atoi(argv[a]);
        QByteArray key;
        for (int i = 0; i < n; i++) key.append(char(1 + (i * 7) % 250));
        QByteArray text("what do ya want for nothing?");
        QByteArray got = QXmppUtils::generateHmacSha1(key, text);
        QByteArray want = QMessageAuthenticationCode::hash(text, key, QCryptographicHash::Sha1);
        QByteArray got5 = QXmppUtils::generateHmacMd5(key, text);
        QByteArray want5 = QMessageAuthenticationCode::hash(text, key, QCryptographicHash::Md5);
        bool ok = got == want && got5 == want5;
        printf("keylen=%d sha1 %s md5 %s\n", n, got == want ? "ok" : "MISMATCH", got5 == want5 ? "ok" : "MISMATCH");
        if (!ok) bad++;
    }
    return bad ? 1 : 0;
}
