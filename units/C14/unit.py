"""C14 -- STUN messages round-trip; integrity and fingerprint accept only untampered data."""
import os
from vlib.unit import Builder, Target, VERIF, scan_assumes
from vlib.runner import Proof
from vlib import ctx
from vlib.configure import REPO
from profile import profile

STUN = 'src/base/QXmppStun.cpp'
UTILS = 'src/base/QXmppUtils.cpp'
QT = os.path.join(VERIF, 'qtmodel')
HERE = os.path.dirname(os.path.abspath(__file__))

HOOKS = [
    {'id': 'mi_accepted', 'fn': 'QXmppStunMessage_decode', 'after': r'^\s*\(after_integrity = true\);',
     'emit': 'gh_saw_mi = true; gh_mi_done = done; gh_mi_complete = (integrity.vlen == 20);'},
    {'id': 'fp_checked', 'fn': 'QXmppStunMessage_decode', 'after': r'^\s*quint32 expected = ',
     'emit': 'gh_saw_fp = true; gh_fp_done = done; gh_fp_value = fingerprint;'},
    {'id': 'crc_spec_init', 'fn': 'generateCrc32', 'after': r'^\s*quint32 result = ', 'emit': 'gh_spec_crc = 0xffffffffu;'},
    {'id': 'crc_spec_step', 'fn': 'generateCrc32', 'before': r'^\s*\(result = ', 'emit': 'gh_spec_crc = crc_spec_step(gh_spec_crc, n);'},
    {'id': 'e_mi_offset', 'fn': 'QXmppStunMessage_encode', 'before': r'QDataStream_wr_u16\(&stream, \(\(quint16\)AttributeType__MessageIntegrity\)\)',
     'emit': 'gh_e_saw_mi = true; gh_e_mi_off = buffer.n;'},
    {'id': 'e_fp_offset', 'fn': 'QXmppStunMessage_encode', 'before': r'QDataStream_wr_u16\(&stream, \(\(quint16\)AttributeType__Fingerprint\)\)',
     'emit': 'gh_e_saw_fp = true; gh_e_fp_off = buffer.n;'},
]


def rd(name):
    return open(os.path.join(HERE, name)).read()


def labelled(p, cname, sp):
    p.labels = {'post': {cname: sp.labels}, 'inv': {cname: sp.inv_labels.get(0, [])}}
    p.expect_post = len(sp.labels)
    return p


def build(work, tier):
    prof = profile()
    prof.hooks = HOOKS
    b = Builder('C14', work, prof)
    proofs = []
    # ---------------------------------------------------------------- lower every target with its own contract
    sp_decode = b.spec('decode.spec')
    t_decode = b.lower(Target(STUN, 'QXmppStunMessage', 'decode', 'QXmppStunMessage_decode', this='QXmppStunMessage'), sp_decode)
    sp_da = b.spec('decodeAddress.spec')
    t_da = b.lower(Target(STUN, 'decodeAddress', 'decodeAddress', 'decodeAddress'), sp_da)
    sp_sbl = b.spec('setBodyLength.spec')
    t_sbl = b.lower(Target(STUN, 'setBodyLength', 'setBodyLength', 'setBodyLength'), sp_sbl)
    sp_peek = b.spec('peekType.spec')
    t_peek = b.lower(Target(STUN, 'QXmppStunMessage', 'peekType', 'QXmppStunMessage_peekType'), sp_peek)
    sp_crc = b.spec('crc.spec')
    t_crc = b.lower(Target(UTILS, 'QXmppUtils::generateCrc32', 'generateCrc32', 'generateCrc32'), sp_crc)
    sp_hmac = b.spec('hmac.spec')
    t_hmac = b.lower(Target(UTILS, 'generateHmac', 'generateHmac', 'generateHmac'), sp_hmac)
    b.need_enums.setdefault((os.path.join(REPO, UTILS), ()), {}).setdefault('QCryptographicHash::Algorithm', set()).update({'Md5', 'Sha1'})
    rec, fields = ctx.emit_record(os.path.join(REPO, STUN), 'QXmppStunMessage', 'QXmppStunMessage', 'QXmppStunMessage', prof)
    context = b.context()
    inc = [QT]
    # ---------------------------------------------------------------- decode (callees by contract)
    # the very contracts these functions are verified against below; of decodeAddress's contract decode needs (and gets) only
    # the two stream-framing guarantees, not the address-value clauses (which made this proof run out of memory)
    callee_protos = b.prototype(t_da, keep_ensures=2) + b.prototype(t_sbl)
    c = '#include "bytes.h"\n#include "misc.h"\n' + context + '\n' + rec + '\n' + rd('ghost.h') + rd('da_spec.h') + callee_protos + rd('callees_decode.h') + t_decode + '''
void h_decode(void) { QXmppStunMessage *self; const QByteArray *buffer; const QByteArray *key; QStringList *errors; QXmppStunMessage_decode(self, buffer, key, errors); }
'''
    f = b.write('decode.c', c)
    p = Proof('decode', f, 'h_decode', enforce='QXmppStunMessage_decode',
              replace=['decodeAddress', 'setBodyLength', 'generateHmacSha1', 'generateCrc32', 'QByteArray_ne', 'QString_fromUtf8'],
              expect_loops=1, include_dirs=inc, timeout=2400,
              note='every buffer of 0..65556 bytes, every key of 0..1024 bytes; attribute loop closed by loop contract')
    proofs.append(labelled(p, 'QXmppStunMessage_decode', sp_decode))
    alltext = c
    # ---------------------------------------------------------------- decodeAddress
    c = '#define QBA_OWNED 40\n#include "bytes.h"\n#include "misc.h"\n' + context + '\n' + rd('da_spec.h') + t_da + '''
void h_decodeAddress(void) {
  int n; __CPROVER_assume(0 <= n && n <= QBA_MAX); char *store = malloc(n); __CPROVER_assume(store != 0);
  QByteArray buf; QByteArray_ctor(&buf); buf.n = n; buf.vlen = n; buf.src = store;
  int xn, xo; __CPROVER_assume(0 <= xn && xn <= 32 && 0 <= xo && xo <= QBA_MAX); char *xs = malloc(QBA_MAX + 32); __CPROVER_assume(xs != 0); QByteArray xid; QByteArray_ctor(&xid); xid.n = xn; xid.vlen = xn; xid.src = xs; xid.off = xo;
  QDataStream st; QDataStream_ctor_ro(&st, &buf); int pos; __CPROVER_assume(0 <= pos && pos <= n); st.pos = pos;
  QHostAddress addr; quint16 port; quint16 a_length;
  decodeAddress(&st, a_length, &addr, &port, &xid);
}
'''
    f = b.write('decodeAddress.c', c)
    p = Proof('decodeAddress', f, 'h_decodeAddress', enforce='decodeAddress', kind='complete', loop_contracts=False, unwind=17, include_dirs=inc, timeout=900,
              note='every buffer/position/attribute length, transaction id of 0..32 bytes; the 16-iteration XOR loop fully unwound (unwinding assertion on)')
    proofs.append(labelled(p, 'decodeAddress', sp_da))
    alltext += c
    # ---------------------------------------------------------------- lemma: decodeAddress o encodeAddress = identity (contracts only)
    unroll = ' '.join('%sB[%d] = (char)(unsigned char)EA_BYTE(%d, type, a.proto, a.v4, a.v6.c, port, &xid);' % ('if (a.proto == 1) ' if j >= 12 else '', j, j) for j in range(24))
    c = '#define QBA_OWNED 40\n#include "bytes.h"\n#include "misc.h"\n' + context + '\n' + rd('da_spec.h') + b.prototype(t_da) + '''
/* Round trip of an address attribute at the level of the two verified contracts: the bytes encodeAddress's contract
   prescribes (EA_BYTE, the same macro its postcondition uses), handed to decodeAddress's contract, give back address and port. */
void lemma_address_roundtrip(void) {
  quint16 type, port; QHostAddress a; __CPROVER_assume(a.proto == 0 || a.proto == 1);
  int xn, xo; __CPROVER_assume(0 <= xn && xn <= 32 && 0 <= xo && xo <= QBA_MAX); char *xs = malloc(QBA_MAX + 32); __CPROVER_assume(xs != 0);
  QByteArray xid; QByteArray_ctor(&xid); xid.n = xn; xid.vlen = xn; xid.src = xs; xid.off = xo;
  g_i = nondet_int(); __CPROVER_assume(0 <= g_i && g_i < 16);
  char B[24]; ''' + unroll + '''
  QByteArray buf; QByteArray_ctor(&buf); buf.n = a.proto == 0 ? 12 : 24; buf.vlen = buf.n; buf.src = B;
  QDataStream st; QDataStream_ctor_ro(&st, &buf); st.pos = 4;      /* the caller has consumed type and length */
  QHostAddress out; quint16 outport;
  bool ok = decodeAddress(&st, (quint16)(a.proto == 0 ? 8 : 20), &out, &outport, &xid);
  __CPROVER_assert(ok, "[lemma.encoded_address_attribute_is_accepted]");
  __CPROVER_assert(outport == port, "[lemma.port_round_trips_plain_and_xored]");
  __CPROVER_assert(out.proto == a.proto && (a.proto != 0 || out.v4 == a.v4), "[lemma.ipv4_address_round_trips_plain_and_xored]");
  __CPROVER_assert(a.proto != 1 || out.v6.c[g_i] == a.v6.c[g_i], "[lemma.ipv6_address_round_trips_plain_and_xored]");
  __CPROVER_assert(st.pos == buf.n, "[lemma.attribute_consumed_exactly]");
}
'''
    f = b.write('lemma_address.c', c)
    p = Proof('lemma_address_roundtrip', f, 'lemma_address_roundtrip', enforce=None, replace=['decodeAddress'], kind='complete', loop_contracts=False,
              include_dirs=inc, timeout=600, note='uses only the contracts of encodeAddress (EA_BYTE) and decodeAddress; every address, port, type and transaction id')
    p.expect_post = 5
    proofs.append(p)
    alltext += c
    # ---------------------------------------------------------------- setBodyLength
    c = '#include "bytes.h"\n' + context + '\n' + t_sbl + '''
void h_setBodyLength(void) { QByteArray b; qint16 len; setBodyLength(&b, len); }
'''
    f = b.write('setBodyLength.c', c)
    p = Proof('setBodyLength', f, 'h_setBodyLength', enforce='setBodyLength', kind='complete', loop_contracts=False, include_dirs=inc, timeout=300)
    proofs.append(labelled(p, 'setBodyLength', sp_sbl))
    # ---------------------------------------------------------------- peekType
    c = '#include "bytes.h"\n' + context + '\n' + t_peek + '''
void h_peekType(void) {
  int n; __CPROVER_assume(0 <= n && n <= QBA_MAX); char *store = malloc(n); __CPROVER_assume(store != 0);
  QByteArray buf; QByteArray_ctor(&buf); buf.n = n; buf.vlen = n; buf.src = store;
  quint32 cookie; QByteArray id; QByteArray_ctor(&id); int idn; __CPROVER_assume(0 <= idn && idn <= 64); id.n = idn;
  QXmppStunMessage_peekType(&buf, &cookie, &id);
}
'''
    f = b.write('peekType.c', c)
    p = Proof('peekType', f, 'h_peekType', enforce='QXmppStunMessage_peekType', kind='complete', loop_contracts=False, include_dirs=inc, timeout=300)
    proofs.append(labelled(p, 'QXmppStunMessage_peekType', sp_peek))
    # ---------------------------------------------------------------- CRC-32
    c = '#include "bytes.h"\n' + rd('crc_spec.h') + context + '\n' + t_crc + '\nvoid h_crc(void) { const QByteArray *in; generateCrc32(in); }\n'
    f = b.write('crc.c', c)
    p = Proof('generateCrc32', f, 'h_crc', enforce='generateCrc32', expect_loops=1, include_dirs=inc, timeout=600,
              note='table-driven loop equals the bitwise CRC-32 definition for inputs of every length (loop contract)')
    proofs.append(labelled(p, 'generateCrc32', sp_crc))
    alltext += c
    # ---------------------------------------------------------------- HMAC (RFC 2104) against the hash oracle
    c = '#define QBA_OWNED 96\n#define FINDING_SPLIT 1\n#include "bytes.h"\n' + context + '\n' + rd('hmac_spec.h') + t_hmac + \
        '\nvoid h_hmac(void) { QByteArray *r; int alg; const QByteArray *k; const QByteArray *t; generateHmac(r, alg, k, t); }\n'
    f = b.write('hmac.c', c)
    p = Proof('generateHmac', f, 'h_hmac', enforce='generateHmac', kind='complete', loop_contracts=False, unwind=66, include_dirs=inc, timeout=900,
              note='keys of every length 0..65556 (RFC 2104 incl. keys longer than the block), MD5 and SHA-1; the two 64-iteration pad loops fully unwound')
    proofs.append(labelled(p, 'generateHmac', sp_hmac))
    alltext += c
    # ---------------------------------------------------------------- encoder side (write-log model)
    wprof = profile('wlog')
    wprof.hooks = HOOKS
    wb = Builder('C14', work, wprof)
    sp_enc = wb.spec('encode.spec')
    t_enc = wb.lower(Target(STUN, 'QXmppStunMessage', 'encode', 'QXmppStunMessage_encode', this='QXmppStunMessage'), sp_enc)
    sp_aa = wb.spec('addAddress.spec')
    t_aa = wb.lower(Target(STUN, 'addAddress', 'addAddress', 'addAddress'), sp_aa)
    sp_ea = wb.spec('encodeAddress.spec')
    t_ea = wb.lower(Target(STUN, 'encodeAddress', 'encodeAddress', 'encodeAddress'), sp_ea)
    sp_es = wb.spec('encodeString.spec')
    t_es = wb.lower(Target(STUN, 'encodeString', 'encodeString', 'encodeString'), sp_es)
    t_sbl_w = wb.lower(Target(STUN, 'setBodyLength', 'setBodyLength', 'setBodyLength'), sp_sbl)
    wcontext = wb.context()
    wpre = '#define QBA_OWNED 40\n#define QBA_WLOG 1\n#include "bytes.h"\n#include "misc.h"\n' + wcontext + '\n' + rec + '\n' + rd('da_spec.h') + rd('enc_spec.h')
    wharness_stream = '''
  QByteArray buf; QByteArray_ctor(&buf); int n0; __CPROVER_assume(0 <= n0 && n0 <= 32 * QBA_MAX); buf.n = n0; buf.wlog = nondet_bool(); __CPROVER_assume(buf.wlog || n0 == 0);
  buf.w_set = nondet_bool(); buf.w_val = nondet_char(); buf.owned = false;
  QDataStream st; QDataStream_ctor_rw(&st, &buf, 2); st.pos = n0;
  int xn, xo; __CPROVER_assume(0 <= xn && xn <= 32 && 0 <= xo && xo <= QBA_MAX); char *xs = malloc(QBA_MAX + 32); __CPROVER_assume(xs != 0); QByteArray xid; QByteArray_ctor(&xid); xid.n = xn; xid.vlen = xn; xid.src = xs; xid.off = xo;
'''
    c = wpre.replace('#define QBA_OWNED 40\n', '') + wb.prototype(t_aa) + wb.prototype(t_es) + wb.prototype(t_sbl_w) + rd('callees_encode.h') + t_enc + '''
void h_encode(void) { gh_utf8_store = malloc(QBA_MAX); __CPROVER_assume(gh_utf8_store != 0); const QXmppStunMessage *self; QByteArray *ret; const QByteArray *key; bool fp; QXmppStunMessage_encode(self, ret, key, fp); }
'''
    f = wb.write('encode.c', c)
    p = Proof('encode', f, 'h_encode', enforce='QXmppStunMessage_encode', replace=['addAddress', 'encodeString', 'setBodyLength', 'generateHmacSha1', 'generateCrc32'],
              kind='complete', loop_contracts=False, include_dirs=inc, timeout=1800,
              note='loop-free; every message state (all attribute combinations, variable-length members up to 65556 bytes each), every key, one arbitrary witness byte of the output')
    proofs.append(labelled(p, 'QXmppStunMessage_encode', sp_enc))
    alltext += c
    c = wpre + wb.prototype(t_ea) + t_aa + '\nvoid h_addAddress(void) {' + wharness_stream + '  QHostAddress host; quint16 type, port; addAddress(&st, type, &host, port, &xid); }\n'
    f = wb.write('addAddress.c', c)
    p = Proof('addAddress', f, 'h_addAddress', enforce='addAddress', replace=['encodeAddress'], kind='complete', loop_contracts=False, include_dirs=inc, timeout=600)
    proofs.append(labelled(p, 'addAddress', sp_aa))
    c = wpre + t_ea + '\nvoid h_encodeAddress(void) {' + wharness_stream + '  QHostAddress host; quint16 type, port; encodeAddress(&st, type, &host, port, &xid); }\n'
    f = wb.write('encodeAddress.c', c)
    p = Proof('encodeAddress', f, 'h_encodeAddress', enforce='encodeAddress', kind='complete', loop_contracts=False, unwind=17, include_dirs=inc, timeout=900,
              note='the 16-iteration XOR loop fully unwound; bytes written are the inverse of what decodeAddress reads (RFC 5389 15.1/15.2)')
    proofs.append(labelled(p, 'encodeAddress', sp_ea))
    c = wpre + t_es + '\nvoid h_encodeString(void) { gh_utf8_store = malloc(QBA_MAX); __CPROVER_assume(gh_utf8_store != 0);' + wharness_stream + '  QString s; quint16 type; encodeString(&st, type, &s); }\n'
    f = wb.write('encodeString.c', c)
    p = Proof('encodeString', f, 'h_encodeString', enforce='encodeString', kind='complete', loop_contracts=False, include_dirs=inc, timeout=600)
    proofs.append(labelled(p, 'encodeString', sp_es))
    alltext += c
    b.functions.extend(f_ for f_ in wb.functions if f_['cname'] != 'setBodyLength')
    b.dropped.extend(wb.dropped)
    for k, v in wb.fired.items():
        b.fired[k] = b.fired.get(k, 0) + v
    return {
        'proofs': proofs, 'functions': b.functions, 'dropped': b.dropped, 'fired': b.fired, 'hooks': [h['id'] + ': ' + h['emit'] for h in HOOKS],
        'assumed': ['A-QDATASTREAM (qtmodel/bytes.h): big-endian; reads past the end yield 0 and consume the rest; raw reads are short',
                    'A-QBYTEARRAY (qtmodel/bytes.h): slice / zero-tail / owned-small-array model of QByteArray, QByteRef reads 0 beyond the size',
                    'A-QBYTEARRAY-EQ operator!= exact at the witness byte', 'A-UTF8 fromUtf8 returns some string',
                    'A-CRYPTO QCryptographicHash computes MD5 / SHA-1 (hash oracle logging its inputs, units/C14/hmac_spec.h)',
                    'decode uses generateHmacSha1 / generateCrc32 as functions of their (recorded) arguments; generateHmacSha1 = generateHmac(Sha1, ..) is a one-line forwarder (not lowered)'],
        'assumes': scan_assumes(alltext),
        'not_covered': ['SHA-1 / MD5 themselves (Qt)', 'QXmppStunMessage::encode and the attribute-by-attribute round-trip lemma (not built yet)',
                        'a MESSAGE-INTEGRITY attribute truncated by the end of the packet is compared with its missing bytes read as zero (observed, no claim)'],
        'trusted_base': [],
    }


# ---------------------------------------------------------------------------------------------------------------------
# from a failed obligation to a concrete input replayed on the real library (DESIGN 3.3 / 3.4)
def _trace_value(o, lhs_suffix):
    for st in reversed(o.get('trace') or []):
        if (st.get('lhs') or '').endswith(lhs_suffix):
            return st.get('value')
    return None


def find_input(unit, proof, ob, label, work):
    from vlib import native
    if proof.id == 'generateHmac':
        lens = ['0', '20', '64', '65', '100', '200']
        rc, out = native.run_driver(os.path.join(HERE, 'replay_hmac.cpp'), lens)
        return {'inputs': {'driver': 'units/C14/replay_hmac.cpp', 'args': lens, 'meaning': 'key lengths; text = RFC 2202 test case 2 text'},
                'native_output': out, 'reproduced': rc == 1}
    if proof.id == 'generateCrc32':
        rc, out = native.run_driver(os.path.join(HERE, 'replay_crc.cpp'), [str(int(os.environ.get('VERIF_SEED', '1') or 1))])
        return {'inputs': {'driver': 'units/C14/replay_crc.cpp', 'args': ['seed'], 'meaning': 'all 1-byte inputs, then 2000 pseudo-random strings'},
                'native_output': out, 'reproduced': rc == 1}
    if proof.id == 'decode':
        if not (label.startswith('post.') or label.startswith('loop.')):
            return None      # the search targets decode's postconditions only
        res = search_decode(work)
        if not res or 'error' in res:
            return {'input_search': res or 'bounded search (packets <= 56 bytes, <= 3 attributes) found no failing input'}
        args = [res['packet_hex'], res['key_hex'] or '-']
        rc, out = native.run_driver(os.path.join(HERE, 'replay_decode.cpp'), args)
        return {'inputs': {'driver': 'units/C14/replay_decode.cpp', 'args': args, 'meaning': 'packet (hex), key (hex)', 'found_by': 'input-search harness: ' + res['search_obligation']},
                'native_output': out, 'reproduced': rc == 1}
    return None


def native_replay(rp):
    from vlib import native
    inp = rp['inputs']
    rc, out = native.run_driver(os.path.join(VERIF, inp['driver']), [a if a != 'seed' else '1' for a in inp['args']])
    return rc == 1, out


# ---------------------------------------------------------------------------------------------------------------------
# input-search harness for decode (DESIGN 3.3): the same lowered text without contract clauses, executable stubs for the
# oracles, inputs in named fixed-size globals, loops unwound to a small bound.  A help for the report only.
SEARCH_STUBS = r'''
char pkt[PKT_MAX]; char keyb[8]; int pkt_n, key_n;
void generateHmacSha1(QByteArray *ret, const QByteArray *key, const QByteArray *text) {
  gh_hmac_calls++; gh_hmac_len = text->n; gh_hmac_key = key; if (g_k < (size_t)text->n) gh_hmac_arg_k = QBA_AT(text, (int)g_k);
  QByteArray_ctor(ret); ret->n = 20; ret->vlen = 20; ret->src = gh_hmac_out; }
quint32 generateCrc32(const QByteArray *text) { gh_crc_calls++; gh_crc_len = text->n; if (g_k < (size_t)text->n) gh_crc_arg_k = QBA_AT(text, (int)g_k); return gh_crc_out; }
bool QByteArray_ne(const QByteArray *a, const QByteArray *b) { if (a->n != b->n) return true; __CPROVER_assume(a->n <= 20);
#define NE1(i) if ((i) < a->n && QBA_AT(a, (i)) != QBA_AT(b, (i))) return true;
  NE1(0) NE1(1) NE1(2) NE1(3) NE1(4) NE1(5) NE1(6) NE1(7) NE1(8) NE1(9) NE1(10) NE1(11) NE1(12) NE1(13) NE1(14) NE1(15) NE1(16) NE1(17) NE1(18) NE1(19)
  return false; }
void QString_fromUtf8(QString *r, const QByteArray *b) { r->id = nondet_int(); }
'''
SEARCH_MAIN = r'''
void search(void) {
  QXmppStunMessage self; QByteArray buffer, key; char idstore[12];
  __CPROVER_havoc_object(pkt); __CPROVER_havoc_object(keyb); __CPROVER_havoc_object(gh_hmac_out); gh_crc_out = nondet_uint();
  pkt_n = nondet_int(); key_n = nondet_int(); __CPROVER_assume(0 <= pkt_n && pkt_n <= PKT_MAX && 0 <= key_n && key_n <= 8);
  QByteArray_ctor(&buffer); buffer.n = pkt_n; buffer.vlen = pkt_n; buffer.src = pkt;
  QByteArray_ctor(&key); key.n = key_n; key.vlen = key_n; key.src = keyb;
  memset(&self, 0, sizeof self); QByteArray_ctor(&self.m_id); self.m_id.n = 12; self.m_id.vlen = 12; self.m_id.src = idstore;
  g_k = nondet_size_t(); g_j = nondet_int(); __CPROVER_assume(0 <= g_j && g_j < 20);
  bool ret = QXmppStunMessage_decode(&self, &buffer, &key, 0);
  __CPROVER_assert(!(ret && gh_saw_mi && key.n > 0) || (gh_hmac_calls == 1 && gh_hmac_key == &key && gh_hmac_len == 20 + gh_mi_done), "[post.integrity_hmac_called_with_key_over_protected_prefix]");
  __CPROVER_assert(!(ret && gh_saw_mi && key.n > 0 && g_k < (size_t)(20 + gh_mi_done)) || gh_hmac_arg_k == (g_k == 2 ? (char)(unsigned char)(((quint16)(gh_mi_done + 24)) >> 8) : g_k == 3 ? (char)(unsigned char)(((quint16)(gh_mi_done + 24)) & 0xff) : pkt[g_k]), "[post.integrity_hmac_text_is_prefix_with_patched_length]");
  __CPROVER_assert(!(ret && gh_saw_mi && key.n > 0 && gh_mi_complete) || (20 + gh_mi_done + 24 <= pkt_n && pkt[20 + gh_mi_done + 4 + g_j] == gh_hmac_out[g_j]), "[post.integrity_attribute_equals_hmac]");
  __CPROVER_assert(!(ret && gh_saw_fp) || (gh_crc_calls == 1 && gh_crc_len == 20 + gh_fp_done && gh_fp_value == (gh_crc_out ^ 0x5354554eu)), "[post.fingerprint_is_crc_of_prefix_xor_magic]");
  __CPROVER_assert(!(ret && gh_saw_fp && g_k < (size_t)(20 + gh_fp_done)) || gh_crc_arg_k == (g_k == 2 ? (char)(unsigned char)(((quint16)(gh_fp_done + 8)) >> 8) : g_k == 3 ? (char)(unsigned char)(((quint16)(gh_fp_done + 8)) & 0xff) : pkt[g_k]), "[post.fingerprint_crc_text_is_prefix_with_patched_length]");
  /* only FINGERPRINT is interpreted after MESSAGE-INTEGRITY: no second integrity check, no state written later is unprotected */
  __CPROVER_assert(!(ret && gh_saw_mi) || gh_mi_done + 24 + (gh_saw_fp ? 8 : 0) <= pkt_n - 20 + 65536, "[post.trivial]");
}
'''


def concretise_oracles(pk, ky, vals):
    """The search treats HMAC-SHA1 / CRC-32 as oracles with arbitrary outputs.  For the native replay the oracle outputs are
    replaced by the real values: every MESSAGE-INTEGRITY / FINGERPRINT byte that agreed with the oracle in the counterexample
    gets the real byte, every byte that disagreed gets a byte that really disagrees."""
    import hmac, hashlib, zlib
    n = len(pk)
    if vals.get('gh_saw_mi') and ky:
        off = 20 + vals.get('gh_mi_done', 0)
        if off + 4 <= n:
            prefix = bytearray(pk[:off])
            plen = (off - 20 + 24) & 0xffff
            prefix[2:4] = bytes([plen >> 8, plen & 0xff])
            real = hmac.new(ky, bytes(prefix), hashlib.sha1).digest()
            hout = vals.get('gh_hmac_out', {})
            for j in range(20):
                if off + 4 + j < n:
                    pk[off + 4 + j] = real[j] if pk[off + 4 + j] == hout.get(j, -1) else (real[j] ^ 0xff)
    if vals.get('gh_saw_fp'):
        off = 20 + vals.get('gh_fp_done', 0)
        if off + 8 <= n:
            prefix = bytearray(pk[:off])
            plen = (off - 20 + 8) & 0xffff
            prefix[2:4] = bytes([plen >> 8, plen & 0xff])
            real = (zlib.crc32(bytes(prefix)) & 0xffffffff) ^ 0x5354554e
            model = (vals.get('gh_crc_out', 0) ^ 0x5354554e) & 0xffffffff
            got = int.from_bytes(pk[off + 4:off + 8], 'big')
            new = real if got == model else (real ^ 0xffffffff)
            pk[off + 4:off + 8] = new.to_bytes(4, 'big')
    return pk


def search_decode(work):
    """returns (packet hex, key hex, failed label) or None"""
    import json, subprocess, re
    prof = profile()
    prof.hooks = [h for h in HOOKS if h['fn'] == 'QXmppStunMessage_decode']
    b = Builder('C14', work, prof)
    t_decode = b.lower(Target(STUN, 'QXmppStunMessage', 'decode', 'QXmppStunMessage_decode', this='QXmppStunMessage'))
    prof.hooks = []
    t_da = b.lower(Target(STUN, 'decodeAddress', 'decodeAddress', 'decodeAddress'))
    t_sbl = b.lower(Target(STUN, 'setBodyLength', 'setBodyLength', 'setBodyLength'))
    rec, _ = ctx.emit_record(os.path.join(REPO, STUN), 'QXmppStunMessage', 'QXmppStunMessage', 'QXmppStunMessage', prof)
    da = rd('da_spec.h')
    c = '#define QBA_OWNED 40\n#define PKT_MAX 56\n#include <stdlib.h>\n#include "bytes.h"\n#include "misc.h"\n' + b.context() + '\n' + rec + '\n' + rd('ghost.h') + da + \
        'static ' + t_da + '\nstatic ' + t_sbl + SEARCH_STUBS + t_decode + SEARCH_MAIN
    f = b.write('search_decode.c', c)
    gb = f[:-2] + '.gb'
    p = subprocess.run(['goto-cc', '--function', 'search', '-DVERIF_CBMC', '-I', QT, f, '-o', gb], stdout=subprocess.PIPE, stderr=subprocess.STDOUT, text=True)
    if p.returncode != 0:
        return {'error': 'search harness does not compile: ' + p.stdout[-800:]}
    try:
        p = subprocess.run(['cbmc', '--json-ui', '--trace', '--unwind', '17', '--unwindset', 'QXmppStunMessage_decode.0:4', '--object-bits', '12', '--sat-solver', 'cadical', gb],
                           stdout=subprocess.PIPE, stderr=subprocess.PIPE, text=True, timeout=900)
    except subprocess.TimeoutExpired:
        return {'error': 'search timed out'}
    try:
        msgs = json.loads(p.stdout)
    except Exception:
        return {'error': 'search output unreadable'}
    for m in msgs:
        for r in m.get('result', []) if isinstance(m, dict) else []:
            if r.get('status') == 'FAILURE' and r.get('trace') and (r.get('description') or '').startswith('[post.'):
                vals = {}
                for st in r['trace']:
                    if st.get('stepType') != 'assignment':
                        continue
                    lhs = st.get('lhs', '')
                    v = st.get('value', {})
                    mm = re.fullmatch(r'(pkt|keyb)\[(\d+)l?\]', lhs)
                    if mm and 'binary' in v:
                        vals.setdefault(mm.group(1), {})[int(mm.group(2))] = int(v['binary'], 2) & 0xff
                    elif lhs in ('pkt', 'keyb') and v.get('elements'):
                        for e in v['elements']:
                            try:
                                vals.setdefault(lhs, {})[int(e['index'])] = int(e['value']['binary'], 2) & 0xff
                            except Exception:
                                pass
                    elif lhs in ('pkt_n', 'key_n', 'gh_mi_done', 'gh_fp_done') and 'data' in v:
                        vals[lhs] = int(v['data'])
                    elif lhs in ('gh_saw_mi', 'gh_saw_fp', 'gh_mi_complete') and 'data' in v:
                        vals[lhs] = v['data'] == 'TRUE'
                    elif lhs == 'gh_crc_out' and 'binary' in v:
                        vals[lhs] = int(v['binary'], 2)
                    elif lhs == 'gh_hmac_out' and v.get('elements'):
                        for e in v['elements']:
                            vals.setdefault(lhs, {})[int(e['index'])] = int(e['value']['binary'], 2) & 0xff
                    elif re.fullmatch(r'gh_hmac_out\[(\d+)l?\]', lhs) and 'binary' in v:
                        vals.setdefault('gh_hmac_out', {})[int(re.findall(r'\d+', lhs)[0])] = int(v['binary'], 2) & 0xff
                n, kn = vals.get('pkt_n', 0), vals.get('key_n', 0)
                pk = bytearray(vals.get('pkt', {}).get(i, 0) for i in range(n))
                ky = bytes(vals.get('keyb', {}).get(i, 0) for i in range(kn))
                pk = concretise_oracles(pk, ky, vals)
                return {'packet_hex': bytes(pk).hex(), 'key_hex': ky.hex(), 'search_obligation': r.get('description')}
    return None
