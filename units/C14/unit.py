"""C14 -- STUN messages round-trip; integrity and fingerprint accept only untampered data."""
import os
from vlib.unit import Builder, Target, VERIF, scan_assumes
from vlib.runner import Proof
from vlib import ctx
from profile import profile

STUN = 'src/base/QXmppStun.cpp'
UTILS = 'src/base/QXmppUtils.cpp'
QT = os.path.join(VERIF, 'qtmodel')
HERE = os.path.dirname(os.path.abspath(__file__))

HOOKS = [
    {'id': 'mi_accepted', 'fn': 'QXmppStunMessage_decode', 'after': r'^\s*\(after_integrity = true\);',
     'emit': 'gh_saw_mi = true; gh_mi_done = done; gh_mi_complete = (integrity.vlen == 20);'},
    {'id': 'fp_checked', 'fn': 'QXmppStunMessage_decode', 'after': r'^\s*quint32 expected = ',
     'emit': 'gh_saw_fp = true; gh_fp_done = done; gh_fp_value = fingerprint;'},
]


def rd(name):
    return open(os.path.join(HERE, name)).read()


def build(work, tier):
    prof = profile()
    prof.hooks = HOOKS
    b = Builder('C14', work, prof)
    proofs = []
    # ---------------------------------------------------------------- decode
    sp = b.spec('decode.spec')
    txt = b.lower(Target(STUN, 'QXmppStunMessage', 'decode', 'QXmppStunMessage_decode', this='QXmppStunMessage'), sp)
    rec, fields = ctx.emit_record(os.path.join('/repo', STUN) if False else b_path(STUN), 'QXmppStunMessage', 'QXmppStunMessage', 'QXmppStunMessage', prof)
    c = '#include "bytes.h"\n#include "misc.h"\n' + b.context() + '\n' + rec + '\n' + rd('ghost.h') + rd('callees_decode.h') + txt + '''
void h_decode(void) { QXmppStunMessage *self; const QByteArray *buffer; const QByteArray *key; QStringList *errors; QXmppStunMessage_decode(self, buffer, key, errors); }
'''
    f = b.write('decode.c', c)
    p = Proof('decode', f, 'h_decode', enforce='QXmppStunMessage_decode',
              replace=['decodeAddress', 'setBodyLength', 'generateHmacSha1', 'generateCrc32', 'QByteArray_ne', 'QString_fromUtf8'],
              expect_loops=1, include_dirs=[QT], timeout=1500,
              note='every buffer of 0..65556 bytes, every key of 0..1024 bytes; attribute loop closed by loop contract')
    p.labels = {'post': {'QXmppStunMessage_decode': sp.labels}, 'inv': {'QXmppStunMessage_decode': sp.inv_labels.get(0, [])}}
    p.expect_post = len(sp.labels)
    proofs.append(p)
    return {
        'proofs': proofs, 'functions': b.functions, 'dropped': b.dropped, 'fired': b.fired, 'hooks': [h['id'] + ': ' + h['emit'] for h in HOOKS],
        'assumed': ['A-QDATASTREAM (qtmodel/bytes.h)', 'A-QBYTEARRAY (qtmodel/bytes.h)', 'A-QBYTEARRAY-EQ operator!= exact at witness byte',
                    'A-UTF8 fromUtf8 returns some string', 'A-CRYPTO SHA-1/MD5 are Qt\'s (HMAC is an oracle recording its arguments)'],
        'assumes': scan_assumes(c),
        'not_covered': ['SHA-1 / MD5 themselves (Qt)', 'a MESSAGE-INTEGRITY attribute truncated by the end of the packet is compared with its missing bytes read as zero (observed, no claim)'],
        'trusted_base': [],
    }


def b_path(rel):
    from vlib.configure import REPO
    return os.path.join(REPO, rel)
