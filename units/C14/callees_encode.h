/* oracle views of HMAC-SHA1 and CRC-32 for the encoder: they record the size, the patched length field and the witness
   byte of the log they are applied to (generateHmac / generateCrc32 are verified separately against RFC 2104 / the bitwise CRC) */
void generateHmacSha1(QByteArray *ret, const QByteArray *key, const QByteArray *text)
__CPROVER_assigns(*ret, gh_hmac_calls, gh_hmac_len, gh_hmac_key, gh_hmac_arg_w, gh_hmac_patched, gh_hmac_plen)
__CPROVER_ensures(gh_hmac_calls == __CPROVER_old(gh_hmac_calls) + 1 && gh_hmac_len == text->n && gh_hmac_key == key && gh_hmac_patched == text->patched && gh_hmac_plen == PLEN(text))
__CPROVER_ensures(g_w < text->n ==> gh_hmac_arg_w == text->w_val)
__CPROVER_ensures(QBA_PLAIN(ret, 20) && ret->n == 20 && ret->src == gh_hmac_out)
;
quint32 generateCrc32(const QByteArray *text)
__CPROVER_assigns(gh_crc_calls, gh_crc_len, gh_crc_arg_w, gh_crc_patched, gh_crc_plen)
__CPROVER_ensures(gh_crc_calls == __CPROVER_old(gh_crc_calls) + 1 && gh_crc_len == text->n && gh_crc_patched == text->patched && gh_crc_plen == PLEN(text))
__CPROVER_ensures(g_w < text->n ==> gh_crc_arg_w == text->w_val)
__CPROVER_ensures(__CPROVER_return_value == gh_crc_out)
;
