/* contracts under which QXmppStunMessage::decode is verified; setBodyLength and decodeAddress enter through
   the very contracts they are verified against (generated prototypes); generateCrc32 / generateHmac are verified separately or an assumed Qt contract (QByteArray::operator!=, QString::fromUtf8) */
/* HMAC-SHA1 as an oracle: records key, length and the witness byte of its text argument; the result is the opaque value gh_hmac_out */
void generateHmacSha1(QByteArray *ret, const QByteArray *key, const QByteArray *text)
__CPROVER_assigns(*ret, gh_hmac_calls, gh_hmac_len, gh_hmac_key, gh_hmac_arg_k)
__CPROVER_ensures(gh_hmac_calls == __CPROVER_old(gh_hmac_calls) + 1 && gh_hmac_len == text->n && gh_hmac_key == key)
__CPROVER_ensures(g_k < (size_t)text->n ==> gh_hmac_arg_k == QBA_AT(text, (int)g_k))
__CPROVER_ensures(ret->n == 20 && ret->vlen == 20 && !ret->patched && ret->off == 0 && ret->src == gh_hmac_out)
;
quint32 generateCrc32(const QByteArray *text)
__CPROVER_assigns(gh_crc_calls, gh_crc_len, gh_crc_arg_k)
__CPROVER_ensures(gh_crc_calls == __CPROVER_old(gh_crc_calls) + 1 && gh_crc_len == text->n)
__CPROVER_ensures(g_k < (size_t)text->n ==> gh_crc_arg_k == QBA_AT(text, (int)g_k))
__CPROVER_ensures(__CPROVER_return_value == gh_crc_out)
;
/* A-QBYTEARRAY-EQ: operator!= is false only for arrays of equal size and equal bytes (stated at the witness byte) */
bool QByteArray_ne(const QByteArray *a, const QByteArray *b)
__CPROVER_assigns()
__CPROVER_ensures(!__CPROVER_return_value ==> (a->n == b->n && ((0 <= g_j && g_j < a->n) ==> QBA_AT(a, g_j) == QBA_AT(b, g_j))))
;
/* A-UTF8: QString::fromUtf8 returns some string */
void QString_fromUtf8(QString *r, const QByteArray *b)
__CPROVER_assigns(*r)
;
