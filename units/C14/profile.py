"""C14: lowering profile for the STUN codec (QByteArray / QDataStream / QSet<quint16> / QHostAddress models)"""
from vlib.cxx2c import Profile, Unsupported, rangefor_indexed


def read_raw(lw, node, args):
    # stream.readRawData(X.data(), X.size())  ->  X becomes a slice;   stream.readRawData((char*)&addr, sizeof addr) -> 16 bytes
    a1 = lw.skip(node['inner'][1])
    while a1.get('kind') in ('CStyleCastExpr', 'ImplicitCastExpr', 'CXXReinterpretCastExpr'):
        a1 = lw.skip(a1['inner'][0])
    if lw.tkey(a1) == 'Q_IPV6ADDR*':
        return 'QDataStream_read_ipv6(%s, %s, %s)' % (args[0], args[1], args[2])
    return 'QDataStream_readInto(%s, %s, %s)' % (args[0], args[1], args[2])


def write_raw(lw, node, args):
    a1 = lw.skip(node['inner'][1])
    while a1.get('kind') in ('CStyleCastExpr', 'ImplicitCastExpr', 'CXXReinterpretCastExpr'):
        a1 = lw.skip(a1['inner'][0])
    if lw.tkey(a1) == 'Q_IPV6ADDR*':
        return 'QDataStream_write_ipv6(%s, %s, %s)' % (args[0], args[1], args[2])
    return 'QDataStream_writeFrom(%s, %s, %s)' % (args[0], args[1], args[2])


def bitcast_charp(lw, node):
    sub = lw.skip(node['inner'][0])
    return lw.expr(sub)


def profile(mode='read'):
    p = Profile(
        types={'QByteArray': 'QByteArray', 'QDataStream': 'QDataStream', 'QString': 'QString', 'QStringList': 'QStringList',
               'QHostAddress': 'QHostAddress', 'Q_IPV6ADDR': 'Q_IPV6ADDR', 'QIPv6Address': 'Q_IPV6ADDR', 'QSet<quint16>': 'QSetU16',
               'QSet<unsigned short>': 'QSetU16', 'QXmppStunMessage': 'QXmppStunMessage', 'AttributeType': 'int',
               'QByteRef': 'char', 'QStringBuilder<QByteArray,QByteArray>': 'QByteArray', 'QCryptographicHash': 'QCryptographicHash', 'QCryptographicHash::Algorithm': 'int',
               'QIODevice::OpenModeFlag': 'int', 'QFlags<QIODevice::OpenModeFlag>': 'int', 'QIODevice::OpenMode': 'int', 'QIODevice': 'QDataStream'},
        class_types={'QByteArray', 'QDataStream', 'QString', 'QStringList', 'QHostAddress', 'Q_IPV6ADDR', 'QSetU16', 'QXmppStunMessage', 'QCryptographicHash'},
        calls={
            'QByteArray::size/0': ('fn', 'QByteArray_size'),
            'QByteArray::isEmpty/0': ('fn', 'QByteArray_isEmpty'),
            'QByteArray::at/1': ('expr', 'QBA_AT({0}, {1})'),
            'op[]:QByteArray:int:const': ('expr', 'QBA_AT({0}, {1})'),
            'QByteArray::data/0': ('self',),
            'QByteArray::resize/1': ('fn', 'QByteArray_resize'),
            'QByteArray::left/1': ('fnret', 'QByteArray_left'),
            'QDataStream::skipRawData/1': ('fn', 'QDataStream_skipRawData'),
            'QDataStream::readRawData/2': read_raw,
            'QDataStream::device/0': ('self',),
            'QDataStream::seek/1': ('fn', 'QDataStream_device_seek'),
            'cast:BitCast:char*': bitcast_charp,
            'op>>:QDataStream:quint8': ('fn', 'QDataStream_rd_u8'),
            'op>>:QDataStream:quint16': ('fn', 'QDataStream_rd_u16'),
            'op>>:QDataStream:quint32': ('fn', 'QDataStream_rd_u32'),
            'op<<:QDataStream:qint16': ('fn', 'QDataStream_wr_i16_patch'),
            'op<<:QStringList': ('drop',),
            'op<<:QSetU16': ('fn', 'QSetU16_insert'),
            'op=:QString': ('fn', 'QString_assign'),
            'op=:QHostAddress': ('fn', 'QHostAddress_assign'),
            'op!=:QByteArray:QByteArray': ('callee', 'QByteArray_ne'),
            'fn:fromUtf8/1': ('fnret', 'QString_fromUtf8'),
            'fn:decodeAddress': ('callee', 'decodeAddress'),
            'fn:setBodyLength': ('callee', 'setBodyLength'),
            'fn:generateHmacSha1': ('calleeret', 'generateHmacSha1'),
            'fn:generateCrc32': ('callee', 'generateCrc32'),
            'ctor:QByteArray()': ('fn', 'QByteArray_ctor'),
            'ctor:QByteArray(int,int)': ('fn', 'QByteArray_ctor_fill'),
            'ctor:QByteArray(int,char)': ('fn', 'QByteArray_ctor_fill'),
            'ctor:QStringList()': ('zero',),
            'ctor:QDataStream(QByteArray)': ('fn', 'QDataStream_ctor_ro'),
            'ctor:QDataStream(QByteArray*,int)': ('fn', 'QDataStream_ctor_rw'),
            'ctor:QHostAddress(quint32)': ('fn', 'QHostAddress_ctor_v4'),
            'ctor:QHostAddress(unsigned int)': ('fn', 'QHostAddress_ctor_v4'),
            'ctor:QHostAddress(Q_IPV6ADDR)': ('fn', 'QHostAddress_ctor_v6'),
            'ctor:Q_IPV6ADDR()': ('drop',),
            # owned small arrays (-DQBA_OWNED)
            'op<<:QDataStream:quint32': ('fn', 'QDataStream_wr_u32_own'),
            'op+=:QByteArray:QByteArray': ('fn', 'QByteArray_append'),
            'op+=:QByteArray:char': ('fn', 'QByteArray_append_char'),
            'op+=:QByteArray:int': ('expr', 'QByteArray_append_char({0}, (char){1})'),
            'op+:QByteArray:QByteArray': ('fnret', 'QByteArray_concat'),
            'op[]:QByteArray:int': ('expr', 'QBA_REF_READ({0}, {1})'),
            'char::operator char/0': ('arg', 0),
            'QByteArray::operator QByteArray/0': ('arg', 0),
            'op[]:Q_IPV6ADDR:int': ('expr', '{v0}.c[{1}]'),
            'ctor:QCryptographicHash(int)': ('fn', 'QCryptographicHash_ctor'),
            'QCryptographicHash::addData/1': ('fn', 'QCryptographicHash_addData'),
            'QCryptographicHash::result/0': ('fnret', 'QCryptographicHash_result'),
            'QCryptographicHash::reset/0': ('fn', 'QCryptographicHash_reset'),
            'fn:generateHmac': ('calleeret', 'generateHmac'),
            'fn:hash/2': ('fnret', 'QCryptographicHash_hash'),
            'rangefor:QByteArray': rangefor_indexed('QByteArray_size({r})', 'QBA_AT({r}, {i})'),
        },
        default_args={'QByteArray': '(&QByteArray_empty)'},
        hooks=[],
    )
    if mode == 'wlog':
        # encoder side: the output buffer is a write log (qtmodel/bytes.h, -DQBA_WLOG)
        p.calls.update({
            'op<<:QDataStream:quint8': ('fn', 'QDataStream_wr_u8'),
            'op<<:QDataStream:quint16': ('fn', 'QDataStream_wr_u16'),
            'op<<:QDataStream:quint32': ('fn', 'QDataStream_wr_u32'),
            'QDataStream::writeRawData/2': write_raw,
            'QSetU16::contains/1': ('fn', 'QSetU16_contains'),
            'QHostAddress::protocol/0': ('field', 'proto'),
            'QHostAddress::isNull/0': ('expr', '({0}->proto == -1)'),
            'QHostAddress::toIPv4Address/0': ('field', 'v4'),
            'QHostAddress::toIPv6Address/0': ('fnret', 'QHostAddress_toIPv6Address'),
            'QString::toUtf8/0': ('fnret', 'QString_toUtf8'),
            # number of UTF-16 code units: its own (uninterpreted) function of the string, NOT the UTF-8 length
            'QString::size/0': ('expr', 'QString_utf16_len({0})'),
            'QString::length/0': ('expr', 'QString_utf16_len({0})'),
            'QString::count/0': ('expr', 'QString_utf16_len({0})'),
            'fn:addAddress': ('callee', 'addAddress'),
            'fn:encodeAddress': ('callee', 'encodeAddress'),
            'fn:encodeString': ('callee', 'encodeString'),
            'fn:qWarning': ('drop',),
            'QMessageLogger::warning/1': ('drop',),
            'ctor:QByteArray(QByteArray)': ('fn', 'QByteArray_copy'),
        })
        p.types['QAbstractSocket::NetworkLayerProtocol'] = 'int'
    return p
