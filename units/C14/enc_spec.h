/* encoder-side ghost state and oracle contracts (write-log model, -DQBA_WLOG -DQBA_OWNED=40) */
/* A-UTF8: QString::toUtf8 returns a byte string determined by the string: length = utf8_len(id) in 0..QBA_MAX, content opaque */
int __CPROVER_uninterpreted_utf8_len(int id);
char *gh_utf8_store;   /* QBA_MAX unspecified bytes, allocated by the harness */
#define UTF8_LEN(s) (__CPROVER_uninterpreted_utf8_len((s)->id))
int __CPROVER_uninterpreted_utf16_len(int id);
static inline int QString_utf16_len(const QString *s) { int n = __CPROVER_uninterpreted_utf16_len(s->id); __CPROVER_assume(0 <= n && n <= QBA_MAX); return n; }
static inline void QString_toUtf8(QByteArray *r, const QString *s) { int n = UTF8_LEN(s); __CPROVER_assume(0 <= n && n <= QBA_MAX); QByteArray_ctor(r); r->n = n; r->vlen = n; r->src = gh_utf8_store; }
static const QByteArray QByteArray_empty;
/* ghost: where the integrity / fingerprint attributes start, and what the oracles were asked */
int gh_e_mi_off, gh_e_fp_off; bool gh_e_saw_mi, gh_e_saw_fp;
int gh_hmac_calls, gh_hmac_len; const QByteArray *gh_hmac_key; char gh_hmac_arg_w; bool gh_hmac_patched; quint16 gh_hmac_plen; char gh_hmac_out[20];
int gh_crc_calls, gh_crc_len; char gh_crc_arg_w; bool gh_crc_patched; quint16 gh_crc_plen; quint32 gh_crc_out;
#define PLEN(b) ((quint16)((((quint32)(unsigned char)(b)->p2) << 8) | (quint32)(unsigned char)(b)->p3))
