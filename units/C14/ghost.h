/* C14 ghost state and contracts of the callees of QXmppStunMessage::decode (DESIGN 5.1, 5.2, 5.8) */
size_t g_k;           /* witness index into the HMAC / CRC argument (arbitrary => all indices) */
int    g_j;           /* witness index into the 20 MAC bytes */
int    gh_hmac_calls, gh_hmac_len; const QByteArray *gh_hmac_key; char gh_hmac_arg_k; char gh_hmac_out[20];
int    gh_crc_calls,  gh_crc_len;  char gh_crc_arg_k; quint32 gh_crc_out;
bool   gh_saw_mi; int gh_mi_done; bool gh_mi_complete;    /* written by ghost hook mi_accepted */
bool   gh_saw_fp; int gh_fp_done; quint32 gh_fp_value;    /* written by ghost hook fp_checked */
static const QByteArray QByteArray_empty;
