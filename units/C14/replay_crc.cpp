// native replay for C14/generateCrc32: compares QXmppUtils::generateCrc32 with the bitwise CRC-32 definition
#include <QByteArray>
#include <cstdio>
#include <cstdlib>
#include "QXmppUtils.h"
static quint32 ref(const QByteArray &in)
{
    quint32 c = 0xffffffffu;
    for (int i = 0; i < in.size(); i++) {
        c ^= (unsigned char)in[i];
        for (int k = 0; k < 8; k++) c = (c & 1u) ? ((c >> 1) ^ 0xEDB88320u) : (c >> 1);
    }
    return c ^ 0xffffffffu;
}
int main(int argc, char **argv)
{
    unsigned seed = argc > 1 ? (unsigned)atoi(argv[1]) : 1u;
    int bad = 0;
    // every single byte value (covers every table entry), then pseudo-random strings
    for (int v = 0; v < 256 && !bad; v++) {
        QByteArray in(1, char(v));
        if (QXmppUtils::generateCrc32(in) != ref(in)) { printf("MISMATCH input=[%02x] got=%08x want=%08x\n", v, QXmppUtils::generateCrc32(in), ref(in)); bad++; }
    }
    for (int t = 0; t < 2000 && !bad; t++) {
        QByteArray in;
        int n = (seed = seed * 1103515245u + 12345u) >> 16 & 63;
        for (int i = 0; i < n; i++) in.append(char((seed = seed * 1103515245u + 12345u) >> 16));
        if (QXmppUtils::generateCrc32(in) != ref(in)) { printf("MISMATCH input=%s got=%08x want=%08x\n", in.toHex().constData(), QXmppUtils::generateCrc32(in), ref(in)); bad++; }
    }
    if (!bad) printf("crc ok\n");
    return bad ? 1 : 0;
}
