"""C18, storage side: the two memory-storage operations whose contracts the manager proofs ASSUME are lowered from the real
source and verified against exactly those effect clauses (units/C18/storage.h: ADDKEYS_*, STLO_EFFECT), with the abstract view
(pp / tl of the witness) read off the stored entries.

  QXmppAtmTrustMemoryStorage::addKeysForPostponedTrustDecisions   (src/client/QXmppAtmTrustMemoryStorage.cpp)
  QXmppTrustMemoryStorage::setTrustLevel(encryption, keyOwnerJids, oldTrustLevel, newTrustLevel)   (src/client/QXmppTrustMemoryStorage.cpp)

BOUNDED stand-in (labelled, never counted as proved): the QMultiHash of stored entries is a concrete sequence model
(units/C18/memstore.h) with at most 3 stored entries before the call; the key-owner list has at most 2 owners with at most one
trusted and one distrusted key each.  All loops are unwound completely within these bounds (unwinding assertions on).

Unit-local lowering extensions (mechanical, must-fire): iterator loops over the multi hash; a local lambda that contains loops
is lifted like any other (there are no loop contracts here); `std::find_if(first, last, <lambda>)` becomes the loop it stands for,
with the lambda's single return expression as the test; `auto [a, b] = equal_range(k)` binds the two iterators."""
import os, re
from vlib.unit import Builder, Target, VERIF
from vlib.runner import Proof
from vlib import astx, ctx, cxx2c
from vlib.cxx2c import Lowerer, Unsupported, qt
from vlib.configure import REPO

HERE = os.path.dirname(os.path.abspath(__file__))
QT = os.path.join(VERIF, 'qtmodel')
ATM_SRC = 'src/client/QXmppAtmTrustMemoryStorage.cpp'
TMS_SRC = 'src/client/QXmppTrustMemoryStorage.cpp'
STORED = 3      # stored entries before the call
OWNERS = 1      # key owners in the list handed to addKeysForPostponedTrustDecisions
KEYS = 1        # keys per trusted / distrusted list
CAP = STORED + OWNERS * 2 * KEYS


class StoreLowerer(Lowerer):
    def lower(self, extra_params=()):
        start = self.loops
        text = super().lower(extra_params)
        if self.is_lambda:
            # a lifted local lambda may contain loops here: these proofs use no loop contracts (complete unwinding)
            self.loops = start
        return text

    def fncall(self, n):
        if self.callee_ref(n).get('name') == 'find_if' and len(n['inner']) == 4:
            return self.find_if(n)
        return super().fncall(n)

    def find_if(self, n):
        """std::find_if(first, last, [..](const Entry &x) { return <test>; })  ->  it = first; while (it != last && !<test on *it>) ++it;"""
        first, last, pred = n['inner'][1:]
        lam = self.skip(pred)
        if lam.get('kind') != 'LambdaExpr':
            raise Unsupported('find_if whose predicate is not a lambda expression')
        rec = [c for c in lam['inner'] if c.get('kind') == 'CXXRecordDecl'][0]
        ops = [c for c in rec.get('inner', []) if c.get('kind') == 'CXXMethodDecl' and c.get('name') == 'operator()' and astx.has_body(c)]
        if len(ops) != 1:
            raise Unsupported('find_if predicate is generic or has no body')
        pv = [c for c in ops[0]['inner'] if c.get('kind') == 'ParmVarDecl']
        body = [c for c in ops[0]['inner'] if c.get('kind') == 'CompoundStmt'][0]
        stmts = body.get('inner', [])
        if len(pv) != 1 or len(stmts) != 1 or stmts[0].get('kind') != 'ReturnStmt':
            raise Unsupported('find_if predicate is not a single return statement over one parameter')
        it_t = self.ntype(self.skip(first))
        key = 'find_if:' + it_t
        rule = self.p.calls.get(key)
        if rule is None:
            raise Unsupported(key)
        self.fire(key)
        a = self.expr(first)
        b = self.addr(self.skip(last))
        it = self.newtmp()
        elem_t = self.ntype(pv[0])
        self.locals[pv[0]['id']] = ('%s_x' % it, elem_t, True)
        saved = self.pre
        self.pre = []
        test = self.expr(stmts[0]['inner'][0])
        tpre = self.pre
        self.pre = saved
        if tpre:
            raise Unsupported('find_if predicate needs temporaries')
        num = self.loops
        self.loops += 1
        self.pre.append('%s %s = %s;' % (it_t, it, a))
        self.pre.append('while (%s_ne(&%s, %s)) /*@LOOP%d@*/ { const %s *%s_x = %s_value(&%s); if (%s) break; %s_inc(&%s); }' % (it_t, it, b, num, elem_t, it, it_t, it, test, it_t, it))
        return it


def decomposition_range(pair_t, it_t):
    def rule(lw, v, sp):
        init = [c for c in v['inner'] if c.get('kind') != 'BindingDecl'][0]
        e = lw.expr(init)
        lw.flush(sp)
        name = '_d%d' % (len(lw.names) + 1)
        lw.names.add(name)
        lw.emit('%s%s %s = %s;' % (sp, pair_t, name, e))
        bs = [c for c in v['inner'] if c.get('kind') == 'BindingDecl']
        if len(bs) != 2:
            raise Unsupported('structured binding with %d names' % len(bs))
        for b_, f in zip(bs, ('first', 'second')):
            pn = '%s_%s' % (name, f)
            lw.names.add(pn)
            lw.emit('%s%s *%s = &%s.%s;' % (sp, it_t, pn, name, f))
            lw.locals[b_['id']] = (pn, it_t, True)
    return rule


def hash_rules(prof, entry_cpp, entry, hash_, it):
    """vocabulary of QMultiHash<QString, Entry> and its iterator"""
    h_cpp = 'QMultiHash<QString,%s>' % entry_cpp
    prof.types.update({entry_cpp: entry, h_cpp: hash_, 'QHash<QString,%s>' % entry_cpp: hash_,
                       'QHash<QString,%s>::iterator' % entry_cpp: it, 'QMultiHash<QString,%s>::iterator' % entry_cpp: it,
                       'typename QHash<QString,%s>::iterator' % entry_cpp: it,
                       'std::pair<QHash<QString,%s>::iterator,QHash<QString,%s>::iterator>' % (entry_cpp, entry_cpp): it + 'Pair',
                       'QPair<QHash<QString,%s>::iterator,QHash<QString,%s>::iterator>' % (entry_cpp, entry_cpp): it + 'Pair',
                       'QPair<typename QHash<QString,%s>::iterator,typename QHash<QString,%s>::iterator>' % (entry_cpp, entry_cpp): it + 'Pair',
                       'QPair<iterator,iterator>': it + 'Pair', 'std::pair<iterator,iterator>': it + 'Pair'})
    prof.class_types.update({entry, hash_, it, it + 'Pair'})
    prof.calls.update({
        'ctor:%s()' % entry: ('zero',),
        '%s::find/1' % hash_: ('fnret', hash_ + '_find', it), '%s::end/0' % hash_: ('fnret', hash_ + '_end', it),
        '%s::insert/2' % hash_: ('fn', hash_ + '_insert'),
        '%s::equal_range/1' % hash_: ('fnret', hash_ + '_equal_range', it + 'Pair'),
        'op!=:%s:%s' % (it, it): ('fn', it + '_ne'), 'op==:%s:%s' % (it, it): ('fn', it + '_eq'),
        'op++:%s' % it: ('fn', it + '_inc'),
        '%s::key/0' % it: ('fn', it + '_key'), '%s::value/0' % it: ('expr', '*%s_value({0})' % it),
        'op->:%s' % it: ('fn', it + '_value'), 'op*:%s' % it: ('expr', '*%s_value({0})' % it),
        'find_if:' + it: ('loop',),
    })
    for pt in [k for k, v in prof.types.items() if v == it + 'Pair']:
        prof.calls['decomposition:' + pt] = decomposition_range(it + 'Pair', it)


def profile(L):
    p = L.profile()
    p.types.update({
        'QXmppAtmTrustMemoryStorage': 'QXmppAtmTrustMemoryStorage', 'QXmppAtmTrustMemoryStoragePrivate': 'QXmppAtmTrustMemoryStoragePrivate',
        'std::unique_ptr<QXmppAtmTrustMemoryStoragePrivate>': 'QXmppAtmTrustMemoryStoragePrivate*',
        'std::unique_ptr<QXmppAtmTrustMemoryStoragePrivate>::pointer': 'QXmppAtmTrustMemoryStoragePrivate*',
        'QXmppTrustMemoryStorage': 'QXmppTrustMemoryStorage', 'QXmppTrustMemoryStoragePrivate': 'QXmppTrustMemoryStoragePrivate',
        'std::unique_ptr<QXmppTrustMemoryStoragePrivate>': 'QXmppTrustMemoryStoragePrivate*',
        'std::unique_ptr<QXmppTrustMemoryStoragePrivate>::pointer': 'QXmppTrustMemoryStoragePrivate*',
    })
    p.class_types.update({'QXmppAtmTrustMemoryStorage', 'QXmppAtmTrustMemoryStoragePrivate', 'QXmppTrustMemoryStorage', 'QXmppTrustMemoryStoragePrivate'})
    hash_rules(p, 'UnprocessedKey', 'UnprocessedKey', 'UKHash', 'UKIt')
    hash_rules(p, 'Key', 'Key', 'KHash', 'KIt')
    p.calls.update({
        'op->:QXmppAtmTrustMemoryStoragePrivate*': ('arg', 0), 'op->:QXmppTrustMemoryStoragePrivate*': ('arg', 0),
        'op==:qkey:qkey': ('expr', '{0} == {1}'), 'op!=:qkey:qkey': ('expr', '{0} != {1}'),
        'ctor:ModifiedKeys()': ('fn', 'ModifiedKeys_ctor'),
        'op[]:ModifiedKeys:qstr': ('expr', '*ModifiedKeys_index({0}, {1})'),
        'OwnerList::contains/1': ('fn', 'OwnerList_contains'), 'OwnerList::isEmpty/0': ('fn', 'OwnerList_isEmpty'),
        'fn:makeReadyTask/1': ('fn', 'makeReadyTask_modifiedKeys'),
    })
    p.hooks = []
    return p


def nested(pattern, n, none):
    """first-match lookup over the first n stored items, as one C expression"""
    e = none
    for i in reversed(range(n)):
        e = '((h).n > %d && %s ? %s : %s)' % (i, pattern[0].replace('#', str(i)), pattern[1].replace('#', str(i)), e)
    return e


def spec_defs():
    uk_hit = '(h).k[#] == g_e && (h).p[#]->senderKeyId == g_s && (h).p[#]->ownerJid == g_o && (h).p[#]->id == g_k'
    k_hit = '(h).k[#] == g_e && (h).p[#]->ownerJid == g_o && (h).p[#]->id == g_k'
    out = ['/* the abstract view read off the stored entries (first matching item; at most one matches: *_UNIQUE) */',
           '#define PP_OF(h) ' + nested((uk_hit, '((h).p[#]->trust ? PP_T : PP_F)'), CAP, 'PP_NONE'),
           '#define TL_OF(h) ' + nested((k_hit, '(h).p[#]->trustLevel'), CAP, 'QXmpp_TrustLevel__Undecided'),
           '#define TL_STORED(h) ' + nested((k_hit, '1'), CAP, '0')]
    for name, hit in (('UK_UNIQUE', uk_hit), ('K_UNIQUE', k_hit)):
        pairs = ['!((h).n > %d && %s && %s)' % (j, hit.replace('#', str(i)), hit.replace('#', str(j))) for i in range(STORED) for j in range(i + 1, STORED)]
        out.append('#define %s(h) (%s)' % (name, ' && '.join(pairs)))
    # bound of the key-owner list
    kb = ' && '.join('KO_KEYS_N(TME_KO_AT(gh_tme, %d), %s) <= %d' % (i, kind, KEYS) for i in range(OWNERS) for kind in ('TRUSTED', 'DISTRUSTED'))
    out.append('#define KOL_BOUND(l) ((l)->tme == gh_tme && (l)->tme != 0 && (l)->n == TME_KO_N(gh_tme) && 0 <= (l)->n && (l)->n <= %d && %s)' % (OWNERS, kb))
    return '\n'.join(out) + '\n'


def build(work, L, tier):
    global OWNERS, CAP
    OWNERS = 2 if tier == 'thorough' else 1     # quick: one key owner (two rounds: its trusted, its distrusted keys); thorough: two owners
    CAP = STORED + OWNERS * 2 * KEYS
    """returns (proofs, functions, fired, dropped, text for the assume scan)"""
    prof = profile(L)
    b = Builder('C18', work, prof)
    src_atm, src_tms = os.path.join(REPO, ATM_SRC), os.path.join(REPO, TMS_SRC)
    out = []
    jobs = [
        ('Mem_addKeysForPostponedTrustDecisions', ATM_SRC, 'QXmppAtmTrustMemoryStorage', 'addKeysForPostponedTrustDecisions', None, 'mem_addKeys.spec',
         'the stored postponed decision of the witness (sender key, owner, key id) after addKeysForPostponedTrustDecisions'),
        ('Mem_setTrustLevel_owners', TMS_SRC, 'QXmppTrustMemoryStorage', 'setTrustLevel', 'QList<QString>', 'mem_setTrustLevel_owners.spec',
         'the stored trust level of the witness (owner, key id) after setTrustLevel(encryption, owners, old, new)'),
    ]
    texts, specs, sigs = {}, {}, {}
    for cname, src, cls, name, sig, specf, _ in jobs:
        t = Target(src, cls + '::' + name, name, cname, this=cls, sig=sig, lowerer_cls=StoreLowerer)
        specs[cname] = b.spec(specf)
        texts[cname] = b.lower(t, None)
        b.functions[-1]['function'] = cls + '::' + name + (' (owners form)' if sig else '')
        sigs[cname] = b.last.signature
    for et, names in (('QXmpp::TrustLevel', {'Undecided', 'AutomaticallyTrusted', 'AutomaticallyDistrusted', 'Authenticated'}),):
        b.need_enums.setdefault((src_tms, ()), {}).setdefault(et, set()).update(names)
    ctxt = b.context()
    rec_uk, _ = ctx.emit_record(src_atm, 'UnprocessedKey', 'UnprocessedKey', 'UnprocessedKey', prof)
    rec_k, _ = ctx.emit_record(src_tms, 'Key', 'Key', 'Key', prof)
    own = b.subst(open(os.path.join(HERE, 'model.h')).read()) + b.subst(open(os.path.join(HERE, 'storage.h')).read())
    ms = open(os.path.join(HERE, 'memstore.h')).read()
    recs = (rec_uk + '\n' + rec_k + '\n#define MS_CAP %d\n' % CAP + ms + 'MS_DEFINE(UKHash, UKIt, UnprocessedKey)\nMS_DEFINE(KHash, KIt, Key)\n'
            'typedef struct QXmppAtmTrustMemoryStoragePrivate { UKHash keys; } QXmppAtmTrustMemoryStoragePrivate;\n'
            'typedef struct QXmppAtmTrustMemoryStorage { QXmppAtmTrustMemoryStoragePrivate *d; } QXmppAtmTrustMemoryStorage;\n'
            'typedef struct QXmppTrustMemoryStoragePrivate { KHash keys; } QXmppTrustMemoryStoragePrivate;\n'
            'typedef struct QXmppTrustMemoryStorage { QXmppTrustMemoryStoragePrivate *d; } QXmppTrustMemoryStorage;\n'
            '/* makeReadyTask(std::move(modifiedKeys)): a finished task; the value it carries is recorded */\n'
            'ModifiedKeys G_ready_modified;\n'
            'static inline qtask makeReadyTask_modifiedKeys(const ModifiedKeys *m) { G_ready_modified = *m; return TASK_READY; }\n'
            'int gh_pp0, gh_tl0; bool gh_stored0;\n' +
            ''.join('UnprocessedKey uk_pool%d; Key k_pool%d;\n' % (i, i) for i in range(CAP)))
    head = '#include "opaque.h"\n' + prof.literal_ids.table() + ctxt + '\n' + own + recs + spec_defs()
    lifted = '\n'.join(getattr(b, 'lifted', []))
    havoc = ('g_e = nondet_int(); g_o = nondet_int(); g_k = nondet_int(); g_s = nondet_int(); gh_tme = nondet_int(); gh_named_t = nondet_bool(); gh_named_d = nondet_bool(); '
             'g_i = nondet_int(); g_j = nondet_int(); g_i2 = nondet_int(); g_j2 = nondet_int(); gh_pp0 = nondet_int(); gh_tl0 = nondet_int(); gh_stored0 = nondet_bool(); '
             '__CPROVER_havoc_object(&G_ready_modified);')
    # the harness names the arguments as the contract does
    setup = {
        'Mem_addKeysForPostponedTrustDecisions': 'QXmppAtmTrustMemoryStoragePrivate dd; ' + ' '.join('__CPROVER_havoc_object(&uk_pool%d); dd.keys.p[%d] = &uk_pool%d;' % (i, i, i) for i in range(CAP)) +
                                                 ' QXmppAtmTrustMemoryStorage st; st.d = &dd; QXmppAtmTrustMemoryStorage *self = &st; KoList kl; const KoList *keyOwners = &kl; '
                                                 'qstr encryption = nondet_int(); qkey senderKeyId = nondet_int();',
        'Mem_setTrustLevel_owners': 'QXmppTrustMemoryStoragePrivate dd; ' + ' '.join('__CPROVER_havoc_object(&k_pool%d); dd.keys.p[%d] = &k_pool%d;' % (i, i, i) for i in range(CAP)) +
                                    ' QXmppTrustMemoryStorage st; st.d = &dd; QXmppTrustMemoryStorage *self = &st; OwnerList ol; const OwnerList *keyOwnerJids = &ol; '
                                    'qstr encryption = nondet_int(); int oldTrustLevel = nondet_int(), newTrustLevel = nondet_int();',
    }
    harness = {
        'Mem_addKeysForPostponedTrustDecisions': 'Mem_addKeysForPostponedTrustDecisions(self, encryption, senderKeyId, keyOwners);',
        'Mem_setTrustLevel_owners': 'Mem_setTrustLevel_owners(self, encryption, keyOwnerJids, oldTrustLevel, newTrustLevel);',
    }
    W = CAP + 1
    model_loops = lambda h: ['%s_find.0:%d' % (h, W), '%s_insert.0:%d' % (h, W), '%s_insert.1:%d' % (h, W), '%s_equal_range.0:%d' % (h, W), '%s_equal_range.1:%d' % (h, W)]
    unwindsets = {
        'Mem_addKeysForPostponedTrustDecisions': model_loops('UKHash') + ['Mem_addKeysForPostponedTrustDecisions.0:%d' % (OWNERS + 1)] +
        ['Mem_addKeysForPostponedTrustDecisions__addKeys.0:%d' % W, 'Mem_addKeysForPostponedTrustDecisions__addKeys.1:%d' % (KEYS + 1)],
        'Mem_setTrustLevel_owners': model_loops('KHash') + ['Mem_setTrustLevel_owners.%d:%d' % (i, W) for i in range(3)],
    }
    proofs = []
    for cname, src, cls, name, sig, specf, what in jobs:
        sp = specs[cname]
        pre, post, olds = [], [], []
        labels = list(sp.labels)
        for line in sp.contract.split('\n'):
            m = re.match(r'\s*__CPROVER_(requires|ensures)\((.*)\)\s*$', line)
            if not m:
                continue
            if m.group(1) == 'requires':
                pre.append('__CPROVER_assume(%s);' % m.group(2))
            else:
                e = m.group(2).replace('__CPROVER_return_value', 'ret')

                def snap(mm):
                    olds.append(mm.group(1))
                    return 'old%d' % len(olds)
                e = re.sub(r'__CPROVER_old\(([^()]*)\)', snap, e)
                lab = labels[len(post)]
                post.append('__CPROVER_assert(%s, "[%s] postcondition of the contract of %s");' % (e, lab, cname))
        call = harness[cname]
        body = ' '.join(pre) + ' ' + ' '.join('int old%d = %s;' % (i + 1, o) for i, o in enumerate(olds)) + ' qtask ret = ' + call + ' ' + ' '.join(post)
        c = head + lifted + '\n' + texts[cname] + '\nvoid contract_of_%s(void) { %s %s %s }\n' % (cname, havoc, setup[cname], body)
        f = b.write(cname + '.c', c)
        p = Proof(cname, f, 'contract_of_' + cname, enforce=None, replace=[], kind='bounded', unwindset=unwindsets[cname], include_dirs=[QT], timeout=900, loop_contracts=False, solver=[],
                  bound_text='at most %d stored entries before the call%s; concrete sequence model of QMultiHash (units/C18/memstore.h); every loop unwound completely within these bounds (unwinding assertions on); '
                  'the clauses of the contract are assumed / asserted around a call of the lowered function (no frame instrumentation)'
                  % (STORED, ', at most %d key owner(s) with at most %d trusted and %d distrusted key each' % (OWNERS, KEYS, KEYS) if 'addKeys' in cname else ''),
                  note='BOUNDED stand-in: ' + what + ' satisfies exactly the effect clauses the manager proofs assume for this operation')
        p.labels = {}
        p.expect_post = len(sp.labels)
        proofs.append(p)
    return proofs, b.functions, b.fired, b.dropped, ms
