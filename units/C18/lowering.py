"""C18 lowering: profile and Lowerer subclass for QXmppAtmManager's continuation-passing code.

Unit-local, mechanical extensions of the lowering (all must-fire):
  * `task.then(this, <lambda>)` REGISTERS a continuation: the lambda body is not run at that point.  The call becomes
    `then_<fn>_k<i>(task, this, <captured values...>)`, a generated registration function that copies the captured values
    into the ghost record R_<fn>_k<i> (what the closure object holds).  The lambda's (instantiated) operator() is a
    verification target of its own: <fn>_k<i>(self?, own parameters..., captured values...).  Captures are by copy
    (`[=]` / `[=, this]`): scalars by value, class models through a pointer to the closure's own copy.
  * continuation lambdas are named by their nesting path inside the repository function: k0, k0_0, k0_0_1, ...
  * a generic lambda (`auto` parameter) is taken in its single instantiation (FunctionTemplateDecl -> CXXMethodDecl).
"""
import re
from vlib import astx
from vlib.cxx2c import Lowerer, Unsupported, qt, dqt, strip_type
from vlib.opaque_profile import opaque_profile


def chosen_operator(lam):
    """the operator() with a body that is executed when the closure is called (the instantiation, for a generic lambda)"""
    rec = [c for c in lam.get('inner', []) if c.get('kind') == 'CXXRecordDecl']
    if len(rec) != 1:
        raise Unsupported('lambda without closure record')
    found = []
    for m in rec[0].get('inner', []):
        if m.get('kind') == 'FunctionTemplateDecl' and m.get('name') == 'operator()':
            for s in m.get('inner', []):
                if s.get('kind') == 'CXXMethodDecl' and s.get('name') == 'operator()' and astx.has_body(s):
                    ps = [x for x in s.get('inner', []) if x.get('kind') == 'ParmVarDecl']
                    if any('auto' in qt(x) for x in ps):
                        continue          # the uninstantiated pattern
                    found.append(s)
        elif m.get('kind') == 'CXXMethodDecl' and m.get('name') == 'operator()' and astx.has_body(m):
            found.append(m)
    if len(found) != 1:
        raise Unsupported('expected exactly one executable operator() of the lambda at %s, found %d' % (lambda_pos(lam), len(found)))
    if astx.contains_error_nodes(found[0]):
        raise astx.ExtractError('AST of the lambda at %s contains clang error-recovery nodes' % lambda_pos(lam))
    return found[0], rec[0]


def lambda_pos(lam):
    m = re.search(r'lambda at [^:]*:(\d+):(\d+)', qt(lam))
    return '%s:%s' % (m.group(1), m.group(2)) if m else '?'


def capture_ref(n):
    """the captured entity of a capture initialiser: CXXThisExpr or the DeclRefExpr of the copied variable"""
    while True:
        k = n.get('kind')
        if k in ('CXXThisExpr', 'DeclRefExpr'):
            return n
        inner = [c for c in n.get('inner', []) if isinstance(c, dict) and c.get('kind')]
        if k in ('CXXConstructExpr', 'ImplicitCastExpr', 'MaterializeTemporaryExpr', 'CXXBindTemporaryExpr', 'ExprWithCleanups',
                 'CXXFunctionalCastExpr', 'CXXStaticCastExpr', 'ParenExpr') and len(inner) == 1:
            n = inner[0]
            continue
        raise Unsupported('capture initialiser of kind %s (only `this` and copies of local variables are handled)' % k)


class Continuation:
    """one `.then(ctx, lambda)` site: name, closure layout, the operator() to be lowered as a target"""

    def __init__(self, name, lam, op, captures, captures_this, parent_this_type):
        self.name = name
        self.lam = lam
        self.op = op
        self.captures = captures          # [{'id','name','ctype','is_class'}] in closure-field order, `this` excluded
        self.captures_this = captures_this
        self.this_type = parent_this_type if captures_this else None
        self.pos = lambda_pos(lam)

    def extra_params(self):
        return ['%s %s%s' % (c['ctype'], '*' if c['is_class'] else '', c['name']) for c in self.captures]

    def registration_c(self, ctx_type):
        """ghost record + registration function (model of QXmppTask::then: stores the closure, runs nothing)"""
        fields = ['unsigned reg;', 'qtask task;', 'const %s *ctx;' % ctx_type] + ['%s %s;' % (c['ctype'], c['name']) for c in self.captures]
        params = ['qtask t', 'const %s *ctx' % ctx_type] + ['const %s %s%s' % (c['ctype'], '*' if c['is_class'] else '', c['name']) for c in self.captures]
        body = ['R_%s.reg++;' % self.name, 'R_%s.task = t;' % self.name, 'R_%s.ctx = ctx;' % self.name]
        body += ['R_%s.%s = %s%s;' % (self.name, c['name'], '*' if c['is_class'] else '', c['name']) for c in self.captures]
        return ('/* continuation %s (lambda at line %s): closure record and registration */\n' % (self.name, self.pos.split(':')[0]) +
                'struct { %s } R_%s;\n' % (' '.join(fields), self.name) +
                'static inline void then_%s(%s) { %s }\n' % (self.name, ', '.join(params), ' '.join(body)))


class C18Lowerer(Lowerer):
    def __init__(self, decl, cname, profile, this_type=None, is_lambda=False, captures=(), is_cont=False):
        super().__init__(decl, cname, profile, this_type=this_type, is_lambda=is_lambda)
        self.conts = []
        self.is_cont = is_cont
        for c in captures:
            self.names.add(c['name'])
            self.locals[c['id']] = (c['name'], c['ctype'], c['is_class'])

    def lambda_expr(self, n):
        op, rec = chosen_operator(n)
        fields = [c for c in rec.get('inner', []) if c.get('kind') == 'FieldDecl']
        inits = [c for c in n.get('inner', []) if isinstance(c, dict) and c.get('kind') not in ('CXXRecordDecl', 'CompoundStmt')]
        if len(fields) != len(inits):
            raise Unsupported('lambda at %s: %d closure fields, %d capture initialisers' % (lambda_pos(n), len(fields), len(inits)))
        caps, args, captures_this = [], [], False
        for f, i in zip(fields, inits):
            r = capture_ref(i)
            if r['kind'] == 'CXXThisExpr':
                captures_this = True
                continue
            if qt(f).strip().endswith('&'):
                raise Unsupported('lambda at %s captures %s by reference' % (lambda_pos(n), r['referencedDecl'].get('name')))
            rd = r['referencedDecl']
            if rd['id'] not in self.locals:
                raise Unsupported('lambda at %s captures %s, which is not a local of the enclosing function' % (lambda_pos(n), rd.get('name')))
            ct = self.ctype(f['type'].get('qualType')) if self._has_ctype(f) else self.ntype(f)
            is_class = ct in self.p.class_types
            caps.append({'id': rd['id'], 'name': rd['name'], 'ctype': ct, 'is_class': is_class})
            e = self.declref(r)
            args.append(self.addr_of(e) if is_class else e)
        name = ('%s_%d' if self.is_cont else '%s_k%d') % (self.cname, len(self.conts))
        cont = Continuation(name, n, op, caps, captures_this, self.this_type)
        cont.args = args
        self.conts.append(cont)
        self.fire('lambda:continuation-registered')
        return 'K_' + name

    def _has_ctype(self, f):
        try:
            self.ctype(f['type'].get('qualType'))
            return True
        except Unsupported:
            return False


def then_rule(lw, node, args):
    """task.then(context, lambda): registration of the continuation created by the lambda expression just lowered"""
    if len(args) != 3 or not args[2].startswith('K_') or not lw.conts or 'K_' + lw.conts[-1].name != args[2]:
        raise Unsupported('then() whose continuation is not a lambda expression written at the call')
    cont = lw.conts[-1]
    return 'then_%s(%s)' % (cont.name, ', '.join([args[0], args[1]] + cont.args))


A = 'QXmppAtmManager'
KS = 'QMultiHash<QString,QByteArray>'


def profile():
    p = opaque_profile(
        types={
            A: A, 'QXmppAtmTrustStorage': 'QXmppAtmTrustStorage',
            'QXmppMessage': 'qmsg',
            'std::optional<QXmppTrustMessageElement>': 'qtme',
            'std::optional<QXmppE2eeMetadata>': 'qe2ee',
            'QByteArray': 'qkey',
            'QXmppTrustMessageKeyOwner': 'qko',
            'QXmppPromise<void>': 'qpromise',
            'QXmppTask<void>': 'qtask', 'QXmppTask<bool>': 'qtask', 'QXmppTask<QXmpp::TrustLevel>': 'qtask', 'QXmppTask<QXmpp::TrustSecurityPolicy>': 'qtask',
            'QXmppTask<QHash<bool,%s>>' % KS: 'qtask', 'QXmppTask<QHash<QString,%s>>' % KS: 'qtask',
            'QXmpp::TrustLevel': 'int', 'TrustLevel': 'int', 'QXmpp::TrustLevels': 'int', 'TrustLevels': 'int', 'QFlags<QXmpp::TrustLevel>': 'int', 'QXmpp::TrustSecurityPolicy': 'int', 'TrustSecurityPolicy': 'int',
            KS: 'KeySet', 'QHash<bool,%s>' % KS: 'PostponedResult', 'QHash<QString,%s>' % KS: 'ModifiedKeys',
            'QList<QXmppTrustMessageKeyOwner>': 'KoList', 'QList<QByteArray>': 'KeyList', 'QList<QString>': 'OwnerList',
        },
        class_types={A, 'QXmppAtmTrustStorage', 'KeySet', 'PostponedResult', 'ModifiedKeys', 'KoList', 'KeyList', 'OwnerList'},
        calls={
            # ---- the message and its trust message element: opaque values, getters are functions of the value (model.h)
            'qmsg::trustMessageElement/0': ('fn', 'qmsg_trustMessageElement'),
            'qmsg::from/0': ('fn', 'qmsg_from'),
            'qmsg::e2eeMetadata/0': ('fn', 'qmsg_e2eeMetadata'),
            'qtme::operator bool/0': ('expr', '{0} != 0'),
            'qe2ee::operator bool/0': ('expr', '{0} != 0'),
            'op->:qtme': ('arg', 0), 'op->:qe2ee': ('arg', 0),
            'QXmppTrustMessageElement::usage/0': ('fn', 'qtme_usage'),
            'QXmppTrustMessageElement::encryption/0': ('fn', 'qtme_encryption'),
            'QXmppTrustMessageElement::keyOwners/0': ('fnret', 'qtme_keyOwners', 'KoList'),
            'QXmppE2eeMetadata::senderKey/0': ('fn', 'qe2ee_senderKey'),
            'qko::jid/0': ('fn', 'qko_jid'),
            'qko::trustedKeys/0': ('fnret', 'qko_trustedKeys', 'KeyList'),
            'qko::distrustedKeys/0': ('fnret', 'qko_distrustedKeys', 'KeyList'),
            # ---- own address: pure getters of the client configuration (ASSUMED)
            'QXmppConfiguration::jid/0': ('const', 'gh_own_jid'),
            'QXmppConfiguration::jidBare/0': ('const', 'gh_own_bare'),
            # ---- containers (witness views, model.h)
            'ctor:KeySet()': ('fn', 'KeySet_ctor'), 'ctor:KoList()': ('fn', 'KoList_ctor'), 'ctor:KeyList()': ('fn', 'KeyList_ctor'), 'ctor:OwnerList()': ('fn', 'OwnerList_ctor'),
            'KeySet::insert/2': ('fn', 'KeySet_insert'),
            'KeySet::isEmpty/0': ('fn', 'KeySet_isEmpty'), 'KeyList::isEmpty/0': ('fn', 'KeyList_isEmpty'),
            'KeySet::values/0': ('fnret', 'KeySet_values', 'KeyList'),
            'KeySet::uniqueKeys/0': ('fnret', 'KeySet_uniqueKeys', 'OwnerList'),
            'KoList::append/1': ('fn', 'KoList_append'),
            'PostponedResult::value/1': ('fnret', 'PostponedResult_value', 'KeySet'),
            # QHash<QString, QMultiHash<QString, QByteArray>>: the "modified keys" answer of the storage-level setTrustLevel (encryption -> keys)
            'ModifiedKeys::value/1': ('fnret', 'ModifiedKeys_value', 'KeySet'),
            'ModifiedKeys::isEmpty/0': ('fn', 'ModifiedKeys_isEmpty'),
            'KeySet::contains/2': ('fn', 'KeySet_contains'),
            # signal of QXmppTrustManager: a synchronous notification with no effect on the manager or the storage (ASSUMED)
            A + '::trustLevelsChanged/1': ('fn', 'sig_trustLevelsChanged'),
            'rangefor:KoList': None, 'rangefor:KeyList': None,      # filled below
            # ---- promise / task (QXmppPromise, QXmppTask: property C13; here: ids, an event log, registration)
            'ctor:qpromise()': ('fn', 'qpromise_new'),
            'qpromise::task/0': ('fn', 'qpromise_task'),
            'qpromise::finish/0': ('fn', 'qpromise_finish'),
            'fn:makeReadyTask/0': ('fn', 'makeReadyTask'),
            'qtask::then/2': then_rule,
            # ---- trust manager / trust storage operations: ASSUMED contracts over the abstract view (storage.h)
            A + '::trustLevel/3': ('callee', 'TrustManager_trustLevel'),
            A + '::hasKey/3': ('callee', 'TrustManager_hasKey'),
            A + '::setTrustLevel/3': ('callee', 'TrustManager_setTrustLevel_keys'),
            A + '::setTrustLevel/4': ('callee', 'TrustManager_setTrustLevel_owners'),
            A + '::securityPolicy/1': ('callee', 'TrustManager_securityPolicy'),
            A + '::trustStorage/0': ('const', 'gh_storage'),
            # the storage-level operations that QXmppTrustManager's wrappers forward to (same effect, the answer carries the modified keys)
            'QXmppAtmTrustStorage::setTrustLevel/3': ('callee', 'Storage_setTrustLevel_keys'),
            'QXmppAtmTrustStorage::setTrustLevel/4': ('callee', 'Storage_setTrustLevel_owners'),
            'QXmppAtmTrustStorage::trustLevel/3': ('callee', 'Storage_trustLevel'),
            'QXmppAtmTrustStorage::addKeysForPostponedTrustDecisions/3': ('callee', 'Storage_addKeysForPostponedTrustDecisions'),
            'QXmppAtmTrustStorage::removeKeysForPostponedTrustDecisions/1': ('callee', 'Storage_removeAllPostponed'),
            'QXmppAtmTrustStorage::removeKeysForPostponedTrustDecisions/2': ('callee', 'Storage_removePostponedBySenderKeys'),
            'QXmppAtmTrustStorage::removeKeysForPostponedTrustDecisions/3': ('callee', 'Storage_removePostponedByKeyIds'),
            'QXmppAtmTrustStorage::keysForPostponedTrustDecisions/2': ('callee', 'Storage_keysForPostponedTrustDecisions'),
            # ---- repository functions under contract in this unit
            A + '::makeTrustDecisions/3': ('callee', 'Atm_makeTrustDecisions'),
            A + '::authenticate/2': ('callee', 'Atm_authenticate'),
            A + '::distrust/2': ('callee', 'Atm_distrust'),
            A + '::distrustAutomaticallyTrustedKeys/2': ('callee', 'Atm_distrustAutomaticallyTrustedKeys'),
            A + '::makePostponedTrustDecisions/2': ('callee', 'Atm_makePostponedTrustDecisions'),
        },
        pure_fns={'client', 'configuration', 'jidBare', 'jid', 'trustStorage'},
    )
    from vlib import cxx2c
    p.calls['rangefor:KoList'] = cxx2c.rangefor_indexed('KoList_size({r})', 'KoList_at({r}, {i})')
    p.calls['rangefor:KeyList'] = cxx2c.rangefor_indexed('KeyList_size({r})', 'KeyList_at({r}, {i})')
    return p
