/* units/C18/calls.h -- call records of the repository functions under contract (each is written by a ghost hook at the
 * entry of the lowered function: how often it was entered and with which arguments), and names used by the specifications. */
struct { unsigned calls; qstr enc; KeySet KA, KD; } G_mtd;        /* makeTrustDecisions(enc, keysForAuthentication, keysForDistrusting) */
struct { unsigned calls; qstr enc; KeySet keys; } G_auth;         /* authenticate(enc, keys) */
struct { unsigned calls; qstr enc; KeySet keys; } G_dis;          /* distrust(enc, keys) */
struct { unsigned calls; qstr enc; OwnerList owners; } G_datk;    /* distrustAutomaticallyTrustedKeys(enc, owners) */
struct { unsigned calls; qstr enc; KeyList senders; } G_mp;       /* makePostponedTrustDecisions(enc, senderKeyIds) */

#define AUTHENTICATED QXmpp_TrustLevel__Authenticated
#define MANUALLY_DISTRUSTED QXmpp_TrustLevel__ManuallyDistrusted
#define AUTOMATICALLY_TRUSTED QXmpp_TrustLevel__AutomaticallyTrusted
#define AUTOMATICALLY_DISTRUSTED QXmpp_TrustLevel__AutomaticallyDistrusted
#define TOAKAFA QXmpp_TrustSecurityPolicy__Toakafa

/* XEP-0450: the trust message element of a message is acted upon iff it exists, is used for ATM, and the message was not
   sent by this very endpoint (reflected by Message Carbons) */
#define HM_ACCEPT(m) (MSG_TME(m) != 0 && TME_USAGE(MSG_TME(m)) == S("urn:xmpp:atm:1") && MSG_FROM(m) != gh_own_jid)
/* the sender's own key is authenticated */
#define SENDER_AUTH(level) ((level) == AUTHENTICATED)
#define SENDER_KEY_AUTH SENDER_AUTH(gh_sender_tl)
/* scope: an own endpoint may decide about keys of every owner, a contact's endpoint only about keys of that contact (here: of g_o) */
#define SENDER_IN_SCOPE(senderBareJid) ((senderBareJid) == gh_own_bare || (senderBareJid) == g_o)

/* the abstract postponed entry is one of the three values (kept by every storage contract) */
#define PP_OK (pp == PP_NONE || pp == PP_T || pp == PP_F)
/* a round of makePostponedTrustDecisions: G_mp holds the sender keys the round was started for; the witness sender key
   is among them (an empty list asks for the decisions of ALL sender keys, as QXmppAtmTrustStorage documents) */
#define ROUND_LISTED (G_mp.senders.has_s || !G_mp.senders.nonempty)
/* input class of finding C18-F1: the witness decision belongs to a sender key that this round was NOT started for, and the
   answer contains a decision of the same kind about the same key id (of whatever sender key and owner) */
#define MP_F1(R, enc, pp0) ((enc) == g_e && !ROUND_LISTED && (((pp0) == PP_T && (R).t.has_kid_k) || ((pp0) == PP_F && (R).f.has_kid_k)))
/* the closure of makePostponedTrustDecisions' first continuation holds no sender keys in the code as it is; after the repair
   proposed for C18-F1 it does (the unit then defines CLOSURE_HAS_SENDER_KEYS) and they must be those of the round */
#ifdef CLOSURE_HAS_SENDER_KEYS
#define MP_CLOSURE_CARRIES(senders) KL_EQ(R_Atm_makePostponedTrustDecisions_k0.senderKeyIds, *(senders))
#else
#define MP_CLOSURE_CARRIES(senders) 1
#endif
/* a round of authenticate: G_auth holds the key set K the round was started for.  The continuations of the round must make
   the postponed decisions of exactly K's key ids as sender keys; a closure member named keyIds, where a closure has one, is K */
#define AUTH_ROUND(e_) (G_auth.enc == (e_) && KS_WF(G_auth.keys) && G_auth.keys.nonempty)
#ifdef HAS_Atm_authenticate_k0_0_0_keyIds
#define AUTH_K000_CARRIES_K (KS_EQ(R_Atm_authenticate_k0_0_0.keyIds, G_auth.keys) && KS_WF(R_Atm_authenticate_k0_0_0.keyIds))
#else
#define AUTH_K000_CARRIES_K 1
#endif
