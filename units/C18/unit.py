"""C18 -- automatic trust management: only an authenticated key's holder can move trust, within scope.

Every repository function below and every continuation lambda it passes to QXmppTask::then() is lowered from the real
source on every run and verified against its own contract; lemma harnesses that use only these contracts compose one
level of the continuation chains."""
import os, re, functools
from vlib.unit import Builder, Target, VERIF, scan_assumes
from vlib.runner import Proof
from vlib import astx, cxx2c
from vlib.configure import REPO

import importlib.util
HERE = os.path.dirname(os.path.abspath(__file__))
_spec = importlib.util.spec_from_file_location('c18_lowering', os.path.join(HERE, 'lowering.py'))
L = importlib.util.module_from_spec(_spec)
_spec.loader.exec_module(L)
_spec2 = importlib.util.spec_from_file_location('c18_memstore', os.path.join(HERE, 'memstore.py'))
MS = importlib.util.module_from_spec(_spec2)
_spec2.loader.exec_module(MS)

QT = os.path.join(VERIF, 'qtmodel')
SRC = 'src/client/QXmppAtmManager.cpp'
A = 'QXmppAtmManager'

# repository functions: (method, number of parameters, ghost hook at function entry that writes the call record)
FUNCS = [
    ('handleMessage', 1, None),
    ('makeTrustDecisions', 3, 'G_mtd.calls++; G_mtd.enc = encryption; G_mtd.KA = *keyIdsForAuthentication; G_mtd.KD = *keyIdsForDistrusting;'),
    ('authenticate', 2, 'G_auth.calls++; G_auth.enc = encryption; G_auth.keys = *keyIds;'),
    ('distrust', 2, 'G_dis.calls++; G_dis.enc = encryption; G_dis.keys = *keyIds;'),
    ('distrustAutomaticallyTrustedKeys', 2, 'G_datk.calls++; G_datk.enc = encryption; G_datk.owners = *keyOwnerJids;'),
    ('makePostponedTrustDecisions', 2, 'G_mp.calls++; G_mp.enc = encryption; G_mp.senders = *senderKeyIds;'),
]
# the continuation tree the specifications are written for (a changed tree is a restructuring: exit 2)
EXPECTED_TREE = {
    'Atm_handleMessage': ['k0', 'k0_0', 'k0_0_0'],
    'Atm_makeTrustDecisions': ['k0', 'k0_0'],
    'Atm_authenticate': ['k0', 'k0_0', 'k0_0_0', 'k0_0_0_0', 'k0_0_1'],
    'Atm_distrust': ['k0', 'k0_0'],
    'Atm_distrustAutomaticallyTrustedKeys': [],
    'Atm_makePostponedTrustDecisions': ['k0', 'k0_0', 'k0_0_0'],
}
# what each closure holds besides `this` (the specifications name these members; a changed closure is a restructuring: exit 2)
EXPECTED_CLOSURE = {
    'Atm_handleMessage_k0': ['senderJid', 'trustMessageElement', 'encryption', 'senderKey', 'promise'],
    'Atm_handleMessage_k0_0': ['encryption', 'keysBeingAuthenticated', 'keysBeingDistrusted', 'promise'],
    'Atm_makeTrustDecisions_k0': ['encryption', 'keyIdsForDistrusting', 'promise'],
    'Atm_authenticate_k0': ['encryption', 'keyIds', 'promise'], 'Atm_authenticate_k0_0': ['encryption', 'keyIds', 'promise'],
    'Atm_authenticate_k0_0_0': ['encryption', 'promise'],     # keyIds too in the code as it is (optional: HAS_Atm_authenticate_k0_0_0_keyIds)
    'Atm_distrust_k0': ['encryption', 'keyIds', 'promise'],
    'Atm_makePostponedTrustDecisions_k0': ['encryption', 'promise'],
    'Atm_makePostponedTrustDecisions_k0_0': ['encryption', 'keysBeingAuthenticated', 'keysBeingDistrusted', 'promise'],
}
# the closure of makePostponedTrustDecisions' first continuation after the repair proposed for finding C18-F1
REPAIRED_CLOSURE = {'Atm_makePostponedTrustDecisions_k0': ['encryption', 'senderKeyIds', 'promise']}
# what the lemma harnesses hand to a continuation for its OWN parameters (the answer of the operation it was registered on)
OWN_ARGS = {'senderKeyTrustLevel': 'stl', 'isSenderKeyAuthenticated': 'hk', 'securityPolicy': 'policy', 'keysForPostponedTrustDecisions': '&R', 'modifiedKeys': '&M'}
STORAGE_OPS = ['TrustManager_trustLevel', 'TrustManager_hasKey', 'TrustManager_setTrustLevel_keys', 'TrustManager_setTrustLevel_owners', 'TrustManager_securityPolicy',
               'Storage_setTrustLevel_keys', 'Storage_setTrustLevel_owners', 'Storage_trustLevel',
               'Storage_addKeysForPostponedTrustDecisions', 'Storage_removePostponedBySenderKeys', 'Storage_removePostponedByKeyIds', 'Storage_removeAllPostponed',
               'Storage_keysForPostponedTrustDecisions']
GHOST_SCALARS = ['g_e', 'g_o', 'g_k', 'g_s', 'gh_own_jid', 'gh_own_bare', 'gh_sender_tl', 'gh_tme', 'gh_named_t', 'gh_named_d', 'g_i', 'g_j', 'g_i2', 'g_j2',
                 'tl', 'pp', 'gh_promises']
GHOST_RECORDS = ['G_fin', 'G_tlq', 'G_hk', 'G_stl', 'G_stlo', 'G_pol', 'G_add', 'G_rms', 'G_rmk', 'G_rma', 'G_get', 'G_mtd', 'G_auth', 'G_dis', 'G_datk', 'G_mp']
FINDING = 'C18-F1'


def rd(name):
    return open(os.path.join(HERE, name)).read()


def params_of(signature):
    m = re.match(r'(\w[\w ]*?)\s*(\w+)\((.*)\)$', signature)
    ps = [] if m.group(3).strip() == 'void' else [p.strip() for p in cxx2c.split_top(m.group(3))]
    return m.group(1).strip(), m.group(2), ps


def harness(cname, signature, havoc):
    """every scalar parameter is nondeterministic; every pointer parameter points to an object of its own with nondeterministic
    content (the contract's is_fresh clauses may replace it)"""
    ret, name, ps = params_of(signature)
    decls, args = [], []
    for p in ps:
        mm = re.match(r'(.*?)(\w+)$', p)
        t, n = mm.group(1), mm.group(2)
        if t.strip().endswith('*'):
            base = re.sub(r'\bconst\b', '', t).replace('*', '').strip()
            decls.append('%s %s_obj; %s%s = &%s_obj;' % (base, n, t, n, n))
        else:
            decls.append('%s%s;' % (t, n))
        args.append(n)
    return 'void h_%s(void) { %s %s %s(%s); }\n' % (cname, havoc, ' '.join(decls), cname, ', '.join(args))


def build(work, tier):
    prof = L.profile()
    hooks = [{'id': 'call_record_' + name, 'fn': 'Atm_' + name, 'after': r'^\{$', 'emit': emit, 'count': 1} for name, _, emit in FUNCS if emit]
    prof.hooks = hooks
    b = Builder('C18', work, prof)
    src = os.path.join(REPO, SRC)
    specs, texts, sigs, conts_all, order, closure_defines = {}, {}, {}, [], [], []

    # ---- the round of authenticate carries K along in its closures.  The specifications name the member `keyIds`; any OTHER
    # closure member of a container type that the code carries along the authenticate chain (e.g. a hoisted keyIds.values())
    # gets a generated clause pair: where a continuation is registered with it, the member must hold exactly K's key ids /
    # owners / pairs (ensures of the registering function); the continuation may rely on that (requires).  A list that is
    # NOT K's (e.g. "the keys whose level was modified") fails the ensures where it is put into the closure.
    CARRIED = {'KeyList': ('KS_VALUES_ARE({x}, G_auth.keys)', 'key_id_list'), 'OwnerList': ('KS_OWNERS_ARE({x}, G_auth.keys)', 'owner_list'),
               'KeySet': ('(KS_EQ({x}, G_auth.keys) && KS_WF({x}))', 'key_set')}

    def carried(cont):
        if not cont.name.startswith('Atm_authenticate_'):
            return []
        known = set(EXPECTED_CLOSURE.get(cont.name, ['promise'])) | {'keyIds'}
        return [c for c in cont.captures if c['name'] not in known and c['ctype'] in CARRIED]

    def lower(tgt, cname, specfile, label, cont=None):
        from vlib import unit as unitmod
        raw = b.lower(tgt, None, keep_markers=True)
        lw = b.last
        sp = b.spec(specfile)
        extra_req, extra_ens = [], []
        for c in (carried(cont) if cont else []):
            extra_req.append('__CPROVER_requires(%s)' % CARRIED[c['ctype']][0].format(x='(*%s)' % c['name']))
        for child in lw.conts:
            for c in carried(child):
                sp.labels.append('post.the_%s_%s_put_into_the_closure_of_the_next_continuation_is_exactly_that_of_the_keys_handed_to_authenticate' % (CARRIED[c['ctype']][1], c['name']))
                extra_ens.append('__CPROVER_ensures(R_%s.reg == __CPROVER_old(R_%s.reg) || %s)' % (child.name, child.name, CARRIED[c['ctype']][0].format(x='R_%s.%s' % (child.name, c['name']))))
        if extra_req or extra_ens:
            lines = sp.contract.split('\n')
            k = next(i for i, l_ in enumerate(lines) if l_.startswith('__CPROVER_assigns'))
            sp.contract = '\n'.join(lines[:k] + extra_req + lines[k:] + extra_ens)
        try:
            text = cxx2c.apply_splices(raw, sp.contract, sp.loops)
        except cxx2c.LoopMismatch as lm:
            unitmod.LOOP_MISMATCH[cname] = str(lm)
            text = cxx2c.apply_splices(raw, sp.contract, {})
        text = re.sub(r'/\*@(CONTRACT|LOOP\d+)@\*/\n?', '', text)
        specs[cname] = sp
        texts[cname] = text
        b.functions[-1]['function'] = label
        sigs[cname] = lw.signature
        order.append(cname)
        return lw

    def lower_conts(parent_lw, parent_label, root):
        for cont in parent_lw.conts:
            got = [c['name'] for c in cont.captures]
            closure_defines.extend('HAS_%s_%s' % (cont.name, g) for g in got)
            closure_defines.extend('OWN_%s_%s' % (cont.name, c.get('name')) for c in cont.op['inner'] if c.get('kind') == 'ParmVarDecl' and c.get('name'))
            want = EXPECTED_CLOSURE.get(cont.name, ['promise'])
            if cont.name in REPAIRED_CLOSURE and sorted(got) == sorted(REPAIRED_CLOSURE[cont.name]):
                closure_defines.append('CLOSURE_HAS_SENDER_KEYS')
            elif not set(want) <= set(got):
                # the specifications name these closure members; additional members are fine (the contracts do not speak about them)
                raise cxx2c.Unsupported('the closure of %s (lambda at line %s) now holds %s, the unit was written for %s (restructured code)' % (cont.name, cont.pos.split(':')[0], got, want))
            t = Target(SRC, A, 'operator()', cont.name, this=cont.this_type, extra_params=cont.extra_params(),
                       lowerer_cls=functools.partial(L.C18Lowerer, captures=cont.captures, is_cont=True))
            t.decl = cont.op
            label = '%s::<continuation %s, lambda at line %s>' % (parent_label.split('::<')[0], cont.name[len(root) + 1:], cont.pos.split(':')[0])
            conts_all.append(cont)
            lw = lower(t, cont.name, cont.name[len('Atm_'):] + '.spec', label, cont=cont)
            lower_conts(lw, label, root)

    for name, nparams, _ in FUNCS:
        cname = 'Atm_' + name
        t = Target(SRC, A + '::' + name, name, cname, this=A, nparams=nparams, lowerer_cls=L.C18Lowerer)
        lw = lower(t, cname, name + '.spec', A + '::' + name)
        before = len(conts_all)
        lower_conts(lw, A + '::' + name, cname)
        tree = [c.name[len(cname) + 1:] for c in conts_all[before:]]
        if tree != EXPECTED_TREE[cname]:
            raise cxx2c.Unsupported('%s: the continuation lambdas are now %s, the unit was written for %s (restructured code)' % (name, tree, EXPECTED_TREE[cname]))

    # enum constants the specifications name
    b.need_enums.setdefault((src, ()), {}).setdefault('QXmpp::TrustLevel', set()).update(
        {'Authenticated', 'ManuallyDistrusted', 'AutomaticallyTrusted', 'AutomaticallyDistrusted', 'Undecided'})
    b.need_enums.setdefault((src, ()), {}).setdefault('QXmpp::TrustSecurityPolicy', set()).update({'Toakafa', 'NoSecurityPolicy'})
    ctxt = b.context()
    regs = ''.join(c.registration_c(A) for c in conts_all)
    own = b.subst(rd('model.h')) + b.subst(rd('storage.h')) + b.subst(rd('calls.h'))
    lem = b.subst(rd('lemma.h'))
    lemma_names = re.findall(r'^void (lemma_\w+)\(void\)', lem, re.M)
    head = '#include "opaque.h"\n' + prof.literal_ids.table() + ctxt + '\n' + own + regs
    havoc = ' '.join('%s = nondet_%s();' % (g, 'bool' if g.startswith('gh_named') else 'int') for g in GHOST_SCALARS) + ' ' + \
        ' '.join('__CPROVER_havoc_object(&%s);' % g for g in GHOST_RECORDS + ['R_' + c.name for c in conts_all])
    atm = [c for c in order]
    proofs, alltext = [], [head]

    def add(cname, kind, expect_loops=0, note='', timeout=600, pid=None, defines=(), finding=None):
        body = texts[cname][texts[cname].index('\n{'):]
        called = [r for r in STORAGE_OPS + atm if r != cname and re.search(r'\b%s\(' % re.escape(r), body)]
        protos = ''.join(b.prototype(texts[r]) for r in called if r in texts)
        c = head + protos + texts[cname] + '\n' + harness(cname, sigs[cname], havoc)
        f = b.write(cname + '.c', c)
        p = Proof(pid or cname, f, 'h_' + cname, enforce=cname, replace=called, kind=kind, include_dirs=[QT], timeout=timeout,
                  loop_contracts=(kind == 'contract'), expect_loops=expect_loops, note=note, defines=list(defines) + closure_defines)
        if finding:
            p.finding = finding
        sp = specs[cname]
        # CBMC numbers the invariant-step obligations of the nested loops inner loops first (each inner loop twice: once inside
        # the outer loop's step), then the outer loop
        inner = ['trusted_keys_loop.' + l for l in sp.inv_labels.get(1, [])] + ['distrusted_keys_loop.' + l for l in sp.inv_labels.get(2, [])]
        p.labels = {'post': {cname: sp.labels}, 'inv': {cname: inner + inner + sp.inv_labels.get(0, [])}}
        p.expect_post = len(sp.labels)
        proofs.append(p)
        alltext.append(texts[cname])

    for cname in order:
        if cname == 'Atm_handleMessage_k0':
            add(cname, 'contract', expect_loops=1, timeout=1500,
                note='every trust message element: key-owner list and key lists of any length (three loop contracts), every sender, every trust level of the sender key; stated for one arbitrary (owner, key)')
        elif cname == 'Atm_makePostponedTrustDecisions_k0':
            add(cname, 'complete', defines=['FINDING_EXCLUDED'], note='loop-free; the input class of finding C18-F1 excluded by a precondition')
            add(cname, 'complete', pid=cname + '_F1', defines=['FINDING_ONLY'], finding=FINDING,
                note='the same contract restricted to the input class of finding C18-F1')
        else:
            add(cname, 'complete', note='loop-free; trust-manager / storage operations and repository callees replaced by their contracts')

    # ---- lemma harnesses: one level of each continuation chain, contracts only
    chain = [c for c in order]
    protos = ''.join(b.prototype(texts[r]) for r in chain)

    # RUN_<continuation>: the call of a continuation with the closure recorded at its registration, whatever the closure holds
    # (class-typed members through local copies); its own parameters get the answer the lemma harness holds ready (OWN_ARGS)
    run_macros = ''
    for cont in conts_all:
        own = [c for c in cont.op['inner'] if c.get('kind') == 'ParmVarDecl']
        for c in own:
            if c.get('name') not in OWN_ARGS:
                raise cxx2c.Unsupported('continuation %s has the parameter %s, for which the lemma harnesses have no answer (restructured code)' % (cont.name, c.get('name')))
        args = (['self'] if cont.captures_this else []) + [OWN_ARGS[c['name']] for c in own] + \
            [('&c_%s' % c['name'] if c['is_class'] else 'R_%s.%s' % (cont.name, c['name'])) for c in cont.captures]
        run_macros += '#define RUN_%s { %s %s(%s); }\n' % (cont.name, ' '.join('%s c_%s = R_%s.%s;' % (c['ctype'], c['name'], cont.name, c['name']) for c in cont.captures if c['is_class']),
                                                         cont.name, ', '.join(args))

    def lemma(pid, entry, defines=(), finding=None, note=''):
        c = head + protos + '#define HAVOC_ALL ' + havoc + '\n' + run_macros + lem
        f = b.write('lemma.c', c)
        m = re.search(r'^void %s\(void\)\n\{.*?^\}' % entry, lem, re.M | re.S)
        if not m:
            raise cxx2c.Unsupported('lemma harness %s not found' % entry)
        called = [r for r in chain if re.search(r'\b%s\(' % re.escape(r), re.sub(r'\bRUN_(\w+)', r'\1(', m.group(0)))]
        p = Proof(pid, f, entry, enforce=None, replace=called, kind='complete', include_dirs=[QT], timeout=600, loop_contracts=False,
                  defines=list(defines) + closure_defines, note=note)
        p.labels = {}
        p.expect_post = 1
        if finding:
            p.finding = finding
        proofs.append(p)

    lemma('lemma_handleMessage', 'lemma_handleMessage', note='handleMessage, then its continuations with the recorded closures: what reaches makeTrustDecisions / the postponed store')
    lemma('lemma_makeTrustDecisions', 'lemma_makeTrustDecisions', note='authenticate first, distrust second, promise finished last')
    lemma('lemma_authenticate', 'lemma_authenticate', note='set Authenticated, TOAKAFA demotion only under that policy, then the postponed decisions of the authenticated keys as sender keys')
    lemma('lemma_distrust', 'lemma_distrust', note='set ManuallyDistrusted, postponed decisions of these sender keys removed, nothing applied')
    lemma('lemma_makePostponedTrustDecisions', 'lemma_makePostponedTrustDecisions', defines=['FINDING_EXCLUDED'],
          note='postponed decisions of the listed sender keys are removed and handed to makeTrustDecisions; decisions of other sender keys stay (input class of finding C18-F1 excluded)')
    alltext.append(rd('lemma.h'))

    # ---- storage side: two of the assumed storage contracts are verified on the real memory storages (bounded stand-in)
    sproofs, sfunctions, sfired, sdropped, _ = MS.build(work, L, tier)
    proofs.extend(sproofs)
    for k, v in sfired.items():
        b.fired[k] = b.fired.get(k, 0) + v
    b.dropped.extend(sdropped)
    b.functions.extend(sfunctions)

    return {
        'proofs': proofs, 'functions': b.functions, 'dropped': b.dropped, 'fired': b.fired,
        'hooks': [h['id'] + ' (' + h['fn'] + ', at function entry): ' + h['emit'] for h in hooks],
        'assumed': ASSUMED,
        'assumes': scan_assumes(rd('model.h') + rd('storage.h') + rd('calls.h') + rd('lemma.h') + rd('memstore.h') + open(os.path.join(QT, 'opaque.h')).read()),
        'not_covered': NOT_COVERED,
    }


ASSUMED = [
    'opaque strings and key ids: equality only (QString JIDs / namespaces, QByteArray key ids); jidToBareJid is an uninterpreted function with bare("") = "" and bare(bare(x)) = bare(x) (qtmodel/opaque.h)',
    'the received message is a value: trustMessageElement(), from(), e2eeMetadata(), senderKey(), usage(), encryption(), keyOwners(), jid(), trustedKeys(), distrustedKeys() are pure getters (functions of the value); the parsers that produce it are not verified here',
    'client()->configuration().jid() / jidBare() are pure getters and jidBare() is the bare part of jid()',
    'witness views of QMultiHash<QString,QByteArray>, QList<QByteArray>, QList<QString>, QList<QXmppTrustMessageKeyOwner>, QHash<bool,QMultiHash> (units/C18/model.h): insert / append / values / uniqueKeys / value / isEmpty act on the witness (owner, key, sender key) as the Qt containers do',
    'NAMED_T / NAMED_D ("the message names key g_k of owner g_o as trusted / distrusted") are defined by quantification over the abstract message; their introduction is instantiated where an element is read, their elimination names Skolem indices (definitional, units/C18/model.h)',
    'ASSUMED contracts of QXmppTrustManager::trustLevel / setTrustLevel (both overloads) / securityPolicy and of QXmppAtmTrustStorage::addKeysForPostponedTrustDecisions / removeKeysForPostponedTrustDecisions (by sender keys; by key ids) / keysForPostponedTrustDecisions over the abstract view trust[(encryption, owner, key)], postponed[(encryption, sender key, owner, key)] (units/C18/storage.h); QXmppTrustMemoryStorage / QXmppAtmTrustMemoryStorage are not verified against them',
    'the same operations called on the storage itself (QXmppTrustStorage::setTrustLevel / trustLevel) have the same effect; the answer of setTrustLevel is the set of keys whose level was really modified, possibly empty (STL_ANSWER); keysForPostponedTrustDecisions with an EMPTY sender-key list answers the decisions of ALL sender keys (documented in QXmppAtmTrustStorage.cpp, implemented so by QXmppAtmTrustMemoryStorage)',
    'A-QMULTIHASH (units/C18/memstore.h, storage stand-ins only): a multi hash iterates as a sequence in which items with equal keys are adjacent; find / end / ++ / key / value / insert / equal_range act on that sequence; std::find_if(first, last, pred) is the loop it stands for; setTrustLevel(owners, old, new) is only used with old != Undecided (a key that is not stored reads as Undecided but is not created by it)',
    'trustLevelsChanged is a synchronous notification with no effect on the manager or the storage',
    'a continuation of authenticate / makePostponedTrustDecisions runs in the round whose call record (G_auth / G_mp) was written when the function was entered (no other round of the same function in between)',
    'trustStorage() returns the ATM trust storage the manager was constructed with (non-null)',
    'task.then(context, lambda) stores a copy of the closure and runs nothing at that point; the continuation runs later, at most once, with the result of that task, in the state the operation left (QXmppTask / QXmppPromise: property C13); promise.finish() / promise.task() / makeReadyTask() are ids and an event log',
    'the lemma harnesses assume: well-formed witness views of their nondeterministic inputs (KS_WF / KL_WF), the abstract postponed entry is one of none / authenticate / distrust (PP_OK), the definitional binding of NAMED_T / NAMED_D to the element of the message, and for makePostponedTrustDecisions the exclusion of the input class of finding C18-F1',
    'the value delivered to a continuation is the answer of the operation it was registered on: the trust level of (encryption, sender account, sender key) for trustLevel(); GET_ANSWER (units/C18/storage.h) for keysForPostponedTrustDecisions()',
]
NOT_COVERED = [
    'the storage implementations QXmppTrustMemoryStorage / QXmppAtmTrustMemoryStorage and QXmppTrustManager\'s wrappers (assumed contracts), EXCEPT QXmppAtmTrustMemoryStorage::addKeysForPostponedTrustDecisions and QXmppTrustMemoryStorage::setTrustLevel(owners form), which are checked against the assumed effect clauses by a BOUNDED stand-in only (<= 3 stored entries, <= 1 key owner in the quick tier / 2 in the thorough tier, <= 1 key per list; not counted as proved)',
    'the recursion authenticate -> makePostponedTrustDecisions -> makeTrustDecisions -> authenticate as a terminating whole (each level is verified against the contract of the next; no variant is proved)',
    'the history statement: sequences of trust messages and manual decisions checked against an XEP-0450 reference model after every step (only the per-function mechanisms and one level of each continuation chain are decided)',
    'the manual overload makeTrustDecisions(encryption, keyOwnerJid, keyIdsForAuthentication, keyIdsForDistrusting) and sendTrustMessage (which trust messages are sent to whom)',
    'that a continuation really runs after its task finished and is not interleaved with other events (event loop; QXmppTask is property C13)',
    'that the end-to-end encryption of the carrying message is the one named by the element\'s encryption attribute (the code does not compare them; the property statement does not ask for it)',
    'TrustMessageElement / KeyOwner parsing (src/base/QXmppTrustMessages.cpp)',
]


# ---------------------------------------------------------------------------------------------------- native replay
# A failed obligation is a VIOLATION whatever happens here; this only tries to attach a concrete input that shows the failure
# on the REAL library built from the working tree: replay_trust_messages.cpp hands 150 concrete trust messages (senders in and
# out of scope, every trust level of the sender key, with / without ATM element, sender key authenticated or distrusted
# later) to handleMessage and compares trust levels and postponed decisions with what the property statement prescribes.
_native_cache = {}


def _run_native(driver, arg):
    from vlib import native
    key = (driver, str(arg))
    if key not in _native_cache:
        _native_cache[key] = native.run_driver(os.path.join(HERE, driver), args=[str(arg)], timeout=300)
    return _native_cache[key]


def find_input(unit, p, o, lab, work):
    if p.id.startswith('Mem_'):
        rc, out = _run_native('replay_memory_storage.cpp', 'all')
        m = re.search(r'VIOLATED scenario=(\d+)[^\n]*', out)
        if rc == 1 and m:
            return {'inputs': {'driver': 'replay_memory_storage.cpp', 'arg': 'all', 'what': m.group(0)}, 'reproduced': True, 'native_output': out[-3000:]}
        return None
    if getattr(p, 'finding', None):
        rc, out = _run_native('replay_postponed_discarded_early.cpp', 'all')
        if rc == 1 and 'VIOLATED' in out:
            return {'inputs': {'driver': 'replay_postponed_discarded_early.cpp', 'arg': 'all', 'what': re.search(r'VIOLATED[^\n]*', out).group(0)}, 'reproduced': True, 'native_output': out[-3000:]}
    rc, out = _run_native('replay_trust_messages.cpp', 'all')
    m = re.search(r'VIOLATED scenario=(\d+)[^\n]*', out)
    if rc == 1 and m:
        return {'inputs': {'driver': 'replay_trust_messages.cpp', 'arg': int(m.group(1)), 'what': m.group(0)}, 'reproduced': True, 'native_output': out[-3000:]}
    return None


def native_replay(rp):
    inp = rp['inputs']
    rc, out = _run_native(inp['driver'], inp['arg'])
    return rc == 1 and 'VIOLATED' in out, out
