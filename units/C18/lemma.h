/* units/C18/lemma.h -- composition lemmas.  Only CONTRACTS are used here: every Atm_* call below is replaced by the contract
 * that the real function / continuation lambda was verified against (goto-instrument --replace-call-with-contract).
 *
 * Each lemma follows ONE level of a continuation chain: the function runs, the operation it registered a continuation on
 * finishes, the continuation runs with the closure that was recorded at registration (R_<name>), and so on to the lambda
 * that finishes the promise.  What is ASSUMED by this composition (QXmppTask, property C13; event loop): a continuation
 * runs after the task it was registered on, with the recorded closure, in the state the previous step left.  A nested
 * repository call (makeTrustDecisions inside a chain, authenticate inside makeTrustDecisions, ...) enters with the
 * immediate part of its contract and its call record; its own chain is the subject of its own lemma.  The recursion
 * authenticate -> makePostponedTrustDecisions -> makeTrustDecisions -> authenticate is therefore cut at every level and is
 * not proved to terminate. */
#define FRESH_MANAGER QXmppAtmManager m; QXmppAtmManager *self = &m;
#define FINISHED_ONCE_WITH(fin0, t) (G_fin.calls == (fin0) + 1 && PROMISE_TASK(G_fin.promise) == (t))

/* ---- distrust(K): ManuallyDistrusted, postponed decisions of sender keys in K removed, nothing applied ------------------ */
void lemma_distrust(void)
{
  HAVOC_ALL
  FRESH_MANAGER
  qstr enc = nondet_int(); KeySet K; __CPROVER_assume(KS_WF(K));
  int tl0 = tl, pp0 = pp;
  unsigned fin0 = G_fin.calls, mtd0 = G_mtd.calls, get0 = G_get.calls, auth0 = G_auth.calls, stlo0 = G_stlo.calls, rmk0 = G_rmk.calls, add0 = G_add.calls;
  qtask t = Atm_distrust(self, enc, &K);
  if (K.nonempty) {
    RUN_Atm_distrust_k0
    RUN_Atm_distrust_k0_0
    __CPROVER_assert(FINISHED_ONCE_WITH(fin0, t), "[lemma.distrust_finishes_its_task_once_at_the_end] promise finished exactly once, by the last continuation");
  } else {
    __CPROVER_assert(t == TASK_READY && G_fin.calls == fin0, "[lemma.distrust_of_no_keys_is_a_ready_task] nothing to do");
  }
  __CPROVER_assert(tl == ((enc == g_e && K.has_pair) ? MANUALLY_DISTRUSTED : tl0), "[lemma.distrust_sets_exactly_the_named_keys_to_manually_distrusted] trust level of the witness key");
  __CPROVER_assert(pp == ((enc == g_e && K.has_kid_s) ? PP_NONE : pp0), "[lemma.distrust_discards_exactly_the_postponed_decisions_sent_with_the_distrusted_keys] postponed entry of the witness sender key");
  __CPROVER_assert(G_mtd.calls == mtd0 && G_auth.calls == auth0 && G_get.calls == get0 && G_stlo.calls == stlo0 && G_rmk.calls == rmk0 && G_add.calls == add0,
                   "[lemma.distrust_applies_none_of_the_discarded_decisions] no postponed decision is looked up or handed to makeTrustDecisions / authenticate");
}

/* ---- makeTrustDecisions(KA, KD): authenticate(KA) first, distrust(KD) behind it, promise last ------------------------------- */
void lemma_makeTrustDecisions(void)
{
  HAVOC_ALL
  FRESH_MANAGER
  qstr enc = nondet_int(); KeySet KA, KD; __CPROVER_assume(KS_WF(KA) && KS_WF(KD));
  int tl0 = tl;
  unsigned fin0 = G_fin.calls, auth0 = G_auth.calls, dis0 = G_dis.calls;
  qtask t = Atm_makeTrustDecisions(self, enc, &KA, &KD);
  __CPROVER_assert(G_auth.calls == auth0 + 1 && G_dis.calls == dis0, "[lemma.authenticate_before_distrust] distrust has not started when authenticate is called");
  int tl1 = tl;
  RUN_Atm_makeTrustDecisions_k0
  RUN_Atm_makeTrustDecisions_k0_0
  __CPROVER_assert(G_auth.calls == auth0 + 1 && G_auth.enc == enc && KS_EQ(G_auth.keys, KA) && G_dis.calls == dis0 + 1 && G_dis.enc == enc && KS_EQ(G_dis.keys, KD),
                   "[lemma.keys_for_authentication_go_to_authenticate_and_keys_for_distrusting_to_distrust] once each, unchanged");
  __CPROVER_assert(tl1 == ((enc == g_e && KA.has_pair) ? AUTHENTICATED : tl0) && tl == ((enc == g_e && KD.has_pair) ? MANUALLY_DISTRUSTED : tl1),
                   "[lemma.a_key_named_both_ways_ends_distrusted_and_no_unnamed_key_moves] trust level of the witness key after both steps");
  __CPROVER_assert(FINISHED_ONCE_WITH(fin0, t), "[lemma.makeTrustDecisions_finishes_its_task_once_at_the_end] promise finished exactly once, by the last continuation");
}

/* ---- authenticate(K): Authenticated, then (TOAKAFA only) demotion, then the postponed decisions of K's key ids as sender keys */
void lemma_authenticate(void)
{
  HAVOC_ALL
  FRESH_MANAGER
  qstr enc = nondet_int(); KeySet K; __CPROVER_assume(KS_WF(K));
  int policy = nondet_int();      /* the answer of securityPolicy(enc) */
  int tl0 = tl, pp0 = pp;
  /* the answer of the storage-level setTrustLevel (the keys whose level was really modified); only a variant of authenticate
     that calls the storage itself looks at it */
  ModifiedKeys M; __CPROVER_assume(STL_ANSWER(M, enc, K, tl0, AUTHENTICATED));
  unsigned fin0 = G_fin.calls, mp0 = G_mp.calls, datk0 = G_datk.calls, get0 = G_get.calls, pol0 = G_pol.calls;
  qtask t = Atm_authenticate(self, enc, &K);
  if (!K.nonempty) {
    __CPROVER_assert(t == TASK_READY && tl == tl0 && pp == pp0 && G_mp.calls == mp0 && G_get.calls == get0 && G_fin.calls == fin0,
                     "[lemma.authenticate_of_no_keys_touches_nothing] in particular keysForPostponedTrustDecisions is not asked with an empty sender list (which would answer ALL postponed decisions)");
    return;
  }
  int tl1 = tl;
  __CPROVER_assert(tl1 == ((enc == g_e && K.has_pair) ? AUTHENTICATED : tl0), "[lemma.authenticate_sets_exactly_the_named_keys_to_authenticated] first step");
  RUN_Atm_authenticate_k0
  __CPROVER_assert(G_pol.calls == pol0 + 1 && G_pol.enc == enc, "[lemma.policy_of_the_same_encryption] securityPolicy(enc) asked once");
  RUN_Atm_authenticate_k0_0
  if (policy == TOAKAFA) {
    __CPROVER_assert(G_mp.calls == mp0, "[lemma.toakafa_demotion_precedes_the_postponed_decisions] makePostponedTrustDecisions not yet called");
    RUN_Atm_authenticate_k0_0_0
  }
  __CPROVER_assert(G_datk.calls == datk0 + (policy == TOAKAFA ? 1u : 0u) && (policy != TOAKAFA || (G_datk.enc == enc && KS_OWNERS_ARE(G_datk.owners, K))),
                   "[lemma.automatically_trusted_keys_are_demoted_under_toakafa_only_and_for_the_owners_being_authenticated] distrustAutomaticallyTrustedKeys");
  __CPROVER_assert(tl == ((policy == TOAKAFA && enc == g_e && K.has_owner && tl1 == AUTOMATICALLY_TRUSTED) ? AUTOMATICALLY_DISTRUSTED : tl1),
                   "[lemma.no_other_trust_level_moves] trust level of the witness key after authentication and demotion");
  __CPROVER_assert(G_mp.calls == mp0 + 1 && G_mp.enc == enc && KS_VALUES_ARE(G_mp.senders, K) && G_mp.senders.nonempty,
                   "[lemma.the_postponed_decisions_that_fire_are_those_whose_sender_key_is_in_K_exactly_K_never_all_senders] makePostponedTrustDecisions(enc, K.values()); never an empty list, which the storage answers with the decisions of ALL sender keys");
  __CPROVER_assert(pp == pp0, "[lemma.postponed_store_is_touched_only_by_makePostponedTrustDecisions] postponed entry of the witness unchanged so far");
  if (policy == TOAKAFA)
    RUN_Atm_authenticate_k0_0_0_0
  else
    RUN_Atm_authenticate_k0_0_1
  __CPROVER_assert(FINISHED_ONCE_WITH(fin0, t), "[lemma.authenticate_finishes_its_task_once_at_the_end] promise finished exactly once, by the last continuation");
}

/* ---- makePostponedTrustDecisions(S): the postponed decisions of the sender keys in S are applied and removed ------------------
 * (outside the input class of finding C18-F1, which is reported at the continuation that removes the decisions) */
void lemma_makePostponedTrustDecisions(void)
{
  HAVOC_ALL
  FRESH_MANAGER
  qstr enc = nondet_int(); KeyList S; S.kind = 0; S.ko = 0; S.n = 0; __CPROVER_assume(KL_WF(S));
  __CPROVER_assume(PP_OK);
  int tl0 = tl, pp0 = pp;
  unsigned fin0 = G_fin.calls, mtd0 = G_mtd.calls, get0 = G_get.calls;
  qtask t = Atm_makePostponedTrustDecisions(self, enc, &S);
  __CPROVER_assert(G_get.calls == get0 + 1 && G_get.enc == enc && KL_EQ(G_get.senders, S) && pp == pp0, "[lemma.postponed_decisions_of_exactly_these_sender_keys_are_asked_for] query");
  /* the answer of the storage arrives */
  PostponedResult R; __CPROVER_assume(GET_ANSWER(R, enc, G_mp.senders, pp0));
#define LISTED (enc == g_e && (S.has_s || !S.nonempty))     /* the witness sender key is among the sender keys asked for (an empty list asks for all) */
  __CPROVER_assume(!MP_F1(R, enc, pp0));
  RUN_Atm_makePostponedTrustDecisions_k0
  RUN_Atm_makePostponedTrustDecisions_k0_0
  RUN_Atm_makePostponedTrustDecisions_k0_0_0
  __CPROVER_assert(G_mtd.calls == mtd0 + 1 && G_mtd.enc == enc && KS_EQ(G_mtd.KA, R.t) && KS_EQ(G_mtd.KD, R.f),
                   "[lemma.the_answered_decisions_are_handed_to_makeTrustDecisions_unchanged] authentications as keys for authentication, distrustings as keys for distrusting");
  __CPROVER_assert((!(LISTED && pp0 == PP_T) || G_mtd.KA.has_pair) && (!(LISTED && pp0 == PP_F) || G_mtd.KD.has_pair),
                   "[lemma.a_postponed_decision_takes_effect_when_its_sender_key_is_among_those_asked_for] applied");
  __CPROVER_assert(!LISTED || pp == PP_NONE, "[lemma.and_it_is_removed_from_the_postponed_store] removed");
  __CPROVER_assert(tl == ((enc == g_e && R.t.has_pair) ? AUTHENTICATED : tl0), "[lemma.trust_moves_only_through_makeTrustDecisions] trust level of the witness key");
  __CPROVER_assert(LISTED || pp == pp0, "[lemma.postponed_decisions_of_other_sender_keys_stay_until_their_own_sender_key_is_decided] a decision whose sender key was not asked for is neither applied nor discarded");
  __CPROVER_assert(FINISHED_ONCE_WITH(fin0, t), "[lemma.makePostponedTrustDecisions_finishes_its_task_once_at_the_end] promise finished exactly once, by the last continuation");
}

/* ---- handleMessage(m): what reaches makeTrustDecisions and the postponed store ------------------------------------------------------ */
void lemma_handleMessage(void)
{
  HAVOC_ALL
  FRESH_MANAGER
  qmsg msg = nondet_int();
  __CPROVER_assume(gh_own_bare == BARE(gh_own_jid));
  /* the specification predicates speak about the element of this message (definitions, see model.h) */
  __CPROVER_assume(gh_tme == MSG_TME(msg) && NAMED_T_WITNESS && NAMED_D_WITNESS);
  int tl0 = tl, pp0 = pp;
  unsigned fin0 = G_fin.calls, tlq0 = G_tlq.calls, add0 = G_add.calls, mtd0 = G_mtd.calls, stl0 = G_stl.calls, stlo0 = G_stlo.calls, rms0 = G_rms.calls,
           rmk0 = G_rmk.calls, get0 = G_get.calls, auth0 = G_auth.calls, dis0 = G_dis.calls;
  qtask t = Atm_handleMessage(self, msg);
  if (!HM_ACCEPT(msg)) {
    __CPROVER_assert(tl == tl0 && pp == pp0 && G_tlq.calls == tlq0 && G_add.calls == add0 && G_mtd.calls == mtd0 && G_stl.calls == stl0 && G_stlo.calls == stlo0 &&
                     G_rms.calls == rms0 && G_rmk.calls == rmk0 && G_get.calls == get0 && G_auth.calls == auth0 && G_dis.calls == dis0,
                     "[lemma.message_without_atm_element_or_from_this_very_endpoint_does_nothing] no trust level, no postponed decision, no storage operation");
    __CPROVER_assert(FINISHED_ONCE_WITH(fin0, t), "[lemma.ignored_message_finishes_at_once] returned task finished");
    return;
  }
  qstr sender = BARE(MSG_FROM(msg));
  __CPROVER_assert(G_tlq.calls == tlq0 + 1 && G_tlq.enc == TME_ENC(MSG_TME(msg)) && G_tlq.owner == sender && G_tlq.key == MSG_SENDER_KEY(msg),
                   "[lemma.the_senders_own_key_is_looked_up] trustLevel(encryption of the element, bare JID of the sender, sender key of the e2ee metadata)");
  /* the trust level of the sender's key arrives */
  int stl = nondet_int();
  __CPROVER_assume(gh_sender_tl == stl);
  /* (a variant of handleMessage that asks hasKey instead: the yes/no answer about the sender's ACCOUNT) */
  bool hk = nondet_bool(); __CPROVER_assume(HASKEY_ANSWER(hk, R_Atm_handleMessage_k0.encryption, R_Atm_handleMessage_k0.senderJid, stl));
  RUN_Atm_handleMessage_k0
  int pp1 = pp;
  RUN_Atm_handleMessage_k0_0
  RUN_Atm_handleMessage_k0_0_0
#define MOVES (stl == AUTHENTICATED && (sender == gh_own_bare || sender == g_o))
#define HOLDS (stl != AUTHENTICATED && (sender == gh_own_bare || sender == g_o))
  __CPROVER_assert(G_mtd.calls == mtd0 + 1 && G_mtd.enc == TME_ENC(MSG_TME(msg)), "[lemma.one_round_of_trust_decisions_under_the_encryption_of_the_element] makeTrustDecisions called once");
  __CPROVER_assert(IFF(G_mtd.KA.has_pair, MOVES && NAMED_T) && IFF(G_mtd.KD.has_pair, MOVES && NAMED_D),
                   "[lemma.a_trust_message_moves_a_key_iff_the_senders_key_is_authenticated_and_the_key_is_in_the_senders_scope_and_named] keys handed to makeTrustDecisions");
  __CPROVER_assert((!(G_mtd.KA.has_owner || G_mtd.KD.has_owner) || MOVES) && (stl == AUTHENTICATED || (!G_mtd.KA.nonempty && !G_mtd.KD.nonempty)),
                   "[lemma.no_key_of_an_owner_outside_the_senders_scope_and_no_key_at_all_without_an_authenticated_sender_key] owners among the keys handed to makeTrustDecisions");
  __CPROVER_assert(tl == ((G_mtd.enc == g_e && MOVES && NAMED_T) ? AUTHENTICATED : tl0),
                   "[lemma.stored_trust_level_changes_only_for_an_authenticated_in_scope_sender] trust level of the witness key after the immediate part of makeTrustDecisions");
  __CPROVER_assert(pp == pp1 && (pp1 == pp0 || (HOLDS && (NAMED_T || NAMED_D) && TME_ENC(MSG_TME(msg)) == g_e && MSG_SENDER_KEY(msg) == g_s)),
                   "[lemma.a_decision_is_held_back_only_for_an_in_scope_sender_whose_key_is_not_authenticated] postponed entry of the witness");
  __CPROVER_assert(!(HOLDS && TME_ENC(MSG_TME(msg)) == g_e && MSG_SENDER_KEY(msg) == g_s) || ((!(NAMED_T && !NAMED_D) || pp == PP_T) && (!(NAMED_D && !NAMED_T) || pp == PP_F)),
                   "[lemma.and_then_it_is_held_back_under_the_senders_key] stored as named");
  __CPROVER_assert(FINISHED_ONCE_WITH(fin0, t), "[lemma.handleMessage_finishes_its_task_once_at_the_end] promise finished exactly once, by the last continuation");
}
