// units/C18/replay_memory_storage.cpp -- native check of the two memory-storage operations whose contracts the C18 manager proofs
// rely on, on the REAL library: the statements of units/C18/mem_addKeys.spec and mem_setTrustLevel_owners.spec on concrete inputs.
//   A  QXmppAtmTrustMemoryStorage::addKeysForPostponedTrustDecisions: a postponed decision is stored per (sender key, owner, key id);
//      naming the same key id under another owner neither overwrites nor suppresses the first owner's decision.
//   B  QXmppTrustMemoryStorage::setTrustLevel(enc, owners, old, new): only keys of the listed owners that had the old level change;
//      the modified keys answered are exactly those.
// Exit 1 and "VIOLATED scenario=<n> ..." lines on a mismatch.
#include "QXmppAtmTrustMemoryStorage.h"
#include "QXmppTask.h"
#include "QXmppTrustLevel.h"
#include "QXmppTrustMessageKeyOwner.h"

#include <cstdio>

#include <QCoreApplication>

using namespace QXmpp;

static const QString ENC = QStringLiteral("urn:xmpp:omemo:2");
static int violations = 0;

static void check(int scenario, bool ok, const char *what)
{
    if (!ok) {
        std::printf("VIOLATED scenario=%d %s\n", scenario, what);
        violations++;
    }
}

static QXmppTrustMessageKeyOwner owner(const QString &jid, const QList<QByteArray> &trusted, const QList<QByteArray> &distrusted)
{
    QXmppTrustMessageKeyOwner ko;
    ko.setJid(jid);
    ko.setTrustedKeys(trusted);
    ko.setDistrustedKeys(distrusted);
    return ko;
}

int main(int argc, char **argv)
{
    QCoreApplication app(argc, argv);
    const QString alice = QStringLiteral("alice@example.org"), bob = QStringLiteral("bob@example.com"), carol = QStringLiteral("carol@example.net");
    const QByteArray S("sender-key"), S2("other-sender-key"), K("key-K"), K2("key-K2");
    int scenario = 0;
    // ---- A: order of the two owners, one or two calls
    for (int order = 0; order < 2; order++) {
        for (int calls = 1; calls <= 2; calls++) {
            QXmppAtmTrustMemoryStorage st;
            const auto first = order == 0 ? owner(bob, { K }, {}) : owner(carol, {}, { K });
            const auto second = order == 0 ? owner(carol, {}, { K }) : owner(bob, { K }, {});
            if (calls == 1) {
                st.addKeysForPostponedTrustDecisions(ENC, S, { first, second });
            } else {
                st.addKeysForPostponedTrustDecisions(ENC, S, { first });
                st.addKeysForPostponedTrustDecisions(ENC, S, { second });
            }
            st.addKeysForPostponedTrustDecisions(ENC, S2, { owner(alice, { K2 }, {}) });
            auto r = st.keysForPostponedTrustDecisions(ENC, { S }).result();
            check(scenario, r.value(true).contains(bob, K), "A: (bob, K) named trusted under sender key S is not stored for postponed authentication");
            check(scenario, r.value(false).contains(carol, K), "A: (carol, K) named distrusted under sender key S is not stored for postponed distrusting");
            check(scenario, !r.value(false).contains(bob, K) && !r.value(true).contains(carol, K), "A: a decision is stored with the flag given for another owner");
            check(scenario, r.value(true).size() + r.value(false).size() == 2, "A: sender key S holds something else than its two decisions");
            auto r2 = st.keysForPostponedTrustDecisions(ENC, { S2 }).result();
            check(scenario, r2.value(true).contains(alice, K2) && r2.value(true).size() == 1 && r2.value(false).isEmpty(), "A: the decision of another sender key changed");
            scenario++;
        }
    }
    {   // the same owner flips: the later decision replaces the earlier one
        QXmppAtmTrustMemoryStorage st;
        st.addKeysForPostponedTrustDecisions(ENC, S, { owner(bob, { K }, {}) });
        st.addKeysForPostponedTrustDecisions(ENC, S, { owner(bob, {}, { K }) });
        auto r = st.keysForPostponedTrustDecisions(ENC, { S }).result();
        check(scenario, r.value(false).contains(bob, K) && !r.value(true).contains(bob, K), "A: a later decision about the same (sender key, owner, key id) does not replace the earlier one");
        scenario++;
    }
    // ---- B
    for (int which = 0; which < 3; which++) {
        QXmppTrustMemoryStorage st;
        st.addKeys(ENC, alice, { QByteArray("A1") }, TrustLevel::AutomaticallyTrusted);
        st.addKeys(ENC, bob, { QByteArray("B1") }, TrustLevel::AutomaticallyTrusted);
        st.addKeys(ENC, bob, { QByteArray("B2") }, TrustLevel::Authenticated);
        st.addKeys(ENC, carol, { QByteArray("C1") }, TrustLevel::AutomaticallyTrusted);
        const QList<QString> owners = which == 0 ? QList<QString> { bob } : (which == 1 ? QList<QString> { bob, carol } : QList<QString> {});
        auto modified = st.setTrustLevel(ENC, owners, TrustLevel::AutomaticallyTrusted, TrustLevel::AutomaticallyDistrusted).result();
        auto lvl = [&](const QString &o, const char *k) { return st.trustLevel(ENC, o, QByteArray(k)).result(); };
        const bool bobListed = owners.contains(bob), carolListed = owners.contains(carol);
        check(scenario, lvl(alice, "A1") == TrustLevel::AutomaticallyTrusted, "B: a key of an owner that is NOT listed changed its level");
        check(scenario, lvl(bob, "B1") == (bobListed ? TrustLevel::AutomaticallyDistrusted : TrustLevel::AutomaticallyTrusted), "B: (bob, B1) has the wrong level");
        check(scenario, lvl(bob, "B2") == TrustLevel::Authenticated, "B: a key that did not have the old level changed");
        check(scenario, lvl(carol, "C1") == (carolListed ? TrustLevel::AutomaticallyDistrusted : TrustLevel::AutomaticallyTrusted), "B: (carol, C1) has the wrong level");
        const auto m = modified.value(ENC);
        check(scenario, m.contains(bob, QByteArray("B1")) == bobListed && m.contains(carol, QByteArray("C1")) == carolListed && !m.contains(alice, QByteArray("A1")) && !m.contains(bob, QByteArray("B2")) &&
                  m.size() == int(bobListed) + int(carolListed), "B: the modified keys answered are not exactly the keys that changed");
        scenario++;
    }
    std::printf("%d scenarios run, %d mismatches\n", scenario, violations);
    return violations ? 1 : 0;
}
