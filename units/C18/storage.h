/* units/C18/storage.h -- the abstract view of the trust storage and the ASSUMED contracts of the operations that the ATM
 * manager calls on QXmppTrustManager (thin wrappers around QXmppTrustStorage) and on QXmppAtmTrustStorage.  None of these
 * has a body here; in every proof they are replaced by their contract (goto-instrument --replace-call-with-contract).
 * The storage implementations (QXmppTrustMemoryStorage, QXmppAtmTrustMemoryStorage) are NOT verified against them.
 *
 * Abstract view, for the witnesses (g_e, g_o, g_k, g_s):
 *   tl  = trust level stored for key g_k of owner g_o under encryption g_e             (QXmpp::TrustLevel value)
 *   pp  = postponed decision stored for (sender key g_s, owner g_o, key g_k) under g_e: PP_NONE / PP_T (authenticate) / PP_F (distrust)
 * Every operation also leaves a call record G_<op> (how often, with which arguments, which task it returned). */
int tl;
int pp;
#define PP_NONE 0
#define PP_T 1
#define PP_F 2

/* The effect clauses of the two operations that are also PROVED for the memory storages (units/C18/memstore.py lowers
   QXmppAtmTrustMemoryStorage::addKeysForPostponedTrustDecisions and QXmppTrustMemoryStorage::setTrustLevel(owners, old, new) and
   verifies them against exactly these clauses, with pp / tl read off the stored entries):
   addKeysForPostponedTrustDecisions(enc, sender, list), list names (g_o, g_k) as trusted: has_t, as distrusted: has_f */
#define ADDKEYS_UNTOUCHED(pp_new, pp_old, enc_, sender_, has_t_, has_f_) (((enc_) == g_e && (sender_) == g_s && ((has_t_) || (has_f_))) || (pp_new) == (pp_old))
#define ADDKEYS_TRUSTED(pp_new, pp_old, enc_, sender_, has_t_, has_f_) (!((enc_) == g_e && (sender_) == g_s && (has_t_) && !(has_f_)) || (pp_new) == PP_T)
#define ADDKEYS_DISTRUSTED(pp_new, pp_old, enc_, sender_, has_t_, has_f_) (!((enc_) == g_e && (sender_) == g_s && (has_f_) && !(has_t_)) || (pp_new) == PP_F)
#define ADDKEYS_BOTH(pp_new, pp_old, enc_, sender_, has_t_, has_f_) (!((enc_) == g_e && (sender_) == g_s && (has_f_) && (has_t_)) || (pp_new) == PP_T || (pp_new) == PP_F)
/* setTrustLevel(enc, owners, from, to), owners contains g_o: has_o.  A key that is not stored counts as Undecided for
   trustLevel() but is not created by this operation, hence the precondition from != Undecided */
#define STLO_EFFECT(tl_new, tl_old, enc_, has_o_, from_, to_) ((tl_new) == (((enc_) == g_e && (has_o_) && (tl_old) == (from_)) ? (to_) : (tl_old)))
#define STLO_PRE(from_) ((from_) != QXmpp_TrustLevel__Undecided)

struct { unsigned calls; qtask task; qstr enc; qstr owner; qkey key; } G_tlq;          /* trustLevel(enc, owner, key) */
struct { unsigned calls; qtask task; qstr enc; qstr jid; int levels; } G_hk;             /* hasKey(enc, jid, levels) */
struct { unsigned calls; qtask task; qstr enc; KeySet keys; int level; } G_stl;        /* setTrustLevel(enc, keys, level) */
struct { unsigned calls; qtask task; qstr enc; OwnerList owners; int from, to; } G_stlo; /* setTrustLevel(enc, owners, old, new) */
struct { unsigned calls; qtask task; qstr enc; } G_pol;                                /* securityPolicy(enc) */
struct { unsigned calls; qtask task; qstr enc; qkey sender; KoList list; } G_add;      /* addKeysForPostponedTrustDecisions */
struct { unsigned calls; qtask task; qstr enc; KeyList senders; } G_rms;               /* removeKeysForPostponedTrustDecisions(enc, senderKeyIds) */
struct { unsigned calls; qtask task; qstr enc; KeyList auth, dis; } G_rmk;             /* removeKeysForPostponedTrustDecisions(enc, idsAuth, idsDistrust) */
struct { unsigned calls; qtask task; qstr enc; } G_rma;                                /* removeKeysForPostponedTrustDecisions(enc) */
struct { unsigned calls; qtask task; qstr enc; KeyList senders; } G_get;               /* keysForPostponedTrustDecisions(enc, senderKeyIds) */

/* QXmppTrustManager::trustLevel: a query; the value is delivered to the continuation */
qtask TrustManager_trustLevel(QXmppAtmManager *self, qstr encryption, qstr keyOwnerJid, qkey keyId)
__CPROVER_assigns(G_tlq)
__CPROVER_ensures(G_tlq.calls == __CPROVER_old(G_tlq.calls) + 1 && G_tlq.enc == encryption && G_tlq.owner == keyOwnerJid && G_tlq.key == keyId && __CPROVER_return_value == G_tlq.task)
;
/* QXmppTrustManager::hasKey(encryption, keyOwnerJid, levels): a query about the ACCOUNT -- does it have at least one key whose
   level is among `levels` (a QFlags mask of TrustLevel bits); the yes/no answer is delivered to the continuation (HASKEY_ANSWER) */
qtask TrustManager_hasKey(QXmppAtmManager *self, qstr encryption, qstr keyOwnerJid, int trustLevels)
__CPROVER_assigns(G_hk)
__CPROVER_ensures(G_hk.calls == __CPROVER_old(G_hk.calls) + 1 && G_hk.enc == encryption && G_hk.jid == keyOwnerJid && G_hk.levels == trustLevels && __CPROVER_return_value == G_hk.task)
;
/* what the last hasKey query answers, as far as ONE key of account `jid_` under `e_` with level `level_of_that_key` tells: yes if
   that key's level is among the levels asked for; otherwise yes or no (another key of the account may have such a level).
   The answer is a function of (encryption, account, levels), not of any particular key. */
#define HASKEY_ANSWER(ans, e_, jid_, level_of_that_key) (!(G_hk.enc == (e_) && G_hk.jid == (jid_) && (G_hk.levels & (level_of_that_key)) != 0) || (ans))
/* QXmppTrustManager::setTrustLevel(encryption, keyIds, level): every (owner, key) in keyIds gets `level`, no other key changes */
qtask TrustManager_setTrustLevel_keys(QXmppAtmManager *self, qstr encryption, const KeySet *keyIds, int trustLevel)
__CPROVER_requires(KS_WF(*keyIds))
__CPROVER_assigns(G_stl, tl)
__CPROVER_ensures(tl == ((encryption == g_e && keyIds->has_pair) ? trustLevel : __CPROVER_old(tl)))
__CPROVER_ensures(G_stl.calls == __CPROVER_old(G_stl.calls) + 1 && G_stl.enc == encryption && G_stl.level == trustLevel && KS_EQ(G_stl.keys, *keyIds) && __CPROVER_return_value == G_stl.task)
;
/* QXmppTrustManager::setTrustLevel(encryption, owners, old, new): every key of these owners that has level `old` gets `new` */
qtask TrustManager_setTrustLevel_owners(QXmppAtmManager *self, qstr encryption, const OwnerList *keyOwnerJids, int oldTrustLevel, int newTrustLevel)
__CPROVER_requires(STLO_PRE(oldTrustLevel))
__CPROVER_assigns(G_stlo, tl)
__CPROVER_ensures(STLO_EFFECT(tl, __CPROVER_old(tl), encryption, keyOwnerJids->has_o, oldTrustLevel, newTrustLevel))
__CPROVER_ensures(G_stlo.calls == __CPROVER_old(G_stlo.calls) + 1 && G_stlo.enc == encryption && G_stlo.from == oldTrustLevel && G_stlo.to == newTrustLevel && OL_EQ(G_stlo.owners, *keyOwnerJids) && __CPROVER_return_value == G_stlo.task)
;
/* the same three operations called on the storage itself (QXmppTrustStorage::setTrustLevel / trustLevel); the answer of the
   two setTrustLevel overloads is the set of keys whose level was actually modified (STL_ANSWER) */
qtask Storage_setTrustLevel_keys(QXmppAtmTrustStorage *self, qstr encryption, const KeySet *keyIds, int trustLevel)
__CPROVER_requires(KS_WF(*keyIds))
__CPROVER_assigns(G_stl, tl)
__CPROVER_ensures(tl == ((encryption == g_e && keyIds->has_pair) ? trustLevel : __CPROVER_old(tl)))
__CPROVER_ensures(G_stl.calls == __CPROVER_old(G_stl.calls) + 1 && G_stl.enc == encryption && G_stl.level == trustLevel && KS_EQ(G_stl.keys, *keyIds) && __CPROVER_return_value == G_stl.task)
;
qtask Storage_setTrustLevel_owners(QXmppAtmTrustStorage *self, qstr encryption, const OwnerList *keyOwnerJids, int oldTrustLevel, int newTrustLevel)
__CPROVER_requires(STLO_PRE(oldTrustLevel))
__CPROVER_assigns(G_stlo, tl)
__CPROVER_ensures(STLO_EFFECT(tl, __CPROVER_old(tl), encryption, keyOwnerJids->has_o, oldTrustLevel, newTrustLevel))
__CPROVER_ensures(G_stlo.calls == __CPROVER_old(G_stlo.calls) + 1 && G_stlo.enc == encryption && G_stlo.from == oldTrustLevel && G_stlo.to == newTrustLevel && OL_EQ(G_stlo.owners, *keyOwnerJids) && __CPROVER_return_value == G_stlo.task)
;
qtask Storage_trustLevel(QXmppAtmTrustStorage *self, qstr encryption, qstr keyOwnerJid, qkey keyId)
__CPROVER_assigns(G_tlq)
__CPROVER_ensures(G_tlq.calls == __CPROVER_old(G_tlq.calls) + 1 && G_tlq.enc == encryption && G_tlq.owner == keyOwnerJid && G_tlq.key == keyId && __CPROVER_return_value == G_tlq.task)
;
/* what setTrustLevel(enc, keys, level) answers in a state where the witness key had level tl0: under `enc`, exactly those of
   `keys` whose level was not `level` before (possibly none at all).  Used by the lemma harnesses only. */
#define KS_SUBSET(a, b) ((!(a).has_pair || (b).has_pair) && (!(a).has_owner || (b).has_owner) && (!(a).has_kid_k || (b).has_kid_k) && (!(a).has_kid_s || (b).has_kid_s) && (!(a).nonempty || (b).nonempty))
#define STL_ANSWER(M, encr, keys, tl0, level) ((M).enc == (encr) && KS_WF((M).v) && KS_SUBSET((M).v, keys) && \
   IFF((M).v.has_pair, (encr) == g_e && (keys).has_pair && (tl0) != (level)))
qtask TrustManager_securityPolicy(QXmppAtmManager *self, qstr encryption)
__CPROVER_assigns(G_pol)
__CPROVER_ensures(G_pol.calls == __CPROVER_old(G_pol.calls) + 1 && G_pol.enc == encryption && __CPROVER_return_value == G_pol.task)
;
/* QXmppAtmTrustStorage::addKeysForPostponedTrustDecisions(encryption, senderKeyId, keyOwners): for every key owner in the
   list, its trusted keys are stored for postponed authentication and its distrusted keys for postponed distrusting, under
   the sender key; an existing entry for the same (sender key, owner, key) is overwritten (documented in
   QXmppAtmTrustStorage.cpp); when the list names the key both ways the outcome is left open here. */
qtask Storage_addKeysForPostponedTrustDecisions(QXmppAtmTrustStorage *self, qstr encryption, qkey senderKeyId, const KoList *keyOwners)
__CPROVER_requires(keyOwners->tme == 0)
__CPROVER_assigns(G_add, pp)
__CPROVER_ensures(ADDKEYS_UNTOUCHED(pp, __CPROVER_old(pp), encryption, senderKeyId, keyOwners->has_t, keyOwners->has_f))
__CPROVER_ensures(ADDKEYS_TRUSTED(pp, __CPROVER_old(pp), encryption, senderKeyId, keyOwners->has_t, keyOwners->has_f))
__CPROVER_ensures(ADDKEYS_DISTRUSTED(pp, __CPROVER_old(pp), encryption, senderKeyId, keyOwners->has_t, keyOwners->has_f))
__CPROVER_ensures(ADDKEYS_BOTH(pp, __CPROVER_old(pp), encryption, senderKeyId, keyOwners->has_t, keyOwners->has_f))
__CPROVER_ensures(G_add.calls == __CPROVER_old(G_add.calls) + 1 && G_add.enc == encryption && G_add.sender == senderKeyId && __CPROVER_return_value == G_add.task)
__CPROVER_ensures(G_add.list.tme == 0 && IFF(G_add.list.has_t, keyOwners->has_t) && IFF(G_add.list.has_f, keyOwners->has_f))
;
/* removeKeysForPostponedTrustDecisions(encryption, senderKeyIds): removes every postponed decision of these sender keys */
qtask Storage_removePostponedBySenderKeys(QXmppAtmTrustStorage *self, qstr encryption, const KeyList *senderKeyIds)
__CPROVER_assigns(G_rms, pp)
__CPROVER_ensures(pp == ((encryption == g_e && senderKeyIds->has_s) ? PP_NONE : __CPROVER_old(pp)))
__CPROVER_ensures(G_rms.calls == __CPROVER_old(G_rms.calls) + 1 && G_rms.enc == encryption && KL_EQ(G_rms.senders, *senderKeyIds) && __CPROVER_return_value == G_rms.task)
;
/* removeKeysForPostponedTrustDecisions(encryption, keyIdsForAuthentication, keyIdsForDistrusting): removes every postponed
   authentication of a key id in the first list and every postponed distrusting of a key id in the second -- whatever the
   sender key and the owner of the entry are (that is what the interface documents and the memory storage does) */
qtask Storage_removePostponedByKeyIds(QXmppAtmTrustStorage *self, qstr encryption, const KeyList *keyIdsForAuthentication, const KeyList *keyIdsForDistrusting)
__CPROVER_assigns(G_rmk, pp)
__CPROVER_ensures(pp == ((encryption == g_e && ((__CPROVER_old(pp) == PP_T && keyIdsForAuthentication->has_k) || (__CPROVER_old(pp) == PP_F && keyIdsForDistrusting->has_k))) ? PP_NONE : __CPROVER_old(pp)))
__CPROVER_ensures(G_rmk.calls == __CPROVER_old(G_rmk.calls) + 1 && G_rmk.enc == encryption && KL_EQ(G_rmk.auth, *keyIdsForAuthentication) && KL_EQ(G_rmk.dis, *keyIdsForDistrusting) && __CPROVER_return_value == G_rmk.task)
;
/* removeKeysForPostponedTrustDecisions(encryption): removes every postponed decision stored for the encryption (not called
   by the code as it is; the repair proposed for finding C18-F1 uses it for a round started without sender keys) */
qtask Storage_removeAllPostponed(QXmppAtmTrustStorage *self, qstr encryption)
__CPROVER_assigns(G_rma, pp)
__CPROVER_ensures(pp == ((encryption == g_e) ? PP_NONE : __CPROVER_old(pp)))
__CPROVER_ensures(G_rma.calls == __CPROVER_old(G_rma.calls) + 1 && G_rma.enc == encryption && __CPROVER_return_value == G_rma.task)
;
/* keysForPostponedTrustDecisions(encryption, senderKeyIds): a query; the answer is delivered to the continuation (GET_ANSWER) */
qtask Storage_keysForPostponedTrustDecisions(QXmppAtmTrustStorage *self, qstr encryption, const KeyList *senderKeyIds)
__CPROVER_assigns(G_get)
__CPROVER_ensures(G_get.calls == __CPROVER_old(G_get.calls) + 1 && G_get.enc == encryption && KL_EQ(G_get.senders, *senderKeyIds) && __CPROVER_return_value == G_get.task)
;
/* what keysForPostponedTrustDecisions(enc, senders) answers in a state with postponed entry pp0 for the witness: the
   postponed decisions of the listed sender keys -- and of ALL sender keys when the list is EMPTY (documented in
   QXmppAtmTrustStorage.cpp: "If senderKeyIds is empty, all keys for encryption are returned"; QXmppAtmTrustMemoryStorage does
   exactly that).  A caller that means "the decisions of the keys in K" must therefore never pass an empty list -- as
   owner -> key id under `true` (authenticate) and `false` (distrust).  Used by the lemma harnesses only. */
#define GET_ANSWER(R, enc, senders, pp0) (KS_WF((R).t) && KS_WF((R).f) && \
   (!((enc) == g_e && ((senders).has_s || !(senders).nonempty) && (pp0) == PP_T) || (R).t.has_pair) && \
   (!((enc) == g_e && ((senders).has_s || !(senders).nonempty) && (pp0) == PP_F) || (R).f.has_pair))
