// units/C18/replay_trust_messages.cpp -- native battery for property C18 on the REAL library.
//
// Concrete trust messages are handed to QXmppAtmManager::handleMessage (memory storage) and the trust levels / postponed
// decisions read back through the public API are compared with what the PROPERTY STATEMENT prescribes:
//   * a message without ATM trust element, or sent by this very endpoint, changes nothing;
//   * sender key Authenticated: keys of owners in the sender's scope (own account: every owner; contact: only that contact)
//     named trusted become Authenticated, named distrusted become ManuallyDistrusted; nothing else changes, nothing is held back;
//   * sender key not Authenticated: nothing changes; the in-scope decisions are held back under the sender key, and
//       - take effect (and leave the postponed store) when the sender key is authenticated afterwards,
//       - are discarded and never applied when the sender key is distrusted instead (even if it is authenticated later),
//       - do not fire when some other key is authenticated (in particular one that is authenticated already).
// Usage: replay_trust_messages all | <scenario number>.   Exit 1 and "VIOLATED scenario=<n> ..." lines on a mismatch.
#include "QXmppAtmManager.h"
#include "QXmppAtmTrustMemoryStorage.h"
#include "QXmppClient.h"
#include "QXmppConfiguration.h"
#include "QXmppE2eeMetadata.h"
#include "QXmppMessage.h"
#include "QXmppTask.h"
#include "QXmppTrustMessageElement.h"
#include "QXmppTrustMessageKeyOwner.h"

#include <cstdio>
#include <cstdlib>
#include <cstring>

#include <QCoreApplication>

using namespace QXmpp;

static const QString ENC = QStringLiteral("urn:xmpp:omemo:2");

class tst_QXmppAtmManager
{
public:
    static void handle(QXmppAtmManager &m, const QXmppMessage &msg) { m.handleMessage(msg); }
    static void authenticate(QXmppAtmManager &m, const QString &owner, const QByteArray &key)
    {
        QMultiHash<QString, QByteArray> k;
        k.insert(owner, key);
        m.authenticate(ENC, k);
    }
    static void distrust(QXmppAtmManager &m, const QString &owner, const QByteArray &key)
    {
        QMultiHash<QString, QByteArray> k;
        k.insert(owner, key);
        m.distrust(ENC, k);
    }
};

static const char *OWNERS[] = { "alice@example.org", "bob@example.com", "carol@example.net" };
static const char *SENDERS[] = { "alice@example.org/tablet", "alice@example.org/phone", "bob@example.com/desktop", "mallory@example.net/x", "alice@example.org" };
static const TrustLevel LEVELS[] = { TrustLevel::Authenticated, TrustLevel::ManuallyTrusted, TrustLevel::AutomaticallyTrusted, TrustLevel::Undecided, TrustLevel::ManuallyDistrusted };
enum Shape { AtmElement, OtherUsage, NoElement };
enum Later { AuthenticateSender, DistrustSenderThenAuthenticate };

static QByteArray keyOf(const char *owner, bool trusted) { return QByteArray(trusted ? "T:" : "D:") + owner; }
static QString bare(const QString &jid) { return jid.section(QLatin1Char('/'), 0, 0); }

static TrustLevel level(QXmppAtmManager &m, const QString &owner, const QByteArray &key)
{
    auto t = m.trustLevel(ENC, owner, key);
    return t.isFinished() ? t.result() : TrustLevel::Undecided;
}

static int held(QXmppAtmTrustMemoryStorage &s, const QByteArray &sender, const QString &owner, const QByteArray &key)
{
    auto t = s.keysForPostponedTrustDecisions(ENC, { sender });
    if (!t.isFinished()) {
        return -1;
    }
    const auto r = t.result();
    return r.value(true).contains(owner, key) ? 1 : (r.value(false).contains(owner, key) ? 2 : 0);
}

static int violations = 0;

static void expect(int scenario, const char *what, const QString &owner, bool trustedKey, int got, int want)
{
    if (got != want) {
        std::printf("VIOLATED scenario=%d %s: owner %s, key named %s: observed %d, the property prescribes %d\n", scenario, what, qPrintable(owner),
                    trustedKey ? "trusted" : "distrusted", got, want);
        violations++;
    }
}

static void run(int scenario, int si, int li, Shape shape, Later later)
{
    QXmppClient client;
    QXmppAtmTrustMemoryStorage storage;
    QXmppAtmManager manager(&storage);
    client.addExtension(&manager);
    client.configuration().setJid(QStringLiteral("alice@example.org/phone"));
    const QString from = QString::fromLatin1(SENDERS[si]);
    const QString sender = bare(from);
    const QByteArray senderKey("sender-key");
    const TrustLevel senderLevel = LEVELS[li];
    if (senderLevel != TrustLevel::Undecided) {
        manager.addKeys(ENC, sender, { senderKey }, senderLevel);
    }
    // the sender's account always has ANOTHER device whose key is authenticated: what counts is the key that sent the message
    manager.addKeys(ENC, sender, { QByteArray("key-of-another-device-of-the-sender-account") }, TrustLevel::Authenticated);
    QXmppMessage msg;
    msg.setFrom(from);
    QXmppE2eeMetadata md;
    md.setSenderKey(senderKey);
    msg.setE2eeMetadata(md);
    if (shape != NoElement) {
        QList<QXmppTrustMessageKeyOwner> kos;
        for (const char *o : OWNERS) {
            QXmppTrustMessageKeyOwner ko;
            ko.setJid(QString::fromLatin1(o));
            ko.setTrustedKeys({ keyOf(o, true) });
            ko.setDistrustedKeys({ keyOf(o, false) });
            kos.append(ko);
        }
        QXmppTrustMessageElement el;
        el.setUsage(shape == AtmElement ? QStringLiteral("urn:xmpp:atm:1") : QStringLiteral("urn:example:other-usage"));
        el.setEncryption(ENC);
        el.setKeyOwners(kos);
        msg.setTrustMessageElement(el);
    }
    tst_QXmppAtmManager::handle(manager, msg);

    const bool accepted = shape == AtmElement && from != QStringLiteral("alice@example.org/phone");
    const bool authenticated = senderLevel == TrustLevel::Authenticated;
    for (const char *o : OWNERS) {
        const QString owner = QString::fromLatin1(o);
        const bool inScope = sender == QStringLiteral("alice@example.org") || sender == owner;
        for (int t = 1; t >= 0; t--) {
            const QByteArray key = keyOf(o, t);
            const bool moves = accepted && authenticated && inScope;
            const bool holds = accepted && !authenticated && inScope;
            expect(scenario, "trust level after the message", owner, t, int(level(manager, owner, key)),
                   moves ? int(t ? TrustLevel::Authenticated : TrustLevel::ManuallyDistrusted) : int(TrustLevel::Undecided));
            expect(scenario, "held back under the sender key after the message", owner, t, held(storage, senderKey, owner, key), holds ? (t ? 1 : 2) : 0);
        }
    }
    if (!accepted || authenticated) {
        return;
    }
    // an unrelated key that is already authenticated is authenticated once more (e.g. a device re-announcing its own key):
    // no held-back decision may fire -- its sender key was not authenticated
    manager.addKeys(ENC, QStringLiteral("dave@example.org"), { QByteArray("already-authenticated") }, TrustLevel::Authenticated);
    tst_QXmppAtmManager::authenticate(manager, QStringLiteral("dave@example.org"), QByteArray("already-authenticated"));
    for (const char *o : OWNERS) {
        const QString owner = QString::fromLatin1(o);
        const bool inScope = sender == QStringLiteral("alice@example.org") || sender == owner;
        for (int t = 1; t >= 0; t--) {
            const QByteArray key = keyOf(o, t);
            expect(scenario, "trust level after an unrelated, already authenticated key was authenticated again", owner, t, int(level(manager, owner, key)), int(TrustLevel::Undecided));
            expect(scenario, "held back under the sender key after an unrelated, already authenticated key was authenticated again", owner, t, held(storage, senderKey, owner, key), inScope ? (t ? 1 : 2) : 0);
        }
    }
    // the sender key is decided later
    if (later == DistrustSenderThenAuthenticate) {
        tst_QXmppAtmManager::distrust(manager, sender, senderKey);
    }
    tst_QXmppAtmManager::authenticate(manager, sender, senderKey);
    for (const char *o : OWNERS) {
        const QString owner = QString::fromLatin1(o);
        const bool inScope = sender == QStringLiteral("alice@example.org") || sender == owner;
        for (int t = 1; t >= 0; t--) {
            const QByteArray key = keyOf(o, t);
            const bool fires = inScope && later == AuthenticateSender;
            expect(scenario, later == AuthenticateSender ? "trust level after the sender key was authenticated" : "trust level after the sender key was distrusted (and authenticated later)",
                   owner, t, int(level(manager, owner, key)), fires ? int(t ? TrustLevel::Authenticated : TrustLevel::ManuallyDistrusted) : int(TrustLevel::Undecided));
            expect(scenario, "held back under the sender key after the sender key was decided", owner, t, held(storage, senderKey, owner, key), 0);
        }
    }
}

int main(int argc, char **argv)
{
    QCoreApplication app(argc, argv);
    const int only = (argc > 1 && std::strcmp(argv[1], "all") != 0) ? std::atoi(argv[1]) : -1;
    int scenario = 0, ran = 0;
    for (int si = 0; si < 5; si++) {
        for (int li = 0; li < 5; li++) {
            for (int shape = 0; shape < 3; shape++) {
                for (int later = 0; later < 2; later++) {
                    if (only < 0 || only == scenario) {
                        const int before = violations;
                        run(scenario, si, li, Shape(shape), Later(later));
                        ran++;
                        if (violations != before) {
                            std::printf("  scenario %d: from=%s, sender key level=%d, %s, later: %s\n", scenario, SENDERS[si], int(LEVELS[li]),
                                        shape == AtmElement ? "ATM trust message element" : (shape == OtherUsage ? "trust message element of another usage" : "no trust message element"),
                                        later == AuthenticateSender ? "sender key authenticated" : "sender key distrusted, then authenticated");
                        }
                    }
                    scenario++;
                }
            }
        }
    }
    std::printf("%d scenarios run, %d mismatches with the property statement\n", ran, violations);
    return violations ? 1 : 0;
}
