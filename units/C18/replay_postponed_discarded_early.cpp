// units/C18/replay_postponed_discarded_early.cpp -- native reproduction of finding C18-F1 on the REAL library.
//
// Property C18: "Decisions from a sender whose key is not yet authenticated are held back and take effect exactly when, and
// only if, that key later becomes authenticated."
// QXmppAtmManager::makePostponedTrustDecisions(senderKeyIds) fetches the postponed decisions of these sender keys and then
// removes them with removeKeysForPostponedTrustDecisions(encryption, <key ids for authentication>, <key ids for distrusting>),
// i.e. by the id of the key the decision is ABOUT.  That also removes the held-back decisions of OTHER sender keys (still
// unauthenticated, not asked for) about the same key id; they are never applied afterwards.
//
// Scenario A (trust messages received through handleMessage):  two own endpoints S1, S2 with unauthenticated keys each send
//   "authenticate key K of bob".  S1's key is authenticated: K becomes Authenticated, and S2's held-back decision disappears.
//   K is then distrusted manually.  S2's key is authenticated: by the property S2's decision takes effect now (K
//   Authenticated); on the real library nothing happens, K stays ManuallyDistrusted.
// Scenario B (storage level): S1 holds (bob, K, authenticate), S2 holds (carol, K, authenticate) -- the same key id under
//   another owner.  makePostponedTrustDecisions({S1}) must leave S2's decision stored; on the real library it is gone, and
//   authenticating S2 later never authenticates carol's key.
// Exit code 1 + "VIOLATED" lines when the property-level postcondition fails on the real library, 0 otherwise.
#include "QXmppAtmManager.h"
#include "QXmppAtmTrustMemoryStorage.h"
#include "QXmppClient.h"
#include "QXmppConfiguration.h"
#include "QXmppConstants_p.h"
#include "QXmppE2eeMetadata.h"
#include "QXmppMessage.h"
#include "QXmppTask.h"
#include "QXmppTrustMessageElement.h"
#include "QXmppTrustMessageKeyOwner.h"

#include <cstdio>

#include <QCoreApplication>

using namespace QXmpp;

static const QString ENC_OMEMO = QStringLiteral("urn:xmpp:omemo:2");
static const QString USAGE_ATM = QStringLiteral("urn:xmpp:atm:1");

// the manager's protected/private members are reachable for the class the library declares as a friend
class tst_QXmppAtmManager
{
public:
    static void handle(QXmppAtmManager &m, const QXmppMessage &msg) { m.handleMessage(msg); }
    static void authenticate(QXmppAtmManager &m, const QString &owner, const QByteArray &key)
    {
        QMultiHash<QString, QByteArray> k;
        k.insert(owner, key);
        m.authenticate(ENC_OMEMO, k);
    }
    static void distrust(QXmppAtmManager &m, const QString &owner, const QByteArray &key)
    {
        QMultiHash<QString, QByteArray> k;
        k.insert(owner, key);
        m.distrust(ENC_OMEMO, k);
    }
    static void makePostponed(QXmppAtmManager &m, const QList<QByteArray> &senders) { m.makePostponedTrustDecisions(ENC_OMEMO, senders); }
};

static QXmppMessage trustMessage(const QString &from, const QByteArray &senderKey, const QString &owner, const QByteArray &trustedKey)
{
    QXmppTrustMessageKeyOwner ko;
    ko.setJid(owner);
    ko.setTrustedKeys({ trustedKey });
    QXmppTrustMessageElement el;
    el.setUsage(USAGE_ATM);
    el.setEncryption(ENC_OMEMO);
    el.setKeyOwners({ ko });
    QXmppE2eeMetadata md;
    md.setSenderKey(senderKey);
    QXmppMessage msg;
    msg.setFrom(from);
    msg.setE2eeMetadata(md);
    msg.setTrustMessageElement(el);
    return msg;
}

static TrustLevel level(QXmppAtmManager &m, const QString &owner, const QByteArray &key)
{
    auto t = m.trustLevel(ENC_OMEMO, owner, key);
    return t.isFinished() ? t.result() : TrustLevel::Undecided;
}

static bool holds(QXmppAtmTrustMemoryStorage &s, const QByteArray &sender, const QString &owner, const QByteArray &key)
{
    auto t = s.keysForPostponedTrustDecisions(ENC_OMEMO, { sender });
    if (!t.isFinished()) {
        return false;
    }
    return t.result().value(true).contains(owner, key);
}

int main(int argc, char **argv)
{
    QCoreApplication app(argc, argv);
    const QByteArray S1("sender-key-1"), S2("sender-key-2"), K("key-K");
    const QString alice = QStringLiteral("alice@example.org"), bob = QStringLiteral("bob@example.com"), carol = QStringLiteral("carol@example.net");
    int violated = 0;

    {   // ---- scenario A
        QXmppClient client;
        QXmppAtmTrustMemoryStorage storage;
        QXmppAtmManager manager(&storage);
        client.addExtension(&manager);
        client.configuration().setJid(QStringLiteral("alice@example.org/phone"));
        tst_QXmppAtmManager::handle(manager, trustMessage(QStringLiteral("alice@example.org/tablet"), S1, bob, K));
        tst_QXmppAtmManager::handle(manager, trustMessage(QStringLiteral("alice@example.org/laptop"), S2, bob, K));
        std::printf("A: after two trust messages from own endpoints with unauthenticated keys: held back under S1: %d, under S2: %d, level(K) = %d\n",
                    holds(storage, S1, bob, K), holds(storage, S2, bob, K), int(level(manager, bob, K)));
        tst_QXmppAtmManager::authenticate(manager, alice, S1);
        std::printf("A: S1 authenticated: level(K) = %d (32 = Authenticated), still held back under S2: %d\n", int(level(manager, bob, K)), holds(storage, S2, bob, K));
        if (!holds(storage, S2, bob, K)) {
            std::printf("VIOLATED scenario=A step=1: the decision held back for sender key S2 (not authenticated, not asked for) was discarded when S1's decisions were made\n");
            violated++;
        }
        tst_QXmppAtmManager::distrust(manager, bob, K);
        std::printf("A: K distrusted manually: level(K) = %d (4 = ManuallyDistrusted)\n", int(level(manager, bob, K)));
        tst_QXmppAtmManager::authenticate(manager, alice, S2);
        std::printf("A: S2 authenticated: level(K) = %d\n", int(level(manager, bob, K)));
        if (level(manager, bob, K) != TrustLevel::Authenticated) {
            std::printf("VIOLATED scenario=A step=2: S2's decision (authenticate K) did not take effect when S2's key became authenticated\n");
            violated++;
        }
    }
    {   // ---- scenario B
        QXmppClient client;
        QXmppAtmTrustMemoryStorage storage;
        QXmppAtmManager manager(&storage);
        client.addExtension(&manager);
        client.configuration().setJid(QStringLiteral("alice@example.org/phone"));
        QXmppTrustMessageKeyOwner koBob, koCarol;
        koBob.setJid(bob);
        koBob.setTrustedKeys({ K });
        koCarol.setJid(carol);
        koCarol.setTrustedKeys({ K });
        storage.addKeysForPostponedTrustDecisions(ENC_OMEMO, S1, { koBob });
        storage.addKeysForPostponedTrustDecisions(ENC_OMEMO, S2, { koCarol });
        tst_QXmppAtmManager::makePostponed(manager, { S1 });
        std::printf("B: makePostponedTrustDecisions({S1}): level(bob, K) = %d, (carol, K) still held back under S2: %d\n", int(level(manager, bob, K)), holds(storage, S2, carol, K));
        if (!holds(storage, S2, carol, K)) {
            std::printf("VIOLATED scenario=B step=1: the decision (carol, K) held back for sender key S2 was removed by makePostponedTrustDecisions({S1})\n");
            violated++;
        }
        tst_QXmppAtmManager::authenticate(manager, alice, S2);
        std::printf("B: S2 authenticated: level(carol, K) = %d\n", int(level(manager, carol, K)));
        if (level(manager, carol, K) != TrustLevel::Authenticated) {
            std::printf("VIOLATED scenario=B step=2: (carol, K) was never authenticated although its sender key S2 became authenticated\n");
            violated++;
        }
    }
    std::printf("%s\n", violated ? "REPRODUCED: postponed decisions of a sender key that was not asked for are discarded without being applied" : "NOT-REPRODUCED");
    return violated ? 1 : 0;
}
