/* units/C18/memstore.h -- bounded CONCRETE model of the QMultiHash<QString, Entry> the two memory storages keep their entries in,
 * for the proofs of QXmppAtmTrustMemoryStorage::addKeysForPostponedTrustDecisions and QXmppTrustMemoryStorage::setTrustLevel
 * (owners form).  Generated per entry type by the macro below (Entry = UnprocessedKey / Key, mirrored from the real structs).
 *
 * A-QMULTIHASH (ASSUMED, Qt): a multi hash is a sequence of (key, value) items in which items with equal keys are adjacent;
 * find(k) is the first item with key k (end() if none); ++ moves to the next item; insert(k, v) adds an item to k's group.
 * BOUND: at most MS_CAP items (the proofs that use this model are labelled bounded). */
#ifndef MS_CAP
#define MS_CAP 7
#endif
/* The items' values live in separate objects (a pool of MS_CAP entries, bound by the harness: MS_BIND); the hash holds the
   keys and pointers to the values in iteration order.  (`auto &x = itr.value()` is then a pointer to one of MS_CAP objects.) */
#define MS_DEFINE(Hash, It, Entry) \
typedef struct Hash { int n; qstr k[MS_CAP]; Entry *p[MS_CAP]; } Hash; \
typedef struct It { Hash *h; int i; } It; \
static inline void Hash##_find(It *r, Hash *h, qstr key) { int i = 0; while (i < h->n && h->k[i] != key) i++; r->h = h; r->i = i; } \
static inline void Hash##_end(It *r, Hash *h) { r->h = h; r->i = h->n; } \
static inline bool It##_ne(const It *a, const It *b) { return a->i != b->i || a->h != b->h; } \
static inline bool It##_eq(const It *a, const It *b) { return a->i == b->i && a->h == b->h; } \
static inline void It##_inc(It *a) { MODEL_LIMIT(a->i < a->h->n, "++ of the end iterator"); a->i++; } \
static inline qstr It##_key(const It *a) { MODEL_LIMIT(0 <= a->i && a->i < a->h->n, "key() of the end iterator"); return a->h->k[a->i]; } \
static inline Entry *It##_value(const It *a) { MODEL_LIMIT(0 <= a->i && a->i < a->h->n, "value() of the end iterator"); return a->h->p[a->i]; } \
static inline void Hash##_insert(Hash *h, qstr key, const Entry *e) { \
  MODEL_LIMIT(h->n < MS_CAP, "more stored entries than the bounded model holds"); \
  Entry *fresh = h->p[h->n];                                 /* the next unused object of the pool */ \
  int p = 0; while (p < h->n && h->k[p] != key) p++;          /* front of the key's group (or the end) */ \
  for (int j = h->n; j > p; j--) { h->k[j] = h->k[j - 1]; h->p[j] = h->p[j - 1]; } \
  *fresh = *e; h->k[p] = key; h->p[p] = fresh; h->n++; } \
/* equal_range(key): [first item of the key's group, first item behind it) */ \
typedef struct It##Pair { It first, second; } It##Pair; \
static inline void Hash##_equal_range(It##Pair *r, Hash *h, qstr key) { \
  int i = 0; while (i < h->n && h->k[i] != key) i++; int j = i; while (j < h->n && h->k[j] == key) j++; \
  r->first.h = h; r->first.i = i; r->second.h = h; r->second.i = j; }
/* items with equal keys are adjacent */
#define MS_GROUPED3(h) (!((h).n >= 3 && (h).k[0] == (h).k[2]) || (h).k[1] == (h).k[0])
