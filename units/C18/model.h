/* units/C18/model.h -- value models (Qt / std types) and the specification vocabulary of the C18 unit.
 *
 * Everything is stated for ONE arbitrary witness:  encryption g_e, key owner g_o, key id g_k, sender key id g_s.
 * The witnesses are nondeterministic and never assigned, so what is proved holds for every (encryption, owner, key, sender key).
 *
 * Strings (JIDs, namespaces) and key ids (QByteArray) are opaque ids: equality only, 0 = empty. */
typedef int qkey;       /* QByteArray used as a key id */
typedef int qko;        /* QXmppTrustMessageKeyOwner (value) */
typedef int qmsg;       /* QXmppMessage (value) */
typedef int qtme;       /* std::optional<QXmppTrustMessageElement>: 0 = nullopt */
typedef int qe2ee;      /* std::optional<QXmppE2eeMetadata>: 0 = nullopt */
typedef unsigned qtask; /* QXmppTask<T>: id of the task */
typedef unsigned qpromise;
typedef struct QXmppAtmManager { int unused; } QXmppAtmManager;
typedef struct QXmppAtmTrustStorage { int unused; } QXmppAtmTrustStorage;
QXmppAtmTrustStorage gh_storage_obj;
#define gh_storage (&gh_storage_obj)
qkey nondet_qkey(void);

/* ---- witnesses ----------------------------------------------------------------------------------------------------- */
qstr g_e, g_o; qkey g_k, g_s;
/* own address: client()->configuration().jid() / jidBare() are pure getters (ASSUMED), jidBare() = bare part of jid() */
qstr gh_own_jid, gh_own_bare;
/* the trust level stored for the key that sent the trust message under consideration: (encryption, bare JID of the sender, sender key) */
int gh_sender_tl;
#define BARE(x) ((x) == 0 ? 0 : __CPROVER_uninterpreted_jid_bare(x))
#define IFF(a, b) ((!(a) || (b)) && (!(b) || (a)))

/* ---- the received message: getters are functions of the value -------------------------------------------------------- */
qtme __CPROVER_uninterpreted_msg_tme(qmsg m);
qstr __CPROVER_uninterpreted_msg_from(qmsg m);
qe2ee __CPROVER_uninterpreted_msg_e2ee(qmsg m);
qkey __CPROVER_uninterpreted_e2ee_sender_key(qe2ee e);
qstr __CPROVER_uninterpreted_tme_usage(qtme t);
qstr __CPROVER_uninterpreted_tme_encryption(qtme t);
int __CPROVER_uninterpreted_tme_ko_n(qtme t);
qko __CPROVER_uninterpreted_tme_ko_at(qtme t, int i);
qstr __CPROVER_uninterpreted_ko_jid(qko k);
int __CPROVER_uninterpreted_ko_keys_n(qko k, int kind);
qkey __CPROVER_uninterpreted_ko_key_at(qko k, int kind, int j);
bool __CPROVER_uninterpreted_ko_lists(qko k, int kind, qkey key);
#define MSG_TME(m) __CPROVER_uninterpreted_msg_tme(m)
#define MSG_FROM(m) __CPROVER_uninterpreted_msg_from(m)
#define MSG_E2EE(m) __CPROVER_uninterpreted_msg_e2ee(m)
#define MSG_SENDER_KEY(m) (MSG_E2EE(m) != 0 ? __CPROVER_uninterpreted_e2ee_sender_key(MSG_E2EE(m)) : 0)
#define TME_USAGE(t) __CPROVER_uninterpreted_tme_usage(t)
#define TME_ENC(t) __CPROVER_uninterpreted_tme_encryption(t)
#define TME_KO_N(t) __CPROVER_uninterpreted_tme_ko_n(t)
#define TME_KO_AT(t, i) __CPROVER_uninterpreted_tme_ko_at(t, i)
#define KO_JID(k) __CPROVER_uninterpreted_ko_jid(k)
#define TRUSTED 1
#define DISTRUSTED 2
#define KO_KEYS_N(k, kind) __CPROVER_uninterpreted_ko_keys_n(k, kind)
#define KO_KEY_AT(k, kind, j) __CPROVER_uninterpreted_ko_key_at(k, kind, j)
/* KO_LISTS(ko, kind, key)  :<=>  exists j < KO_KEYS_N(ko, kind). KO_KEY_AT(ko, kind, j) == key   (key is among ko's trusted / distrusted keys) */
#define KO_LISTS(k, kind, key) __CPROVER_uninterpreted_ko_lists(k, kind, key)
#define LIST_MAX 0x3fffffff
static inline qtme qmsg_trustMessageElement(qmsg m) { return MSG_TME(m); }
static inline qstr qmsg_from(qmsg m) { return MSG_FROM(m); }
static inline qe2ee qmsg_e2eeMetadata(qmsg m) { return MSG_E2EE(m); }
static inline qkey qe2ee_senderKey(qe2ee e) { MODEL_LIMIT(e != 0, "senderKey() of an empty optional"); return __CPROVER_uninterpreted_e2ee_sender_key(e); }
static inline qstr qtme_usage(qtme t) { MODEL_LIMIT(t != 0, "usage() of an empty optional"); return TME_USAGE(t); }
static inline qstr qtme_encryption(qtme t) { MODEL_LIMIT(t != 0, "encryption() of an empty optional"); return TME_ENC(t); }
static inline qstr qko_jid(qko k) { return KO_JID(k); }

/* Specification predicates about the trust message element gh_tme that a decision step works on:
 *   NAMED_T  :<=>  exists i. KO_JID(ko_i) == g_o  and  g_k is among the TRUSTED keys of ko_i      (ko_i = i-th key owner of gh_tme)
 *   NAMED_D  :<=>  the same with the DISTRUSTED keys.
 * They are ghost booleans tied to the message by their definition only: the introduction direction is instantiated where an
 * element is read (KoList_at / KeyList_at below), the elimination direction names Skolem witnesses (NAMED_T_WITNESS in the
 * specs).  Nothing else is assumed about them. */
qtme gh_tme; bool gh_named_t, gh_named_d;
int g_i, g_j, g_i2, g_j2;
#define NAMED_T (gh_named_t)
#define NAMED_D (gh_named_d)
#define NAMED_WITNESS(named, kind, wi, wj) (!(named) || (0 <= (wi) && (wi) < TME_KO_N(gh_tme) && KO_JID(TME_KO_AT(gh_tme, wi)) == g_o && KO_LISTS(TME_KO_AT(gh_tme, wi), kind, g_k) && \
   0 <= (wj) && (wj) < KO_KEYS_N(TME_KO_AT(gh_tme, wi), kind) && KO_KEY_AT(TME_KO_AT(gh_tme, wi), kind, wj) == g_k))
#define NAMED_T_WITNESS NAMED_WITNESS(gh_named_t, TRUSTED, g_i, g_j)
#define NAMED_D_WITNESS NAMED_WITNESS(gh_named_d, DISTRUSTED, g_i2, g_j2)

/* ---- QList<QByteArray> ------------------------------------------------------------------------------------------------
 * kind TRUSTED / DISTRUSTED: the (read-only) key list of key owner `ko`, elements through KO_KEY_AT;
 * kind 0: a list produced by values(): witness view (does it contain g_k / g_s, is it empty). */
typedef struct KeyList { int kind; qko ko; int n; bool has_k, has_s, nonempty; } KeyList;
static inline void qko_keys(KeyList *r, qko ko, int kind)
{
  int n = KO_KEYS_N(ko, kind);
  __CPROVER_assume(0 <= n && n <= LIST_MAX);               /* a size */
  r->kind = kind; r->ko = ko; r->n = n; r->nonempty = n > 0;
  r->has_k = KO_LISTS(ko, kind, g_k); r->has_s = KO_LISTS(ko, kind, g_s);
}
static inline void qko_trustedKeys(KeyList *r, qko ko) { qko_keys(r, ko, TRUSTED); }
static inline void qko_distrustedKeys(KeyList *r, qko ko) { qko_keys(r, ko, DISTRUSTED); }
#define KeyList_size(l) ((l)->n)
static inline qkey KeyList_at(const KeyList *l, int j)
{
  MODEL_LIMIT(l->kind != 0, "iteration over a key-id list that is only known through its witness view");
  MODEL_LIMIT(0 <= j && j < l->n, "QList index out of range");
  qkey k = KO_KEY_AT(l->ko, l->kind, j);
  __CPROVER_assume(KO_LISTS(l->ko, l->kind, k));           /* definition of KO_LISTS (introduction) */
  return k;
}
static inline void KeyList_ctor(KeyList *r) { r->kind = 0; r->ko = 0; r->n = 0; r->has_k = false; r->has_s = false; r->nonempty = false; }
static inline bool KeyList_isEmpty(const KeyList *l) { return !l->nonempty; }
#define KL_WF(l) ((!((l).has_k || (l).has_s) || (l).nonempty) && (g_k != g_s || IFF((l).has_k, (l).has_s)))
#define KL_EQ(a, b) (IFF((a).has_k, (b).has_k) && IFF((a).has_s, (b).has_s) && IFF((a).nonempty, (b).nonempty))

/* ---- QList<QString> (owner JIDs): witness view --------------------------------------------------------------------------- */
typedef struct OwnerList { bool has_o, nonempty; } OwnerList;
static inline void OwnerList_ctor(OwnerList *r) { r->has_o = false; r->nonempty = false; }
static inline bool OwnerList_contains(const OwnerList *l, qstr owner)
{
  if (owner == g_o) return l->has_o;
  bool r = nondet_bool();                                   /* membership of an owner other than the witness: not tracked */
  __CPROVER_assume(!r || l->nonempty);
  return r;
}
static inline bool OwnerList_isEmpty(const OwnerList *l) { return !l->nonempty; }
#define OL_EQ(a, b) (IFF((a).has_o, (b).has_o) && IFF((a).nonempty, (b).nonempty))

/* ---- QMultiHash<QString, QByteArray> (owner JID -> key id): witness view ---------------------------------------------------
 * has_pair: (g_o, g_k) is in it;  has_owner: some (g_o, *);  has_kid_k: some (*, g_k);  has_kid_s: some (*, g_s) */
typedef struct KeySet { bool nonempty, has_pair, has_owner, has_kid_k, has_kid_s; } KeySet;
#define KS_WF(s) ((!(s).has_pair || ((s).has_owner && (s).has_kid_k)) && (!((s).has_owner || (s).has_kid_k || (s).has_kid_s) || (s).nonempty) && (g_k != g_s || IFF((s).has_kid_k, (s).has_kid_s)))
#define KS_EQ(a, b) (IFF((a).nonempty, (b).nonempty) && IFF((a).has_pair, (b).has_pair) && IFF((a).has_owner, (b).has_owner) && IFF((a).has_kid_k, (b).has_kid_k) && IFF((a).has_kid_s, (b).has_kid_s))
/* the list values() / uniqueKeys() of a key set, as seen through the witnesses */
#define KS_VALUES_ARE(l, s) (IFF((l).has_k, (s).has_kid_k) && IFF((l).has_s, (s).has_kid_s) && IFF((l).nonempty, (s).nonempty))
#define KS_OWNERS_ARE(l, s) (IFF((l).has_o, (s).has_owner) && IFF((l).nonempty, (s).nonempty))
static inline void KeySet_ctor(KeySet *s) { s->nonempty = false; s->has_pair = false; s->has_owner = false; s->has_kid_k = false; s->has_kid_s = false; }
static inline void KeySet_insert(KeySet *s, qstr owner, qkey key)
{
  s->nonempty = true;
  if (owner == g_o) s->has_owner = true;
  if (key == g_k) s->has_kid_k = true;
  if (key == g_s) s->has_kid_s = true;
  if (owner == g_o && key == g_k) s->has_pair = true;
}
static inline bool KeySet_isEmpty(const KeySet *s) { return !s->nonempty; }
static inline void KeySet_values(KeyList *r, const KeySet *s)
{
  r->kind = 0; r->ko = 0; r->n = 0; r->has_k = s->has_kid_k; r->has_s = s->has_kid_s; r->nonempty = s->nonempty;
}
static inline void KeySet_uniqueKeys(OwnerList *r, const KeySet *s) { r->has_o = s->has_owner; r->nonempty = s->nonempty; }

static inline bool KeySet_contains(const KeySet *s, qstr owner, qkey key)
{
  if (owner == g_o && key == g_k) return s->has_pair;
  bool r = nondet_bool();                                   /* membership of a pair other than the witness: not tracked */
  __CPROVER_assume(!r || s->nonempty);
  return r;
}

/* ---- QHash<QString, QMultiHash<QString, QByteArray>>: encryption -> keys (the "modified keys" of a setTrustLevel) -------------
 * witness view: the keys listed under encryption `enc`; nothing under any other encryption */
typedef struct ModifiedKeys { qstr enc; KeySet v; bool set; KeySet other; } ModifiedKeys;
static inline void ModifiedKeys_value(KeySet *r, const ModifiedKeys *m, qstr encryption)
{
  if (encryption == m->enc) *r = m->v; else KeySet_ctor(r);
}
/* default construction and operator[] (as used by the memory storage to collect the modified keys): the first encryption
   indexed becomes the one the view follows; items under any other encryption go to a sink */
static inline void ModifiedKeys_ctor(ModifiedKeys *m) { m->enc = 0; m->set = false; KeySet_ctor(&m->v); KeySet_ctor(&m->other); }
static inline KeySet *ModifiedKeys_index(ModifiedKeys *m, qstr encryption)
{
  if (!m->set) { m->set = true; m->enc = encryption; }
  return encryption == m->enc ? &m->v : &m->other;
}
static inline bool ModifiedKeys_isEmpty(const ModifiedKeys *m) { return !m->v.nonempty; }
static inline void sig_trustLevelsChanged(const QXmppAtmManager *self, const ModifiedKeys *modifiedKeys) { }

/* ---- QHash<bool, QMultiHash<QString, QByteArray>>: the answer of keysForPostponedTrustDecisions ----------------------------- */
typedef struct PostponedResult { KeySet t, f; } PostponedResult;
static inline void PostponedResult_value(KeySet *r, const PostponedResult *p, bool key) { *r = key ? p->t : p->f; }

/* ---- QList<QXmppTrustMessageKeyOwner> -------------------------------------------------------------------------------------
 * tme != 0: the key-owner list of that trust message element (read-only, n elements, TME_KO_AT);
 * tme == 0: a list built by append(): witness view  has_t / has_f = some appended key owner has JID g_o and lists g_k as
 *           trusted / distrusted. */
typedef struct KoList { qtme tme; int n; bool has_t, has_f; } KoList;
static inline void KoList_ctor(KoList *l) { l->tme = 0; l->n = 0; l->has_t = false; l->has_f = false; }
static inline void qtme_keyOwners(KoList *r, qtme t)
{
  MODEL_LIMIT(t != 0, "keyOwners() of an empty optional");
  int n = TME_KO_N(t);
  __CPROVER_assume(0 <= n && n <= LIST_MAX);               /* a size */
  r->tme = t; r->n = n; r->has_t = false; r->has_f = false;
}
#define KoList_size(l) ((l)->n)
static inline qko KoList_at(const KoList *l, int i)
{
  MODEL_LIMIT(l->tme != 0, "iteration over a key-owner list that is only known through its witness view");
  MODEL_LIMIT(0 <= i && i < l->n, "QList index out of range");
  qko ko = TME_KO_AT(l->tme, i);
  /* definition of NAMED_T / NAMED_D (introduction), instantiated for the element just read */
  __CPROVER_assume(!(l->tme == gh_tme && KO_JID(ko) == g_o && KO_LISTS(ko, TRUSTED, g_k)) || gh_named_t);
  __CPROVER_assume(!(l->tme == gh_tme && KO_JID(ko) == g_o && KO_LISTS(ko, DISTRUSTED, g_k)) || gh_named_d);
  return ko;
}
static inline void KoList_append(KoList *l, qko ko)
{
  MODEL_LIMIT(l->tme == 0, "append to the key-owner list of a message");
  if (KO_JID(ko) == g_o && KO_LISTS(ko, TRUSTED, g_k)) l->has_t = true;
  if (KO_JID(ko) == g_o && KO_LISTS(ko, DISTRUSTED, g_k)) l->has_f = true;
}

/* ---- QXmppPromise<void> / QXmppTask<T> (property C13): ids and an event log ---------------------------------------------------- */
#define TASK_READY 1u
#define PROMISE_TASK(p) (0x80000000u | (p))
unsigned gh_promises;                                /* promises created so far; a new promise gets the next id */
struct { unsigned calls; qpromise promise; } G_fin;  /* promise.finish() */
static inline qpromise qpromise_new(void) { gh_promises++; return gh_promises; }
static inline qtask qpromise_task(qpromise p) { return PROMISE_TASK(p); }
static inline void qpromise_finish(qpromise p) { G_fin.calls++; G_fin.promise = p; }
static inline qtask makeReadyTask(void) { return TASK_READY; }
