/* units/C17/model.h -- value models used by the C17 lowering (ASSUMED contracts of Qt / libstdc++ types and of QXmpp
 * sub-object classes whose own toXml()/parse() are not verified here).
 *
 * Everything is an opaque value id (int); every operation is an *uninterpreted function* of its arguments, so a model
 * call is deterministic (needed by the three-mode lemma: the same message state serialised three times takes the same
 * branches) and nothing is known about a value except what the lowered code itself establishes.
 *
 *   qsub     a value of a QXmpp sub-object class (QXmppOutOfBandUrl, QXmppJingleMessageInitiationElement, ...; 0 = default constructed)
 *   qoptsub  std::optional<sub-object>: 0 = std::nullopt, otherwise the contained value
 *   qoptint  std::optional<enum>: -1 = std::nullopt, otherwise the enumerator value
 *   qlist    QVector<...>/QList<...> value; size and elements are functions of the value
 *   qdt      QDateTime value
 *   qxw      QXmlStreamWriter (only its address is used; every write is an event)
 *
 * The XML writer, the sub-objects' toXml()/parse() and the QXmpp XML helper functions are event stubs: they count
 * the event and have no other effect on the tracked state.  What reaches them is over-approximated by the touched set
 * (DESIGN 5.12): a member whose accessor was not called cannot have been handed to the writer. */
typedef int qsub; typedef int qoptsub; typedef int qoptint; typedef int qlist; typedef int qdt; typedef int qba; typedef int qtz;
typedef struct qxw { int unused; } qxw;
typedef struct qiodev { int unused; } qiodev;
typedef qstr *qtextstream;

/* ---- event log: number of writer / sub-object serialisation events (saturating) */
int gh_events;
static inline void ev(void) { if (gh_events < 1000000) gh_events++; }
static qiodev gh_device;

/* ---- QXmlStreamWriter */
static inline void xw_writeStartElement(qxw *w, qstr name) { (void)w; (void)name; ev(); }
static inline void xw_writeDefaultNamespace(qxw *w, qstr ns) { (void)w; (void)ns; ev(); }
static inline void xw_writeEndElement(qxw *w) { (void)w; ev(); }
static inline void xw_writeAttribute(qxw *w, qstr name, qstr value) { (void)w; (void)name; (void)value; ev(); }
static inline void xw_writeCharacters(qxw *w, qstr text) { (void)w; (void)text; ev(); }
static inline void xw_writeTextElement(qxw *w, qstr name, qstr text) { (void)w; (void)name; (void)text; ev(); }
static inline qiodev *xw_device(qxw *w) { (void)w; return &gh_device; }
static inline void qiodev_write(qiodev *d, qba bytes) { (void)d; (void)bytes; ev(); }
/* QXmpp XML helpers (QXmppUtils_p.h): event stubs, ASSUMED to have no effect other than writing to the stream */
static inline void writeOptionalXmlAttribute(qxw *w, qstr name, qstr value) { (void)w; (void)name; (void)value; ev(); }
static inline void writeXmlTextElement(qxw *w, qstr name, qstr value) { (void)w; (void)name; (void)value; ev(); }
/* sub-object serialisers (QXmppOutOfBandUrl::toXml, QXmppFallback::toXml, ...): event stubs */
static inline void sub_toXml(qsub v, qxw *w) { (void)v; (void)w; ev(); }

/* ---- strings beyond qtmodel/opaque.h */
qba __CPROVER_uninterpreted_str_toUtf8(qstr s);
qstr __CPROVER_uninterpreted_str_mid(qstr s, int pos);
int __CPROVER_uninterpreted_str_indexOf(qstr s, int ch);
qstr __CPROVER_uninterpreted_str_replace(qstr s, qstr a, qstr b);
qstr __CPROVER_uninterpreted_str_trimmed2(qstr s);
static inline qba qstr_toUtf8(qstr s) { return __CPROVER_uninterpreted_str_toUtf8(s); }
static inline qstr qstr_mid(qstr s, int pos) { return __CPROVER_uninterpreted_str_mid(s, pos); }
/* QString::indexOf: -1 or a position below the length (lengths are below 2^30 here) */
static inline int qstr_indexOf(qstr s, int ch) { return (int)((unsigned)__CPROVER_uninterpreted_str_indexOf(s, ch) & 0x3fffffffu) - 1; }
static inline qstr *qstr_replace(qstr *s, qstr a, qstr b) { *s = __CPROVER_uninterpreted_str_replace(*s, a, b); return s; }
static inline qstr qstr_trimmed2(qstr s) { return __CPROVER_uninterpreted_str_trimmed2(s); }

/* ---- constant string tables (HINT_TYPES, CHAT_STATES, MARKER_TYPES, ...) : lookups are uninterpreted functions of (table, key) */
qstr __CPROVER_uninterpreted_table_at(int table, int index);
bool __CPROVER_uninterpreted_table_contains(int table, qstr s);
int __CPROVER_uninterpreted_table_indexOf(int table, qstr s);
qoptint __CPROVER_uninterpreted_enum_from_string(int table, qstr s);
static inline qstr table_at(int table, long index) { return __CPROVER_uninterpreted_table_at(table, (int)index); }
static inline bool table_contains(int table, qstr s) { return __CPROVER_uninterpreted_table_contains(table, s); }
static inline int table_indexOf(int table, qstr s) { return __CPROVER_uninterpreted_table_indexOf(table, s); }
/* QXmpp::Private::enumFromString (QXmppUtils_p.h): ASSUMED a pure function of (table, string) */
static inline qoptint enumFromString(int table, qstr s) { qoptint r = __CPROVER_uninterpreted_enum_from_string(table, s); return r < 0 ? -1 : r; }

/* ---- lists */
unsigned __CPROVER_uninterpreted_list_size(qlist l);
qsub __CPROVER_uninterpreted_list_at(qlist l, int i);
qlist __CPROVER_uninterpreted_list_append(qlist l, qsub v);
static inline int qlist_size(qlist l) { return (int)(__CPROVER_uninterpreted_list_size(l) & 0x3fffffffu); }
static inline bool qlist_isEmpty(qlist l) { return qlist_size(l) == 0; }
static inline qsub qlist_at(qlist l, int i) { return __CPROVER_uninterpreted_list_at(l, i); }
static inline void qlist_push_back(qlist *l, qsub v) { *l = __CPROVER_uninterpreted_list_append(*l, v); }

/* ---- sub-objects */
qsub __CPROVER_uninterpreted_sub_parsed(int cls, qdom e);
bool __CPROVER_uninterpreted_sub_parse_ok(int cls, qdom e);
bool __CPROVER_uninterpreted_sub_is(int cls, qdom e);
qstr __CPROVER_uninterpreted_sub_field(qsub v, int field);
qsub __CPROVER_uninterpreted_sub_make2(int cls, qstr a, qstr b);
/* X::isX(element) static recognisers and X::parse(element): pure functions of the element (ASSUMED) */
static inline bool sub_is(int cls, qdom e) { return __CPROVER_uninterpreted_sub_is(cls, e); }
static inline void sub_parse(qsub *v, int cls, qdom e) { *v = __CPROVER_uninterpreted_sub_parsed(cls, e); }
static inline bool sub_parse_bool(qsub *v, int cls, qdom e) { *v = __CPROVER_uninterpreted_sub_parsed(cls, e); return __CPROVER_uninterpreted_sub_parse_ok(cls, e); }
/* X::fromDom(element) -> std::optional<X> */
static inline qoptsub sub_fromDom(int cls, qdom e) { return __CPROVER_uninterpreted_sub_parse_ok(cls, e) ? __CPROVER_uninterpreted_sub_parsed(cls, e) : 0; }
static inline qstr sub_field(qsub v, int field) { return __CPROVER_uninterpreted_sub_field(v, field); }
static inline qsub sub_make2(int cls, qstr a, qstr b) { return __CPROVER_uninterpreted_sub_make2(cls, a, b); }

/* ---- QDateTime / QTimeZone */
bool __CPROVER_uninterpreted_dt_isValid(qdt t);
qdt __CPROVER_uninterpreted_dt_toUTC(qdt t);
qstr __CPROVER_uninterpreted_dt_toString(qdt t, qstr fmt);
qdt __CPROVER_uninterpreted_dt_fromString(qstr s, qstr fmt);
qdt __CPROVER_uninterpreted_dt_withZone(qdt t, qtz z);
static inline bool qdt_isValid(qdt t) { return t != 0 && __CPROVER_uninterpreted_dt_isValid(t); }
static inline bool qdt_isNull(qdt t) { return t == 0; }
static inline qdt qdt_toUTC(qdt t) { return __CPROVER_uninterpreted_dt_toUTC(t); }
static inline qstr qdt_toString(qdt t, qstr fmt) { return __CPROVER_uninterpreted_dt_toString(t, fmt); }
static inline qdt qdt_fromString(qstr s, qstr fmt) { return __CPROVER_uninterpreted_dt_fromString(s, fmt); }
static inline void qdt_setTimeZone(qdt *t, qtz z) { *t = __CPROVER_uninterpreted_dt_withZone(*t, z); }

/* ---- DOM beyond qtmodel/opaque.h */
qstr __CPROVER_uninterpreted_dom_saved(qdom e);
static inline void qdom_save(qdom e, qtextstream s, int indent) { (void)indent; *s = __CPROVER_uninterpreted_dom_saved(e); }

/* ---- QXmpp::Private encryption name helpers (Global.cpp): pure functions (ASSUMED) */
qoptint __CPROVER_uninterpreted_encryptionFromString(qstr s);
qstr __CPROVER_uninterpreted_encryptionToName(int m);
static inline qoptint encryptionFromString(qstr s) { qoptint r = __CPROVER_uninterpreted_encryptionFromString(s); return r < 0 ? -1 : r; }
static inline qstr encryptionToName(int m) { return __CPROVER_uninterpreted_encryptionToName(m); }
static inline int qoptint_value_or(qoptint o, int dflt) { return o >= 0 ? o : dflt; }
#define TABLE(x) (x)
typedef int qtable;
#define S_DATETIME_ISO S("format:XEP-0082 datetime")
/* std::optional<X> = x : the optional holds a value afterwards (ids: 0 is reserved for nullopt; the abstraction of values need not be injective) */
static inline qoptsub opt_some(qsub v) { return v == 0 ? 1 : v; }
/* QTextStream(QString *, mode): a stream that writes into the string */
static inline qtextstream qtextstream_open(qstr *s, int mode) { (void)mode; return s; }

static inline void qlist_clear(qlist *l) { *l = 0; }
/* iterChildElements(parent, tag, ns): abstract sequence of the matching child elements */
typedef struct qdomkids { qdom parent; qstr tag; qstr ns; } qdomkids;
unsigned __CPROVER_uninterpreted_dom_kids_count(qdom parent, qstr tag, qstr ns);
qdom __CPROVER_uninterpreted_dom_kid(qdom parent, qstr tag, qstr ns, int i);
static inline qdomkids qdomkids_of(qdom parent, qstr tag, qstr ns) { qdomkids k = { parent, tag, ns }; return k; }
static inline int qdomkids_size(qdomkids k) { return k.parent == 0 ? 0 : (int)(__CPROVER_uninterpreted_dom_kids_count(k.parent, k.tag, k.ns) & 0x3fffffffu); }
static inline qdom qdomkids_at(qdomkids k, int i) { return __CPROVER_uninterpreted_dom_kid(k.parent, k.tag, k.ns, i); }
/* QXmppElement(const QDomElement &): a copy of the element (a function of it) */
qsub __CPROVER_uninterpreted_sub_of_dom(qdom e);
static inline qsub sub_of_dom(qdom e) { return __CPROVER_uninterpreted_sub_of_dom(e); }
/* QXmppExtendedAddress::isValid(), QXmppStanza::Error::d : functions of the value */
bool __CPROVER_uninterpreted_sub_isValid(qsub v);
static inline bool sub_isValid(qsub v) { return __CPROVER_uninterpreted_sub_isValid(v); }
static inline qoptsub sub_dptr(qsub v) { return v; }
/* QXmppPubSubEventBase::serializeItems(writer) (pure virtual, implemented by QXmppPubSubEvent<T>): event stub */
static inline void pubsub_serializeItems(const void *event, qxw *w) { (void)event; (void)w; ev(); }
