"""C17 -- the public part of an encrypted message never contains its sensitive content (taint by touch, DESIGN 5.12)."""
import os, re, json
from vlib.unit import Builder, Target, Spec, VERIF, scan_assumes
from vlib.runner import Proof
from vlib.opaque_profile import opaque_profile
from vlib.cxx2c import Lowerer, Unsupported, strip_type, qt, dqt, SCALARS, find_string
from vlib import astx, ctx
from vlib.configure import REPO

QT = os.path.join(VERIF, 'qtmodel')
HERE = os.path.dirname(os.path.abspath(__file__))
SRC = 'src/base/QXmppMessage.cpp'
SRC_STANZA = 'src/base/QXmppStanza.cpp'
SRC_PUBSUB = 'src/base/QXmppPubSubEvent.cpp'
MP = 'QXmppMessagePrivate'
SP = 'QXmppStanzaPrivate'
PE = 'QXmppPubSubEventPrivate'


def rd(name):
    return open(os.path.join(HERE, name)).read()


# ------------------------------------------------------------------------------------------------- the specification
# Classification of the members of QXmppMessagePrivate, taken from the property statement (properties.jsonl C17 and
# DESIGN 6/C17): the part serialised for the server "contains only routing data, hints, ids and explicit fallback text".
# Every member of the record that is NOT named here is SENSITIVE -- the table is completed from the record layout on every
# run, so a member added later is sensitive by default.
PUBLIC_MEMBERS = {
    'type':             'routing attribute of the <message/> element',
    'e2eeFallbackBody': 'explicit fallback text (written/parsed in public-only mode, by design)',
    'privatemsg':       'XEP-0280 <private/> flag (tells the server not to copy): hint',
    'hints':            'XEP-0334 message processing hints',
    'stanzaIds':        'XEP-0359 stanza ids',
    'originId':         'XEP-0359 origin id',
    'mixUserJid':       'XEP-0369 MIX user jid (added by the MIX channel: routing data)',
    'mixUserNick':      'XEP-0369 MIX user nick (added by the MIX channel: routing data)',
    'encryptionMethod': 'XEP-0380 explicit message encryption: namespace',
    'encryptionName':   'XEP-0380 explicit message encryption: name',
    'omemoElement':     'the OMEMO element itself (only present with BUILD_OMEMO)',
}
BOTH_MEMBERS = {
    'fallbackMarkers':  'XEP-0428 fallback markers accompany both parts by definition',
}
# members of QXmppStanzaPrivate (QXmppStanza::extensionsToXml): routing data is public, the rest is sensitive by default
PUBLIC_STANZA_MEMBERS = {
    'to': 'routing', 'from': 'routing', 'id': 'stanza id', 'lang': 'xml:lang attribute of the stanza element',
    'extendedAddresses': 'XEP-0033 extended stanza addressing: routing data',
    'error': 'stanza-level delivery error (RFC 6120 8.3), produced by routing entities and serialised with the stanza header',
}
CLS_SENSITIVE, CLS_PUBLIC, CLS_BOTH = 0, 1, 2

# ------------------------------------------------------------------------------------------------- type canonicalisation
SUBOBJECT = (r'(QXmppOutOfBandUrl|QXmppBitsOfBinaryData|QXmppJingleMessageInitiationElement|QXmppStanzaId|QXmppMixInvitation|'
             r'QXmppFallback|QXmppTrustMessageElement|QXmppMessageReaction|QXmppFileShare|QXmppFileSourcesAttachment|'
             r'(QXmppMessage::|QXmpp::)?Reply|QXmppCallInviteElement|QXmppOmemoElement|QXmppElement|QXmppExtendedAddress|(QXmppStanza::)?Error|QXmppPubSubSubscription|QXmppDataForm)')
CANON = [
    (re.compile(r'^(typename )?(std::)?remove_reference<(.*)>::type$'), None),          # std::move result: the argument type
    (re.compile(r'^std::optional<' + SUBOBJECT + r'>$'), 'qoptsub'),
    (re.compile(r'^std::optional<(QXmppMessage::)?(State|Marker|Type)>$'), 'qoptint'),
    (re.compile(r'^std::optional<(QXmpp::)?EncryptionMethod>$'), 'qoptint'),
    (re.compile(r'^(QVector|QList)<' + SUBOBJECT + r'>$'), 'qlist'),
    (re.compile(r'^(QXmppBitsOfBinaryDataList|QXmppElementList)$'), 'qlist'),
    (re.compile(r'^(QVector|QList)<QStringView>$'), 'qtable'),
    (re.compile(r'^(const )?(std::)?array<QStringView,\s*\d+>$'), 'qtable'),
    (re.compile(r'^' + SUBOBJECT + r'$'), 'qsub'),
    (re.compile(r'^(QXmppMessage::)?(Type|State|Marker|Hint)$'), 'int'),
    (re.compile(r'^(QXmpp::)?(SceMode)$'), 'quint8'),
    (re.compile(r'^(QXmpp::)?(EncryptionMethod)$'), 'int'),
    (re.compile(r'^StampType$'), 'int'),
    (re.compile(r'^QSharedDataPointer<QXmppMessagePrivate>$'), MP + '*'),
    (re.compile(r'^QSharedDataPointer<QXmppStanzaPrivate>$'), SP + '*'),
    (re.compile(r'^QSharedDataPointer<QXmppPubSubEventPrivate>$'), PE + '*'),
    (re.compile(r'^(QXmppPubSubEventBase::)?EventType$'), 'int'),
    (re.compile(r'^QStringList$'), 'qlist'),
    (re.compile(r'^QSharedDataPointer<(QXmppStanzaErrorPrivate|QXmppE2eeMetadataPrivate)>$'), 'qoptsub'),   # null or a shared value
]


def canon(t):
    s = strip_type(t)
    ptr = ''
    while s.endswith('*'):
        s = s[:-1].strip()
        ptr += '*'
    for _ in range(3):
        for rx, name in CANON:
            m = rx.match(s)
            if m:
                if name is None:
                    s = strip_type(m.group(3))
                    break
                return name + ptr
        else:
            break
    return s + ptr


class L17(Lowerer):
    """adds: canonical names for the many sub-object / optional / list spellings; QStringLiteral; taint accessors for the
    members of the private records (read/write decided from the AST context of the member expression)"""
    TRANSPARENT = Lowerer.TRANSPARENT + ('CXXRewrittenBinaryOperator',)
    tracked = {}       # record cname -> set of field names (filled by build())

    def __init__(self, decl, cname, profile, this_type=None, is_lambda=False):
        super().__init__(decl, cname, profile, this_type, is_lambda)
        self.parent = {}
        self.index_parents(decl, None)
        self.accesses = []       # (record, field, 'r'|'w', line)  -- mechanical access inventory of this function
        self.loop_kinds = {}     # ordinal -> ('list', idx, n) | ('for',)
        self.tables_used = set()

    def index_parents(self, n, par):
        if not isinstance(n, dict):
            return
        if 'id' in n:
            self.parent[n['id']] = par
        for c in n.get('inner', []):
            self.index_parents(c, n)

    def ctype(self, t, node=None):
        return super().ctype(canon(t) if t is not None else None, node)

    def ntype(self, n):
        errs = []
        for cand in (qt(n), dqt(n)):
            try:
                return super().ctype(canon(cand))
            except Unsupported as e:
                errs.append(str(e))
        raise Unsupported(errs[0] + (' / ' + dqt(n) if dqt(n) != qt(n) else ''))

    def tkey(self, n):
        for cand in (qt(n), dqt(n)):
            s = strip_type(canon(cand))
            base = s.rstrip('*')
            if base in self.p.types or base in SCALARS:
                return (self.p.types.get(base) or SCALARS.get(base)) + s[len(base):]
        return strip_type(qt(n))

    # -------------------------------------------------------------- QStringLiteral("...") is an immediately invoked lambda
    @staticmethod
    def is_qstringliteral(lam):
        def has(n):
            if not isinstance(n, dict):
                return False
            if n.get('kind') == 'VarDecl' and n.get('name') == 'qstring_literal':
                return True
            return any(has(c) for c in n.get('inner', []))
        return lam.get('kind') == 'LambdaExpr' and has(lam)

    def opcall(self, n):
        rd_ = self.callee_ref(n)
        if rd_.get('name') == 'operator()':
            a0 = self.skip(n['inner'][1])
            if self.is_qstringliteral(a0):
                s = find_string(a0)
                if s is None:
                    raise Unsupported('QStringLiteral without characters')
                self.fire('literal:QStringLiteral')
                return self.p.literal_ids.cexpr(s)
        return super().opcall(n)

    # -------------------------------------------------------------- constant string tables: identified by their name
    def declref(self, n):
        rd_ = n['referencedDecl']
        if rd_.get('kind') == 'VarDecl' and rd_['id'] not in self.locals:
            try:
                is_table = self.tkey(n) == 'qtable'
            except Unsupported:
                is_table = False
            if is_table:
                self.fire('table:' + rd_['name'])
                self.tables_used.add(rd_['name'])
                return 'TBL_' + rd_['name']
        return super().declref(n)

    # -------------------------------------------------------------- taint by touch
    def access_mode(self, n):
        """'r' if the member expression is only read at this place, otherwise 'w' (anything not recognised as a pure read
        counts as a write: assignment target, non-const member call, address taken, non-const reference binding)"""
        if re.match(r'\s*const\b', qt(n)):
            return 'r'
        p = self.parent.get(n.get('id'))
        while p is not None and p.get('kind') in ('ParenExpr',):
            p = self.parent.get(p.get('id'))
        if p is not None and p.get('kind') == 'ImplicitCastExpr':
            if p.get('castKind') == 'LValueToRValue':
                return 'r'
            if p.get('castKind') == 'NoOp' and re.match(r'\s*const\b', qt(p)):
                return 'r'
        return 'w'

    def member(self, n):
        base = self.skip(n['inner'][0])
        bt = self.tkey(base).rstrip('*')
        name = n['name']
        if bt in self.tracked:
            if name not in self.tracked[bt]:
                raise Unsupported('member %s::%s is not in the record layout' % (bt, name))
            mode = self.access_mode(n)
            b = self.expr(base)
            self.fire('taint:%s::%s:%s' % (bt, name, mode))
            self.accesses.append((bt, name, mode, n.get('range', {}).get('begin', {}).get('line')))
            return '(*%s_%s_%s(%s))' % (bt, mode, name, b)
        return super().member(n)

    # -------------------------------------------------------------- default arguments: taken from the real declaration
    def default_arg(self, n):
        par = self.parent.get(n.get('id'))
        if par is not None and par.get('kind') in ('CXXMemberCallExpr', 'CallExpr'):
            me = self.skip(par['inner'][0])
            name = me.get('name') if me.get('kind') == 'MemberExpr' else self.callee_ref(par).get('name')
            idx = [a.get('id') for a in par['inner'][1:]].index(n.get('id'))
            dv = getattr(self.p, 'default_values', {}).get((name, idx))
            if dv is not None:
                self.fire('default:%s#%d' % (name, idx))
                for et, names in dv[1].items():
                    self.need_enums.setdefault(et, set()).update(names)
                return dv[0]
        return super().default_arg(n)

    # -------------------------------------------------------------- loops: remember what kind each ordinal is
    def loop(self, pre_decl, cond, inc, body, ind):
        self.loop_kinds[self.loops] = ('for',)
        return super().loop(pre_decl, cond, inc, body, ind)


def rangefor_list(lw, n, rinit, lv, body, ind):
    """`for (const auto &x : list)`: the list expression is evaluated once (that is where the member is touched), then an index
    loop over the model's size / element functions"""
    sp = '  ' * ind
    r = lw.expr(rinit)
    lw.flush(sp)
    num = lw.loops
    lw.loops += 1
    rv, idx, cnt = '__r%d' % num, '__i%d' % num, '__n%d' % num
    lw.names.update((rv, idx, cnt))
    lw.loop_kinds[num] = ('list', idx, cnt)
    v = lv['inner'][0]
    lw.emit('%sqlist %s = %s;' % (sp, rv, r))
    lw.emit('%sint %s = qlist_size(%s);' % (sp, cnt, rv))
    lw.emit('%sint %s = 0;' % (sp, idx))
    lw.emit('%sfor (; %s < %s; %s++)' % (sp, idx, cnt, idx))
    lw.emit('%s/*@LOOP%d@*/' % (sp, num))
    lw.emit(sp + '{')
    cn, ct = lw.declare_local(v, sp)
    lw.emit('%s  %s %s = qlist_at(%s, %s);' % (sp, ct, cn, rv, idx))
    lw.block(body, ind + 1)
    lw.emit(sp + '}')


def rangefor_domkids(lw, n, rinit, lv, body, ind):
    """`for (const auto &child : iterChildElements(...))`: an abstract loop over the sequence of matching child elements; its loop
    contract comes from the spec file (the body assigns message members)"""
    sp = '  ' * ind
    r = lw.expr(rinit)
    lw.flush(sp)
    num = lw.loops
    lw.loops += 1
    rv, idx, cnt = '__r%d' % num, '__i%d' % num, '__n%d' % num
    lw.names.update((rv, idx, cnt))
    lw.loop_kinds[num] = ('domkids', idx, cnt)
    v = lv['inner'][0]
    lw.emit('%sqdomkids %s = %s;' % (sp, rv, r))
    lw.emit('%sint %s = qdomkids_size(%s);' % (sp, cnt, rv))
    lw.emit('%sint %s = 0;' % (sp, idx))
    lw.emit('%sfor (; %s < %s; %s++)' % (sp, idx, cnt, idx))
    lw.emit('%s/*@LOOP%d@*/' % (sp, num))
    lw.emit(sp + '{')
    cn, ct = lw.declare_local(v, sp)
    lw.emit('%s  %s %s = qdomkids_at(%s, %s);' % (sp, ct, cn, rv, idx))
    lw.block(body, ind + 1)
    lw.emit(sp + '}')


def sub_class_id(lw, tname):
    return lw.p.literal_ids.cexpr('class:' + tname)


def static_recogniser(lw, node, args):
    """X::isX(element): a pure predicate of the element, one uninterpreted predicate per class"""
    rd_ = lw.callee_ref(node)
    name = rd_.get('name', '?')
    return 'sub_is(%s, %s)' % (lw.p.literal_ids.cexpr('class:' + name), args[0])


def sub_parse(fn):
    def rule(lw, node, args):
        me = lw.skip(node['inner'][0])
        base = lw.skip(me['inner'][0])
        cls = strip_type(qt(base))
        f = fn + '_bool' if strip_type(qt(node)) == 'bool' else fn
        return '%s(%s, %s, %s)' % (f, Lowerer.addr_of(args[0]), sub_class_id(lw, cls), args[1])
    return rule


def base_extensions_to_xml(lw, node, args):
    """QXmppStanza::extensionsToXml(writer[, mode]) called on the message: the real base-class function (lowered), on the
    base-class subobject; an omitted mode is the default argument of the real declaration"""
    argn = node['inner'][1:]
    vals = list(args)
    if len(argn) > 1 and argn[1].get('kind') == 'CXXDefaultArgExpr':
        vals.append(lw.default_arg(argn[1]))
    if len(vals) != 3:
        raise Unsupported('extensionsToXml with %d arguments' % (len(vals) - 1))
    lw.repo_callees.add('QXmppStanza_extensionsToXml')
    return 'QXmppStanza_extensionsToXml(&(%s)->stanza, %s, %s)' % tuple(vals)


def std_move(lw, node, args):
    """std::move(x): the object itself (models are values; moved-from state is not modelled)"""
    return lw.expr(node['inner'][1])


def sub_from_dom(lw, node, args):
    cls = canon(qt(node))
    m = re.match(r'std::optional<(.*)>$', strip_type(qt(node)))
    return 'sub_fromDom(%s, %s)' % (sub_class_id(lw, m.group(1) if m else cls), args[0])


def init_pair(lw, n):
    """QXmppStanzaId { a, b } / Reply { a, b }: aggregate of two strings"""
    if len(n['inner']) != 2:
        raise Unsupported('aggregate with %d members' % len(n['inner']))
    a, b = [lw.expr(x) for x in n['inner']]
    return 'sub_make2(%s, %s, %s)' % (sub_class_id(lw, strip_type(qt(n))), a, b)


def local_lambda_call(name):
    """call of the immediately used local lambda `name` (closure conversion in place, DESIGN 4.2): the instantiated
    operator() whose parameter types match is lowered inline, captures refer to the enclosing function's locals"""
    def rule(lw, n):
        callee = lw.skip(n['inner'][0])
        var = callee['referencedDecl']
        lam = lw.lambdas.get(var['id'])
        if lam is None:
            raise Unsupported('call of local %s which is not a recorded lambda' % name)
        args = n['inner'][1:]
        rdm = lw.callee_ref(n)   # may be unresolved for a generic lambda: pick by argument types
        # find the instantiated operator() for these argument types
        cands = []
        for c in lam.get('inner', []):
            if c.get('kind') != 'CXXRecordDecl':
                continue
            for m in c.get('inner', []):
                subs = m.get('inner', []) if m.get('kind') == 'FunctionTemplateDecl' and m.get('name') == 'operator()' else [m]
                for s in subs:
                    if s.get('kind') == 'CXXMethodDecl' and s.get('name') == 'operator()' and astx.has_body(s) and 'auto' not in qt(s).split('->')[0].replace('auto (', '('):
                        cands.append(s)
        want = [lw.tkey(lw.skip(a)) for a in args]
        pick = None
        for s in cands:
            ps = [c for c in s['inner'] if c.get('kind') == 'ParmVarDecl']
            try:
                if len(ps) == len(want) and all(lw.ntype(p) == w for p, w in zip(ps, want)):
                    pick = s
                    break
            except Unsupported:
                continue
        if pick is None:
            raise Unsupported('no instantiation of lambda %s for argument types %s' % (name, want))
        lw.index_parents(pick, None)
        ps = [c for c in pick['inner'] if c.get('kind') == 'ParmVarDecl']
        body = [c for c in pick['inner'] if c.get('kind') == 'CompoundStmt'][0]
        # parameters become fresh locals initialised with the argument values (evaluated once, in order)
        saved_pre = lw.pre
        lw.pre = []
        vals = [lw.expr(a) for a in args]
        pre = lw.pre
        lw.pre = saved_pre
        lines = list(pre)
        lw.inline_depth = getattr(lw, 'inline_depth', 0) + 1
        k = lw.newtmp()
        for p_, v in zip(ps, vals):
            cn, ct = lw.declare_local(p_, '')
            lines.append('%s %s = %s;' % (ct, cn, v))
        # lower the body into a side buffer
        saved_out, saved_pre2 = lw.out, lw.pre
        lw.out, lw.pre = [], []
        if any(x.get('kind') == 'ReturnStmt' for x in walk(body)):
            raise Unsupported('local lambda %s returns a value / returns early' % name)
        lw.stmt(body, 0)
        inl = lw.out
        lw.out, lw.pre = saved_out, saved_pre2
        lw.pre.extend(lines)
        lw.pre.extend(inl)
        lw.fire('inline:lambda:' + name)
        return '((void)0)'
    return rule


def walk(n):
    if isinstance(n, dict):
        yield n
        for c in n.get('inner', []):
            yield from walk(c)


class L17F(L17):
    """function-level additions: local lambda declarations are recorded and inlined where they are called"""

    def __init__(self, *a, **k):
        super().__init__(*a, **k)
        self.lambdas = {}

    def vardecl(self, v, sp):
        if v.get('kind') == 'VarDecl':
            init = [c for c in v.get('inner', []) if isinstance(c, dict) and 'kind' in c]
            if init and self.skip(init[0]).get('kind') == 'LambdaExpr':
                lam = self.skip(init[0])
                self.lambdas[v['id']] = lam
                self.locals[v['id']] = ('/*lambda %s*/' % v['name'], 'lambda', False)
                self.fire('lambda:local:' + v['name'])
                self.emit('%s/* local lambda %s: lowered in place at its call sites */' % (sp, v['name']))
                return
        return super().vardecl(v, sp)

    def opcall(self, n):
        # call of a local generic lambda: operator() on a DeclRefExpr to the recorded variable
        rd_ = self.callee_ref(n)
        if rd_.get('name') == 'operator()':
            a0 = self.skip(n['inner'][1])
            if a0.get('kind') == 'DeclRefExpr' and a0['referencedDecl']['id'] in self.lambdas:
                m = dict(n)
                m['inner'] = [n['inner'][1]] + n['inner'][2:]
                return local_lambda_call(a0['referencedDecl']['name'])(self, m)
        return super().opcall(n)


def profile():
    p = opaque_profile(
        types={
            'QXmppMessage': 'QXmppMessage', 'QXmppStanza': 'QXmppStanza', MP: MP, SP: SP, PE: PE, 'QXmppPubSubEventBase': 'QXmppPubSubEventBase',
            'QXmlStreamWriter': 'qxw', 'QIODevice': 'qiodev', 'QDateTime': 'qdt', 'QByteArray': 'qba', 'QTimeZone': 'qtz',
            'QTextStream': 'qtextstream', 'QChar': 'int',
            'QXmpp::Private::DomChildElements': 'qdomkids', 'DomChildElements': 'qdomkids',
            'QIODevice::OpenMode': 'int', 'QFlags<QIODevice::OpenModeFlag>': 'int', 'QIODevice::OpenModeFlag': 'int',
            'qsub': 'qsub', 'qoptsub': 'qoptsub', 'qtable': 'qtable', 'qoptint': 'qoptint', 'qlist': 'qlist', 'qtable': 'qtable',
        },
        class_types=set(),
        calls={
            # ---- the mode predicate: the real operator& (lowered, verified against its truth table, used through its body)
            'op&:quint8:quint8': ('callee', 'QXmpp_SceMode_and'),
            # ---- d-pointer
            'op->:%s*' % MP: ('arg', 0),
            'op->:%s*' % SP: ('arg', 0),
            'op->:%s*' % PE: ('arg', 0),
            # QXmppPubSubEventBase (the one subclass that overrides serializeExtensions): the qualified base-class call and the pure virtual
            # serializeItems() of the item-type subclass (event stub: what an item serialiser writes is not verified here)
            'QXmppPubSubEventBase::serializeExtensions/3': ('expr', 'QXmppMessage_serializeExtensions(&({0})->message, {1}, {2}, {3})'),
            'QXmppPubSubEventBase::serializeItems/1': ('expr', 'pubsub_serializeItems({0}, {1})'),
            # ---- repository callees that are lowered themselves
            'QXmppMessage::hasHint/1': ('callee', 'QXmppMessage_hasHint'),
            'QXmppMessage::addHint/1': ('callee', 'QXmppMessage_addHint'),
            'QXmppMessage::encryptionName/0': ('callee', 'QXmppMessage_encryptionName'),
            'QXmppMessage::encryptionMethod/0': ('callee', 'QXmppMessage_encryptionMethod'),
            'fn:checkElement/3': ('callee', 'checkElement'),
            # QXmppStanza getters called on the message object: the real getters, lowered (base-class subobject of the model struct)
            'QXmppMessage::error/0': ('expr', 'QXmppStanza_error(&({0})->stanza)'),
            'qoptsub::operator const QXmppStanzaErrorPrivate */0': ('expr', '(const void *)(size_t)({0})'),   # QSharedDataPointer -> raw pointer (null iff empty)
            'ctor:qsub(qoptsub)': ('expr', '{0}'),        # QXmppStanza::Error { d->error }: the error value the shared pointer holds
            'QXmppMessage::id/0': ('expr', 'QXmppStanza_id(&({0})->stanza)'),
            'QXmppMessage::to/0': ('expr', 'QXmppStanza_to(&({0})->stanza)'),
            'QXmppMessage::from/0': ('expr', 'QXmppStanza_from(&({0})->stanza)'),
            'QXmppMessage::lang/0': ('expr', 'QXmppStanza_lang(&({0})->stanza)'),
            'QXmppMessage::serializeExtensions/2': ('callee', 'QXmppMessage_serializeExtensions'),
            'QXmppMessage::extensionsToXml/1': base_extensions_to_xml,
            'QXmppMessage::extensionsToXml/2': base_extensions_to_xml,
            # ---- strings
            'fn:toString65/1': ('arg', 0),
            'qstr::toUtf8/0': ('fn', 'qstr_toUtf8'),
            'qstr::mid/1': ('fn', 'qstr_mid'),
            'qstr::indexOf/1': ('fn', 'qstr_indexOf'),
            'qstr::replace/2': ('fnmut', 'qstr_replace'),
            'qstr::trimmed/0': ('fn', 'qstr_trimmed2'),
            'fn:as_const/1': std_move,
            'fn:move/1': std_move,
            # ---- XML writer (event stubs)
            'qxw::writeStartElement/1': ('fn', 'xw_writeStartElement'),
            'qxw::writeDefaultNamespace/1': ('fn', 'xw_writeDefaultNamespace'),
            'qxw::writeEndElement/0': ('fn', 'xw_writeEndElement'),
            'qxw::writeAttribute/2': ('fn', 'xw_writeAttribute'),
            'qxw::writeCharacters/1': ('fn', 'xw_writeCharacters'),
            'qxw::writeTextElement/2': ('fn', 'xw_writeTextElement'),
            'qxw::device/0': ('fn', 'xw_device'),
            'qiodev::write/1': ('fn', 'qiodev_write'),
            'fn:writeOptionalXmlAttribute/3': ('fn', 'writeOptionalXmlAttribute'),
            'fn:writeXmlTextElement/3': ('fn', 'writeXmlTextElement'),
            # ---- constant tables
            'qtable::size/0': ('expr', '{0}_size'),
            'qtable::at/1': ('expr', '{0}_at({1})'),
            'qtable::contains/1': ('expr', '{0}_indexOf({1}) >= 0'),
            'qtable::indexOf/1': ('expr', '{0}_indexOf({1})'),
            # QXmpp::Private::enumFromString(table, str) (QXmppUtils_p.h): index of the first equal entry, or nullopt (ASSUMED: std::find + std::distance)
            'fn:enumFromString/2': ('expr', '{0}_indexOf({1})'),
            # ---- optionals
            'qoptsub::operator bool/0': ('expr', '{0} != 0'),
            'op->:qoptsub': ('arg', 0),
            'op*:qoptsub': ('arg', 0),
            'qoptint::operator bool/0': ('expr', '{0} >= 0'),
            'qoptint::value_or/1': ('fn', 'qoptint_value_or'),
            'op*:qoptint': ('arg', 0),
            'op=:qoptsub:qsub': ('expr', '*{0} = opt_some({1})'),
            # ---- sub-objects
            'qsub::isValid/0': ('fn', 'sub_isValid'),
            'qsub::toXml/1': ('fn', 'sub_toXml'),
            'qsub::toXmlElementFromChild/1': ('fn', 'sub_toXml'),
            'qsub::parse/1': sub_parse('sub_parse'),
            'qsub::parseElementFromChild/1': sub_parse('sub_parse'),
            # ---- lists
            'rangefor:qlist': rangefor_list,
            'qlist::clear/0': ('fnmut', 'qlist_clear'),
            # QXmpp::Private::iterChildElements(parent, tag = {}, ns = {}) (QXmppUtils_p.h): the child elements of `parent` that match
            # the filters, in document order -- an abstract sequence (count and elements are functions of (parent, tag, ns)); ASSUMED
            'fn:iterChildElements/1': ('expr', 'qdomkids_of({0}, 0, 0)'),
            'fn:iterChildElements/2': ('expr', 'qdomkids_of({0}, {1}, 0)'),
            'fn:iterChildElements/3': ('expr', 'qdomkids_of({0}, {1}, {2})'),
            'rangefor:qdomkids': rangefor_domkids,
            'ctor:qsub(qdom)': ('expr', 'sub_of_dom({0})'),      # QXmppElement(const QDomElement &)
            'QXmppMessage::parseExtension/2': ('callee', 'QXmppMessage_parseExtension'),
            'QXmppMessage::parseExtensions/2': ('callee', 'QXmppMessage_parseExtensions'),
            'QXmppMessage::parse/1': ('expr', 'QXmppStanza_parse(&({0})->stanza, {1})'),       # QXmppStanza::parse(element) on the base-class subobject
            'QXmppMessage::setExtensions/1': ('expr', 'QXmppStanza_setExtensions(&({0})->stanza, {1})'),
            'qlist::push_back/1': ('fnmut', 'qlist_push_back'),
            'qlist::isEmpty/0': ('fn', 'qlist_isEmpty'),
            'op<<:qlist:qsub': ('expr', 'qlist_push_back(&{0}, {1})'),
            # ---- QDateTime
            'qdt::isValid/0': ('fn', 'qdt_isValid'),
            'qdt::isNull/0': ('fn', 'qdt_isNull'),
            'qdt::toUTC/0': ('fn', 'qdt_toUTC'),
            'qdt::toString/1': ('fn', 'qdt_toString'),
            'qdt::setTimeZone/1': ('fnmut', 'qdt_setTimeZone'),
            'fn:datetimeToString/1': ('expr', 'qdt_toString({0}, S_DATETIME_ISO)'),
            'fn:datetimeFromString/1': ('expr', 'qdt_fromString({0}, S_DATETIME_ISO)'),
            'fn:fromString/2': ('fn', 'qdt_fromString'),
            'ctor:qtz(int)': ('expr', '(qtz){0}'),
            'ctor:int(quint16)': ('expr', '(int){0}'),       # QChar(char16_t)
            'ctor:qtextstream(qstr*,int)': ('expr', 'qtextstream_open({0}, {1})'),
            # ---- DOM
            'qdom::firstChildElement/1': ('expr', 'qdom_firstChildElement({0}, {1}, 0)'),
            'qdom::save/2': ('fn', 'qdom_save'),
            # ---- encryption-name helpers
            'fn:encryptionFromString/1': ('fn', 'encryptionFromString'),
            'fn:encryptionToName/1': ('fn', 'encryptionToName'),
            # ---- static recognisers / factories of sub-object classes (pure functions of the element, ASSUMED)
            'fn:isJingleMessageInitiationElement/1': static_recogniser,
            'fn:isCallInviteElement/1': static_recogniser,
            'fn:isBitsOfBinaryData/1': static_recogniser,
            'fn:isTrustMessageElement/1': static_recogniser,
            'fn:isMessageReaction/1': static_recogniser,
            'fn:isOmemoElement/1': static_recogniser,
            'fn:fromDom/1': sub_from_dom,
            # ---- aggregates
            'expr:InitListExpr:qsub': init_pair,
        },
        pure_fns={'id'},
    )
    # members of aggregate sub-objects (QXmppStanzaId::id/by, Reply::to/id): uninterpreted projections of the value
    p.field_rules['qsub::d'] = 'sub_dptr({b})'      # QXmppStanza::Error::d (the shared error value inside an Error object)
    for f in ('id', 'by', 'to'):
        p.field_rules['qsub::' + f] = 'sub_field({b}, %s)' % p.literal_ids.cexpr('field:' + f)
    return p


# ------------------------------------------------------------------------------------------------- generated context
def record_model(src, cls, lw_cls, prof, public, both=()):
    """struct + field enum + taint accessors + classification table of a private record, from its CXXRecordDecl"""
    fields, decl = ctx.record_fields(os.path.join(REPO, src), cls, cls)
    lw = lw_cls({'inner': []}, cls, prof)
    lines, names, unmodelled = [], [], []
    for name, t in fields:
        try:
            ct = lw.ctype(t.get('qualType'))
        except Unsupported:
            try:
                ct = lw.ctype(t.get('desugaredQualType', t.get('qualType')))
            except Unsupported:
                ct = 'int'      # a member the code under contract never touches (touching it would fail in member()); keeps its taint slot
                unmodelled.append(name)
        lines.append('  %s %s;' % (ct, name))
        names.append((name, ct))
    up = cls.upper()
    out = ['/* generated from the record layout of %s (%s) */' % (cls, src),
           'typedef struct %s {\n%s\n} %s;' % (cls, '\n'.join(lines), cls),
           'enum { %s, %s_NFIELDS };' % (', '.join('F_%s_%s' % (cls, n) for n, _ in names), up),
           'bool gh_rd_%s[%s_NFIELDS]; bool gh_wr_%s[%s_NFIELDS];' % (cls, up, cls, up)]
    for n, ct in names:
        out.append('static inline %s *%s_r_%s(const %s *p) { gh_rd_%s[F_%s_%s] = true; return (%s *)&p->%s; }' % (ct, cls, n, cls, cls, cls, n, ct, n))
        out.append('static inline %s *%s_w_%s(%s *p) { gh_wr_%s[F_%s_%s] = true; return &p->%s; }' % (ct, cls, n, cls, cls, cls, n, n))
    klass = {}
    for n, _ in names:
        klass[n] = CLS_PUBLIC if n in public else CLS_BOTH if n in both else CLS_SENSITIVE
    missing = [n for n in list(public) + list(both) if n not in klass and n != 'omemoElement']
    if missing:
        raise Unsupported('classification names members that are not in the record layout of %s: %s (renamed?)' % (cls, ', '.join(missing)))
    out.append('/* classification (from the property statement; unnamed members are SENSITIVE): 0 sensitive, 1 public, 2 both parts */')
    out.append('static const unsigned char CLASS_%s[%s_NFIELDS] = { %s };' % (cls, up, ', '.join('%d /*%s*/' % (klass[n], n) for n, _ in names)))
    return '\n'.join(out) + '\n', [n for n, _ in names], klass, unmodelled


def extract_default(src, filt, name, index, prof):
    """the default argument of parameter `index` of method `name`, lowered from the declaration that carries it"""
    docs, _ = astx.dump(os.path.join(REPO, src), filt)
    found = []
    for d in docs:
        for x in walk(d):
            if x.get('kind') in ('CXXMethodDecl', 'FunctionDecl') and x.get('name') == name:
                ps = [c for c in x.get('inner', []) if c.get('kind') == 'ParmVarDecl']
                if index < len(ps):
                    init = [c for c in ps[index].get('inner', []) if isinstance(c, dict) and 'kind' in c and not c['kind'].endswith('Comment')]
                    if init:
                        found.append(init[0])
    if not found:
        raise astx.ExtractError('no default argument found for parameter %d of %s' % (index, name))
    lw = L17({'inner': []}, name, prof)
    exprs = {lw.expr(f) for f in found}
    if len(exprs) != 1 or lw.pre:
        raise Unsupported('default argument of %s#%d is not a single constant expression' % (name, index))
    return exprs.pop(), lw.need_enums


def table_models(srcs, names, prof):
    """constant string tables (HINT_TYPES, CHAT_STATES, ...) copied entry by entry from the initialiser in the AST; lookups are
    unrolled comparisons (no loop in a model)"""
    out = []
    for name in sorted(names):
        src = srcs[name]
        decls = [d for d in astx.find_decls(src, name, 'VarDecl', name) if d.get('inner')]
        if len({d['id'] for d in decls}) != 1:
            raise astx.ExtractError('table %s: %d definitions' % (name, len(decls)))
        lists = [x for x in walk(decls[0]) if x.get('kind') == 'InitListExpr']
        if not lists:
            raise Unsupported('table %s has no initialiser list' % name)
        src = os.path.relpath(src, REPO)
        il = max(lists, key=lambda x: len(x.get('inner', [])))
        ids = []
        for e in il['inner']:
            s_ = find_string(e)
            ids.append(prof.literal_ids.cexpr(s_) if s_ else '0 /*empty*/')
        n = len(ids)
        out.append('/* table %s (%s): %d entries copied from the AST */' % (name, src, n))
        out.append('#define TBL_%s_size %d' % (name, n))
        out.append('qstr __CPROVER_uninterpreted_table_oob_%s(long i);' % name)
        out.append('static inline qstr TBL_%s_at(long i) { %s return __CPROVER_uninterpreted_table_oob_%s(i); }' % (
            name, ' '.join('if (i == %d) return %s;' % (k, v) for k, v in enumerate(ids)), name))
        out.append('static inline int TBL_%s_indexOf(qstr s) { %s return -1; }' % (name, ' '.join('if (s == %s) return %d;' % (v, k) for k, v in enumerate(ids))))
    return '\n'.join(out) + '\n'


# ------------------------------------------------------------------------------------------------- structure report
def guard_of(lw, node):
    """the mode guard (`if (sceMode & ScePublic)` ...) that encloses `node` in the real AST, or 'unguarded'"""
    cur = node
    guards = []
    while cur is not None:
        par = lw.parent.get(cur.get('id'))
        if par is not None and par.get('kind') == 'IfStmt':
            inner = [c for c in par['inner']]
            cond = inner[0]
            if cur is not cond and cur is inner[1]:
                for x in walk(cond):
                    if x.get('kind') == 'CXXOperatorCallExpr' and lw.callee_ref(x).get('name') == 'operator&':
                        ops = [lw.skip(o) for o in x['inner'][1:]]
                        consts = [o['referencedDecl']['name'] for o in ops if o.get('kind') == 'DeclRefExpr' and o['referencedDecl'].get('kind') == 'EnumConstantDecl']
                        guards.extend(consts)
                    if x.get('kind') == 'BinaryOperator' and x.get('opcode') == '==':
                        ops = [lw.skip(o) for o in x['inner']]
                        ops = [lw.skip(o['inner'][0]) if o.get('kind') == 'ImplicitCastExpr' else o for o in ops]
                        consts = [o['referencedDecl']['name'] for o in ops if o.get('kind') == 'DeclRefExpr' and o['referencedDecl'].get('kind') == 'EnumConstantDecl' and 'SceMode' in o['referencedDecl'].get('type', {}).get('qualType', '')]
                        guards.extend('only-' + c for c in consts)
        cur = par
    return '+'.join(sorted(set(guards))) or 'unguarded'


def structure(lw, callee_members):
    """{member: set(guards)} for one lowered function: direct member accesses plus the members its lowered callees touch"""
    out = {}
    for x in walk(lw.decl):
        if x.get('kind') == 'MemberExpr' and x.get('name'):
            base = lw.skip(x['inner'][0]) if x.get('inner') else None
            if base is None:
                continue
            try:
                bt = lw.tkey(base).rstrip('*')
            except Exception:
                continue
            if bt in lw.tracked and x['name'] in lw.tracked[bt]:
                out.setdefault('%s::%s' % (bt, x['name']), set()).add(guard_of(lw, x))
            elif x['name'] in callee_members and lw.parent.get(x.get('id'), {}).get('kind') == 'CXXMemberCallExpr':
                for m in callee_members[x['name']]:
                    out.setdefault(m, set()).add(guard_of(lw, x))
    return out


# ------------------------------------------------------------------------------------------------- build
def loop_specs(lw, spec, extra_assigns):
    """loop contracts of the list loops are generated (all have the same abstract shape).  `## loop k` of the spec file means the
    k-th for/while loop of the function (list loops not counted), so that moving a block does not renumber it."""
    for_ordinals = sorted(num for num, kind in lw.loop_kinds.items() if kind[0] != 'list')
    file_loops, file_labels = dict(spec.loops), dict(spec.inv_labels)
    if len(file_loops) != len(for_ordinals) or any(k >= len(for_ordinals) for k in file_loops):
        raise Unsupported('%s has %d for/while loops but its specification has loop contracts for %d' % (lw.cname, len(for_ordinals), len(file_loops)))
    spec.loops, spec.inv_labels = {}, {}
    for k, text in file_loops.items():
        spec.loops[for_ordinals[k]] = text
        spec.inv_labels[for_ordinals[k]] = file_labels.get(k, [])
    for num, kind in lw.loop_kinds.items():
        if kind[0] == 'list':
            _, idx, cnt = kind
            spec.loops[num] = ('__CPROVER_assigns(%s, gh_events%s)\n'
                               '__CPROVER_loop_invariant(0 <= %s && %s <= %s)\n'
                               '__CPROVER_loop_invariant(0 <= gh_events && gh_events <= 1000000)\n'
                               '__CPROVER_loop_invariant(__CPROVER_loop_entry(gh_events) <= gh_events)\n'
                               '__CPROVER_decreases(%s - %s)' % (idx, extra_assigns, idx, idx, cnt, cnt, idx))
            spec.inv_labels[num] = ['inv.list_index_in_range', 'inv.event_counter_in_range', 'inv.event_counter_never_decreases']
    spec.first_for = for_ordinals[0] if for_ordinals else None


SRC_CLIENT = 'src/client/QXmppClient.cpp'


def callsite_modes(prof):
    """(line, lowered mode argument) of every two-argument toXml() call inside QXmppClient::sendSensitive (template definition and
    instantiations of the nested lambdas give the same source line several times: one entry per line and expression)"""
    d = astx.find_function(os.path.join(REPO, SRC_CLIENT), 'QXmppClient::sendSensitive', 'sendSensitive')
    lw = L17(d, 'sendSensitive', prof)
    out = set()
    for x in walk(d):
        if x.get('kind') == 'CXXMemberCallExpr' and len(x.get('inner', [])) == 3:
            me = lw.skip(x['inner'][0])
            if me.get('kind') == 'MemberExpr' and me.get('name') == 'toXml':
                from vlib.cxx2c import line_of
                out.add((line_of(x) or 0, lw.expr(x['inner'][2])))
    if not out:
        raise Unsupported('no toXml(writer, mode) call found in QXmppClient::sendSensitive (the closed-world premise of the call-site fact is gone)')
    return sorted(out)


# ghost hook (DESIGN 5.8): the event counter at the moment the base-class call of the PubSub override returned
HOOKS = [{'id': 'events_after_base_call', 'fn': 'QXmppPubSubEventBase_serializeExtensions', 'after': r'^\s*\(QXmppMessage_serializeExtensions\(&\(self\)->message',
          'emit': 'gh_events_after_base = gh_events;', 'count': 1}]

# closed-world premise of the mode contracts: which classes define serializeExtensions / an SCE-mode parseExtension
KNOWN_DEFINERS = {'serializeExtensions': {'QXmppMessage', 'QXmppPubSubEventBase'},
                  'parseExtension': {'QXmppMessage', 'QXmppPubSubEventBase', 'QXmppPresence'}}   # QXmppPresence::parseExtension has no SCE mode


def override_inventory():
    """every out-of-line definition `X::serializeExtensions(` / `X::parseExtension(` and every in-class declaration of them under
    /repo/src (omemo is not built); a definer the unit does not know is exit 2 (the closed-world premise is gone), not a silent pass"""
    found = {'serializeExtensions': set(), 'parseExtension': set()}
    root = os.path.join(REPO, 'src')
    for dp, dn, fn in os.walk(root):
        if os.path.basename(dp) == 'omemo':
            continue
        for f in fn:
            if not f.endswith(('.h', '.cpp')):
                continue
            text = open(os.path.join(dp, f), errors='replace').read()
            for m in re.finditer(r'\b(\w+)::(serializeExtensions|parseExtension)\s*\([^;{]*\)\s*(const\s*)?\{', text):
                found[m.group(2)].add(m.group(1))
            if f.endswith('.h'):
                cur = None
                for line in text.splitlines():
                    if line.lstrip().startswith(('//', '*', '/*')):
                        continue
                    mc = re.match(r'(?:class|struct)\s+(?:QXMPP_EXPORT\s+)?(\w+)\b[^;]*$', line)
                    if mc:
                        cur = mc.group(1)
                    mm = re.search(r'\b(serializeExtensions|parseExtension)\s*\(', line)
                    if mm and cur:
                        found[mm.group(1)].add(cur)
    for k, v in found.items():
        extra = v - KNOWN_DEFINERS[k]
        if extra:
            raise Unsupported('%s is also defined/declared by %s: the unit covers only %s (closed-world premise of the mode contracts)' % (k, ', '.join(sorted(extra)), ', '.join(sorted(KNOWN_DEFINERS[k]))))
    return {k: sorted(v) for k, v in found.items()}


def prefetch(keys, jobs=6):
    """run the clang AST dumps of several (source, filter) pairs concurrently; astx caches them for the sequential code below"""
    from concurrent.futures import ThreadPoolExecutor
    from vlib import configure
    configure.configure()      # once, before the threads start: concurrent first calls would run cmake twice into the same directory

    def one(k):
        try:
            astx.dump(os.path.join(REPO, k[0]), k[1])
        except Exception:
            pass       # the sequential code reports the error in its own words
    with ThreadPoolExecutor(max_workers=jobs) as ex:
        list(ex.map(one, keys))


def build(work, tier):
    prof = profile()
    prefetch([(SRC_PUBSUB, 'QXmppPubSubEventBase::serializeExtensions'), (SRC_PUBSUB, PE)] + [(SRC, f) for f in ('QXmpp::operator&', 'QXmppMessage::parseExtensions', 'QXmppMessage::parse', 'QXmppMessage::hasHint', 'QXmppMessage::addHint', 'QXmppMessage::encryptionMethod',
                                 'QXmppMessage::encryptionName', 'checkElement', 'QXmppMessage::serializeExtensions', 'QXmppMessage::parseExtension',
                                 'QXmppMessage::toXml', MP, 'SceMode')] +
             [(SRC_STANZA, f) for f in ('QXmppStanza::id', 'QXmppStanza::setExtensions', 'QXmppStanza::parse', 'QXmppStanza::to', 'QXmppStanza::from', 'QXmppStanza::lang', 'QXmppStanza::error',
                                        'QXmppStanza::extensionsToXml', SP, 'SceMode')] + [(SRC_CLIENT, 'QXmppClient::sendSensitive'), (SRC_CLIENT, 'QXmppClientPrivate'), (SRC, 'QXmppMessage::toXml')])
    for cls, src in ((MP, SRC), (SP, SRC_STANZA), (PE, SRC_PUBSUB)):
        fields, _ = ctx.record_fields(os.path.join(REPO, src), cls, cls)
        L17.tracked[cls] = {f[0] for f in fields}
    prof.hooks = HOOKS
    overrides = override_inventory()
    prof.default_values = {('extensionsToXml', 1): extract_default(SRC_STANZA, 'QXmppStanza::extensionsToXml', 'extensionsToXml', 1, prof)}
    b = Builder('C17', work, prof)
    texts, specs, lws = {}, {}, {}

    def lower(src, filt, name, cname, this=None, specf=None, **kw):
        t = Target(src, filt, name, cname, this=this, lowerer_cls=L17F, **kw)
        sp = b.spec(specf) if specf else None
        # two passes are not needed: the list-loop contracts are spliced after lowering (markers kept)
        txt = b.lower(t, None, keep_markers=True)
        lw = b.last
        if sp is None:
            sp = Spec('## contract\n')
        loop_specs(lw, sp, '')
        from vlib.cxx2c import apply_splices
        txt = apply_splices(txt, sp.contract, sp.loops)
        txt = re.sub(r'/\*@(CONTRACT|LOOP\d+)@\*/\n?', '', txt)
        texts[cname], specs[cname], lws[cname] = txt, sp, lw
        return txt

    lower(SRC, 'QXmpp::operator&', 'operator&', 'QXmpp_SceMode_and', specf='sceand.spec', sig='QXmpp::SceMode, QXmpp::SceMode')
    lower(SRC, 'QXmppMessage::hasHint', 'hasHint', 'QXmppMessage_hasHint', this='QXmppMessage')
    lower(SRC, 'QXmppMessage::addHint', 'addHint', 'QXmppMessage_addHint', this='QXmppMessage')
    lower(SRC, 'QXmppMessage::encryptionMethod', 'encryptionMethod', 'QXmppMessage_encryptionMethod', this='QXmppMessage')
    lower(SRC, 'QXmppMessage::encryptionName', 'encryptionName', 'QXmppMessage_encryptionName', this='QXmppMessage')
    lower(SRC, 'checkElement', 'checkElement', 'checkElement')
    for g in ('id', 'to', 'from', 'lang', 'error'):
        lower(SRC_STANZA, 'QXmppStanza::' + g, g, 'QXmppStanza_' + g, this='QXmppStanza', nparams=0)
    lower(SRC_STANZA, 'QXmppStanza::extensionsToXml', 'extensionsToXml', 'QXmppStanza_extensionsToXml', this='QXmppStanza', specf='ext.spec')
    lower(SRC, 'QXmppMessage::serializeExtensions', 'serializeExtensions', 'QXmppMessage_serializeExtensions', this='QXmppMessage', specf='serialize.spec')
    lower(SRC, 'QXmppMessage::parseExtension', 'parseExtension', 'QXmppMessage_parseExtension', this='QXmppMessage', specf='parse.spec')
    lower(SRC_STANZA, 'QXmppStanza::setExtensions', 'setExtensions', 'QXmppStanza_setExtensions', this='QXmppStanza')
    lower(SRC, 'QXmppMessage::parseExtensions', 'parseExtensions', 'QXmppMessage_parseExtensions', this='QXmppMessage', specf='parseExtensions.spec')
    lower(SRC_STANZA, 'QXmppStanza::parse', 'parse', 'QXmppStanza_parse', this='QXmppStanza', specf='stanzaparse.spec', nparams=1)
    lower(SRC, 'QXmppMessage::parse', 'parse', 'QXmppMessage_parse', this='QXmppMessage', specf='messageparse.spec', nparams=2)
    lower(SRC_PUBSUB, 'QXmppPubSubEventBase::serializeExtensions', 'serializeExtensions', 'QXmppPubSubEventBase_serializeExtensions', this='QXmppPubSubEventBase',
          specf='pubsub_serialize.spec')
    lower(SRC, 'QXmppMessage::toXml', 'toXml', 'QXmppMessage_toXml', this='QXmppMessage', specf='toxml.spec', nparams=2)
    # the helpers are part of the verified text (used through their bodies): keep them in the evidence, marked as such
    helpers = ['QXmppMessage_hasHint', 'QXmppMessage_addHint', 'QXmppMessage_encryptionMethod', 'QXmppMessage_encryptionName', 'checkElement',
               'QXmppStanza_id', 'QXmppStanza_to', 'QXmppStanza_from', 'QXmppStanza_lang', 'QXmppStanza_error', 'QXmppStanza_setExtensions']

    for f_ in b.functions:
        f_['role'] = 'helper, used through its lowered body' if f_['cname'] in helpers else 'under contract'

    # enum constants named by the specifications
    srcp = os.path.join(REPO, SRC)
    b.need_enums.setdefault((srcp, ()), {}).setdefault('QXmpp::SceMode', set()).update({'SceAll', 'ScePublic', 'SceSensitive'})

    rec_m, names_m, klass_m, unm_m = record_model(SRC, MP, L17, prof, PUBLIC_MEMBERS, BOTH_MEMBERS)
    rec_s, names_s, klass_s, unm_s = record_model(SRC_STANZA, SP, L17, prof, PUBLIC_STANZA_MEMBERS)
    rec_e, names_e, klass_e, unm_e = record_model(SRC_PUBSUB, PE, L17, prof, {})       # no member of the event payload is public
    tables = {}
    for lw in lws.values():
        for t in lw.tables_used:
            tables[t] = lw.source_files[0]
    model = b.subst(rd('model.h'))
    spec_h = rd('spec.h')
    lemma_h = rd('lemma.h')
    prefetch([(os.path.relpath(src_, REPO), g) for (src_, _), gs in b.need_globals.items() for g in gs] +
             [(os.path.relpath(src_, REPO), et if '::' in et else et.split('::')[-1]) for (src_, _), es in b.need_enums.items() for et in es] +
             [(os.path.relpath(src_, REPO), t) for t, src_ in tables.items()])
    seen, lines = set(), []
    for line in b.context().split('\n'):        # the same enum / namespace constant is needed by both translation units
        if line.strip() and line in seen:
            continue
        seen.add(line)
        lines.append(line)
    ctxt = '\n'.join(lines)
    tbl = table_models(tables, tables, prof)
    head = ('#include "opaque.h"\n' + prof.literal_ids.table() + ctxt + '\n' + model + rec_m + rec_s + rec_e +
            'typedef struct QXmppStanza { %s *d; } QXmppStanza;\ntypedef struct QXmppMessage { QXmppStanza stanza; %s *d; } QXmppMessage;\n' % (SP, MP) +
            'typedef struct QXmppPubSubEventBase { QXmppMessage message; %s *d; } QXmppPubSubEventBase;\n' % PE +
            tbl + spec_h)
    havoc = ('g_f = nondet_int(); g_s = nondet_int(); gh_events = nondet_int(); '
             '__CPROVER_havoc_object(gh_rd_%s); __CPROVER_havoc_object(gh_wr_%s); __CPROVER_havoc_object(gh_rd_%s); __CPROVER_havoc_object(gh_wr_%s); ' % (MP, MP, SP, SP) +
             'g_e = nondet_int(); gh_events_after_base = nondet_int(); __CPROVER_havoc_object(gh_rd_%s); __CPROVER_havoc_object(gh_wr_%s); ' % (PE, PE))

    def body_of(cname):
        """a helper / callee used through its body: the lowered text without its own contract clauses"""
        t = texts[cname]
        i = t.index('\n{')
        sig = t[:i].split('\n')[0]
        return sig + t[i:] + '\n'

    base_helpers = ''.join(body_of(h) for h in ['QXmpp_SceMode_and'] + helpers)
    proofs = []

    def add(pid, cname, text, harness, kind, defines=(), finding=None, expect_loops=0, note='', timeout=900, labels_from=None):
        f = b.write(pid + '.c', head + text + '\nvoid h_%s(void) { %s %s }\n' % (pid, havoc, harness))
        p = Proof(pid, f, 'h_' + pid, enforce=cname, kind=kind, include_dirs=[QT], timeout=timeout, loop_contracts=(kind == 'contract'),
                  expect_loops=expect_loops, defines=list(defines), note=note)
        sp = specs.get(labels_from or cname)
        if sp is not None:
            p.labels = {'post': {cname: sp.labels}}
            p.expect_post = len(sp.labels)
        if finding:
            p.finding = finding
        proofs.append(p)
        return p

    # 1. the mode predicate
    add('sce_mode_predicate', 'QXmpp_SceMode_and', texts['QXmpp_SceMode_and'], 'quint8 a, b; QXmpp_SceMode_and(a, b);', 'complete',
        note='loop-free; all 9 pairs of modes')
    # 2. serializeExtensions
    ser = base_helpers + texts['QXmppMessage_serializeExtensions']
    add('serializeExtensions', 'QXmppMessage_serializeExtensions', ser,
        'const QXmppMessage *self; qxw *writer; quint8 m; qstr ns; QXmppMessage_serializeExtensions(self, writer, m, ns);', 'contract', expect_loops=1,
        note='every message state (lists of any length: loop contracts), every mode, every base namespace; stated for one arbitrary member of the record')
    # 2b. the one override of serializeExtensions in the tree: QXmppPubSubEventBase (base-class call through the verified contract)
    pse = base_helpers + b.prototype(texts['QXmppMessage_serializeExtensions']) + texts['QXmppPubSubEventBase_serializeExtensions']
    p = add('pubsub_serializeExtensions', 'QXmppPubSubEventBase_serializeExtensions', pse,
            'const QXmppPubSubEventBase *self; qxw *writer; quint8 m; qstr ns; QXmppPubSubEventBase_serializeExtensions(self, writer, m, ns);', 'contract', expect_loops=1,
            note='every event state (retract id lists of any length), every mode; QXmppMessage::serializeExtensions through its verified contract; serializeItems() of the item subclass as an event stub')
    p.replace = ['QXmppMessage_serializeExtensions']
    # 3. parseExtension: JMI / call-invite finding split
    par = base_helpers + texts['QXmppMessage_parseExtension']
    hp = 'QXmppMessage *self; qdom e; quint8 m; QXmppMessage_parseExtension(self, e, m);'
    add('parseExtension', 'QXmppMessage_parseExtension', par, hp, 'complete', defines=['FINDING_EXCLUDED_JMI'],
        note='loop-free; every element, every mode, every prior message state; every member except the two of finding C17-jmi-callinvite-parsed-public')
    add('parseExtension_jmi_callinvite', 'QXmppMessage_parseExtension', par, hp, 'complete', defines=['FINDING_ONLY_JMI'], finding='C17-jmi-callinvite-parsed-public',
        note='restricted to the members jingleMessageInitiationElement / callInviteElement (recorded finding)')
    # 3b. parseExtensions (the child loop): parseExtension enters through the contract it is verified against above; the unknown
    #     children are stored with setExtensions() in every mode, which for ScePublic is the parse side of the recorded finding
    pxs = base_helpers + b.prototype(texts['QXmppMessage_parseExtension'], keep_ensures=4) + texts['QXmppMessage_parseExtensions']   # the loop needs the four mode postconditions only
    hx = 'QXmppMessage *self; qdom e; quint8 m; QXmppMessage_parseExtensions(self, e, m);'
    for pid, dfn, fnd, note in (('parseExtensions', 'FINDING_EXCLUDED_EXT', None,
                                 'every element with any number of children (loop contract), every mode, every prior message state; parseExtension through its verified contract; every stanza member except `extensions`'),
                                ('parseExtensions_unknown_extensions', 'FINDING_ONLY_EXT', 'C17-unknown-extensions-public',
                                 'restricted to the stanza member `extensions` (recorded finding: unknown elements are treated as public)')):
        p = add(pid, 'QXmppMessage_parseExtensions', pxs, hx, 'contract', defines=[dfn], finding=fnd, expect_loops=1, note=note)
        p.replace = ['QXmppMessage_parseExtension']
    # 3c. QXmppStanza::parse (stanza header) and QXmppMessage::parse(element, mode) = header + type + parseExtensions, the two callees
    #     through the contracts they are verified against
    add('stanza_parse', 'QXmppStanza_parse', texts['QXmppStanza_parse'], 'QXmppStanza *self; qdom e; QXmppStanza_parse(self, e);', 'contract', expect_loops=1,
        note='every element (any number of <address/> children: loop contract), every prior stanza state')
    mps = (base_helpers + b.prototype(texts['QXmppStanza_parse']) + b.prototype(texts['QXmppMessage_parseExtensions']) + texts['QXmppMessage_parse'])
    hm = 'QXmppMessage *self; qdom e; quint8 m; QXmppMessage_parse(self, e, m);'
    # (no run restricted to the finding here: under its discriminator the contract of parseExtensions is the very thing that fails,
    #  see parseExtensions_unknown_extensions, so using it as an assumption would be vacuous)
    p = add('message_parse', 'QXmppMessage_parse', mps, hm, 'complete', defines=['FINDING_EXCLUDED_EXT'],
            note='loop-free; QXmppStanza::parse and parseExtensions through their verified contracts; every stanza member except `extensions`')
    p.replace = ['QXmppStanza_parse', 'QXmppMessage_parseExtensions']
    # 4. QXmppStanza::extensionsToXml: unknown-extensions finding split
    ext = body_of('QXmpp_SceMode_and') + texts['QXmppStanza_extensionsToXml']
    he = 'const QXmppStanza *self; qxw *w; quint8 m; QXmppStanza_extensionsToXml(self, w, m);'
    add('extensionsToXml', 'QXmppStanza_extensionsToXml', ext, he, 'contract', defines=['FINDING_EXCLUDED_EXT'], expect_loops=1,
        note='every stanza state, every mode; every member except `extensions` (finding C17-unknown-extensions-public)')
    add('extensionsToXml_unknown_extensions', 'QXmppStanza_extensionsToXml', ext, he, 'contract', defines=['FINDING_ONLY_EXT'], expect_loops=1,
        finding='C17-unknown-extensions-public', note='restricted to the member `extensions` (recorded finding)')
    # 5. toXml(writer, mode): serializeExtensions and extensionsToXml used through their bodies
    tox = base_helpers + body_of('QXmppStanza_extensionsToXml') + body_of('QXmppMessage_serializeExtensions') + texts['QXmppMessage_toXml']
    ht = 'const QXmppMessage *self; qxw *w; quint8 m; QXmppMessage_toXml(self, w, m);'
    add('toXml', 'QXmppMessage_toXml', tox, ht, 'contract', defines=['FINDING_EXCLUDED_EXT'], expect_loops=1,
        note='every message and stanza state, every mode; every stanza member except `extensions`')
    add('toXml_unknown_extensions', 'QXmppMessage_toXml', tox, ht, 'contract', defines=['FINDING_ONLY_EXT'], expect_loops=1,
        finding='C17-unknown-extensions-public', note='restricted to the stanza member `extensions` (recorded finding)')
    # 6. three-mode lemma over the real serializeExtensions
    lem = base_helpers + body_of('QXmppMessage_serializeExtensions') + lemma_h[:lemma_h.index('/* "serialise-class(f) = parse-class(f)"')]
    p = add('lemma_each_element_in_exactly_one_part', 'lemma_three_modes', lem,
            'const QXmppMessage *self; qxw *w; qstr ns; lemma_three_modes(self, w, ns);', 'contract', expect_loops=1,
            note='one arbitrary message state serialised by the real serializeExtensions in SceAll, ScePublic and SceSensitive')
    p.labels = {'post': {'lemma_three_modes': ['lemma.read_in_combined_mode_iff_read_in_exactly_one_split_mode', 'lemma.no_member_is_read_in_both_split_modes']}}
    p.expect_post = 2

    # 6b. serialise class = parse class, member by member, without the classification table (finding split)
    i1, i2 = lemma_h.index('void lemma_three_modes'), lemma_h.index('/* "serialise-class(f) = parse-class(f)"')
    lem2 = base_helpers + body_of('QXmppMessage_serializeExtensions') + body_of('QXmppMessage_parseExtension') + lemma_h[:i1] + lemma_h[i2:]
    hl = 'const QXmppMessage *a; qxw *w; qstr ns; QXmppMessage *r; qdom e; lemma_class_consistency(a, w, ns, r, e);'
    labs = ['lemma.member_written_into_the_sensitive_part_is_not_assigned_by_the_public_part_parser',
            'lemma.member_written_into_the_public_part_is_not_assigned_by_the_sensitive_part_parser']
    for pid, dfn, fnd, note in (('lemma_serialise_class_equals_parse_class', 'FINDING_EXCLUDED_JMI', None,
                                 'real serializeExtensions on one arbitrary message, real parseExtension on one arbitrary element; every member except the two of the recorded finding'),
                                ('lemma_serialise_class_equals_parse_class_jmi_callinvite', 'FINDING_ONLY_JMI', 'C17-jmi-callinvite-parsed-public',
                                 'restricted to jingleMessageInitiationElement / callInviteElement (recorded finding)')):
        p = add(pid, 'lemma_class_consistency', lem2, hl, 'contract', defines=[dfn], finding=fnd, expect_loops=1, note=note)
        p.labels = {'post': {'lemma_class_consistency': labs}}
        p.expect_post = 2
    # the first lemma's text must not contain the second lemma (it calls parseExtension, which that file does not have)
    # 7. call-site fact (DESIGN 5.7): the encrypted send path serialises the outer stanza in public mode.  Every toXml(writer, mode)
    #    call inside QXmppClient::sendSensitive is taken from the AST; its mode argument is lowered and compared with ScePublic.
    sites = callsite_modes(prof)
    asserts = ''.join('  __CPROVER_assert((%s) == QXmpp_SceMode__ScePublic, "[post.encrypted_send_path_serialises_the_outer_stanza_in_public_mode] toXml call at %s:%d");\n' % (e, SRC_CLIENT, ln)
                      for ln, e in sites)
    f = b.write('sendSensitive_callsite.c', head + 'void h_sendSensitive_callsite(void) {\n' + asserts + '}\n')
    p = Proof('sendSensitive_callsite', f, 'h_sendSensitive_callsite', enforce=None, kind='complete', include_dirs=[QT], timeout=120, loop_contracts=False,
              note='call-site inventory: every message->toXml(writer, mode) in QXmppClient::sendSensitive (%d site(s)) passes ScePublic' % len(sites))
    p.labels = {}
    p.expect_post = len(sites)
    proofs.append(p)

    # 8. QXmppClient::sendSensitive: dispatch between the encrypted (ScePublic) and the plain (combined mode) send path, and the
    #    message arm of its continuation (units/C17/client.py, own value model of the stanza object)
    import client as client_part
    m_enum = re.search(r'^enum \{[^}]*QXmpp_SceMode__SceAll[^}]*\};', ctxt, re.M)
    if not m_enum:
        raise Unsupported('enum QXmpp::SceMode not in the extracted context')
    c_proofs, c_functions, c_dropped, c_fired, c_text = client_part.build_client(work, L17F, m_enum.group(0))
    proofs.extend(c_proofs)
    b.functions.extend(c_functions)
    b.dropped.extend(c_dropped)
    for k, v in c_fired.items():
        b.fired[k] = b.fired.get(k, 0) + v

    # ---------------------------------------------------------------- mechanical structure report (explanation only)
    callee_members = {'hasHint': [MP + '::hints'], 'addHint': [MP + '::hints'], 'encryptionName': [MP + '::encryptionName', MP + '::encryptionMethod'],
                      'encryptionMethod': [MP + '::encryptionMethod']}
    s_ser = structure(lws['QXmppMessage_serializeExtensions'], callee_members)
    s_par = structure(lws['QXmppMessage_parseExtension'], callee_members)
    rows = []
    for n in names_m:
        key = MP + '::' + n
        rows.append('%s: class=%s serialised-under={%s} parsed-under={%s}' % (
            n, ('sensitive', 'public', 'both')[klass_m[n]], ','.join(sorted(s_ser.get(key, []))) or '-', ','.join(sorted(s_par.get(key, []))) or '-'))
    def norm(gs):
        return set(t for g in gs for t in g.split('+') if not t.startswith('only-'))
    mism = [n for n in names_m if s_ser.get(MP + '::' + n) and s_par.get(MP + '::' + n) and norm(s_ser[MP + '::' + n]) != norm(s_par[MP + '::' + n])]

    alltext = model + spec_h + lemma_h + c_text + open(os.path.join(QT, 'opaque.h')).read()
    return {
        'proofs': proofs, 'functions': b.functions, 'dropped': b.dropped, 'fired': b.fired, 'hooks': [],
        'assumed': ASSUMED + client_part.ASSUMED + ['member of %s without a value model (only its taint slot exists; touching it is a lowering error): %s' % (c, ', '.join(u)) for c, u in ((MP, unm_m), (SP, unm_s)) if u],
        'assumes': scan_assumes(alltext),
        'not_covered': NOT_COVERED + client_part.NOT_COVERED,
        'explanation': 'definers of serializeExtensions / parseExtension found under src/ (omemo excluded): %s. ' % json.dumps(overrides) + 'mode-guard structure extracted from the AST of this run (member: class from the property statement; guards of the real '
                       'serializeExtensions / parseExtension blocks that access it): ' + '; '.join(rows) +
                       ' || members whose serialise guard differs from their parse guard: ' + (', '.join(mism) or 'none'),
    }


ASSUMED = [
    'classification of the members of QXmppMessagePrivate / QXmppStanzaPrivate (units/C17/unit.py PUBLIC_MEMBERS, BOTH_MEMBERS, PUBLIC_STANZA_MEMBERS) is the specification, read off the property statement; every member not named there is sensitive',
    'taint by touch: a member value can reach the XML writer only through an access of that member in the lowered text; accesses are the generated accessors QXmppMessagePrivate_r_x / _w_x (read = const use, write = anything else), generated from the record layout',
    'QXmlStreamWriter calls, QIODevice::write, writeOptionalXmlAttribute / writeXmlTextElement (QXmppUtils_p.h) and every sub-object toXml()/toXmlElementFromChild() are event stubs without effect on the message (units/C17/model.h); what a sub-object serialiser writes is not verified here',
    'sub-object recognisers X::isX(element), X::parse(element), X::fromDom(element), enumFromString, encryptionFromString / encryptionToName, QDateTime and QString operations are uninterpreted (deterministic) functions of their arguments',
    'opaque strings: equality only; isEmpty() and isNull() are both "is the empty id"; A-DOM abstract DOM (qtmodel/opaque.h)',
    'QVector/QList values: size and elements are functions of the list value; push_back / operator<< produce a new list value',
    'QSharedDataPointer: operator-> yields the private record (copy-on-write detaching is not modelled)',
    'QXmpp::operator&, hasHint, addHint, encryptionMethod, encryptionName, checkElement, QXmppStanza::id/to/from/lang/error are lowered from the real source and used through their bodies',
]
NOT_COVERED = [
    'the bytes a sub-object serialiser (QXmppOutOfBandUrl::toXml, QXmppJingleMessageInitiationElement::toXml, ...) emits and XML escaping (Qt)',
    'value-level round trip (that parse(public) then parse(sensitive) restores each value): only the mode class of every member is decided here',
    'parse side: that an element handled in combined mode is handled by one of the two split modes (needs the bodies of the five static recognisers)',
    'the order of the two parse calls of the decrypt path and value-level accumulation across them (only: neither call assigns a member of the other part)',
    'OMEMO code (not built): its use of serializeExtensions(SceSensitive) / parseExtensions(SceSensitive)',
    'QXmppPubSubEventBase::parseExtension (the parse-side override) and the item serialisers / parsers of QXmppPubSubEvent<T> (serializeItems / parseItems)',
    'Qt 6 branches; BUILD_OMEMO members (omemoElement)',
]


# ---------------------------------------------------------------------------------------------------- native replay
# A failed obligation is a VIOLATION whatever happens here; this only tries to attach a concrete input that shows the failure
# on the REAL library built from the working tree (DESIGN 3.3/3.4).  The witness member of a failed obligation is found by
# running the per-member battery (replay_fields.cpp: one member set to a distinctive value, message split, property evaluated)
# and, for the stanza-level obligations, the split scenarios of replay_split.cpp.
KNOWN_MEMBERS = {'jingleMessageInitiationElement', 'callInviteElement'}
_native_cache = {}


def _run_native(driver, args):
    from vlib import native
    key = (driver, tuple(args))
    if key not in _native_cache:
        _native_cache[key] = native.run_driver(os.path.join(HERE, driver), args=list(args), timeout=300)
    return _native_cache[key]


def find_input(unit, p, o, lab, work):
    finding = getattr(p, 'finding', None)
    if finding == 'C17-unknown-extensions-public' or 'stanza_members' in lab:
        rc, out = _run_native('replay_split.cpp', ['extensions'])
        if rc == 1 and 'VIOLATED' in out:
            return {'inputs': {'driver': 'replay_split.cpp', 'args': ['extensions']}, 'reproduced': True, 'native_output': out[-3000:]}
        return None
    if '_is_consumed_' in lab:
        rc, out = _run_native('replay_split.cpp', ['consumed'])
        if rc == 1 and 'VIOLATED' in out:
            return {'inputs': {'driver': 'replay_split.cpp', 'args': ['consumed']}, 'reproduced': True, 'native_output': out[-3000:]}
        return None
    if p.id.startswith('pubsub'):
        rc, out = _run_native('replay_split.cpp', ['pubsub'])
        if rc == 1 and 'VIOLATED' in out:
            return {'inputs': {'driver': 'replay_split.cpp', 'args': ['pubsub']}, 'reproduced': True, 'native_output': out[-3000:]}
        return None
    if p.id.startswith(('sendSensitive', 'packet_of_nonza')):
        return None        # needs a client with an encryption extension and a socket: no native driver in this unit
    pubs = ','.join(sorted(PUBLIC_MEMBERS))
    rc, out = _run_native('replay_fields.cpp', ['all', pubs])
    bad = re.findall(r'VIOLATED member=(\w+) class=(\w+) ([^\n]*)', out)
    if finding is None:
        bad = [b_ for b_ in bad if b_[0] not in KNOWN_MEMBERS]     # those two are the recorded finding, not this violation
    if rc == 1 and bad:
        m, cls, what = bad[0]
        return {'inputs': {'driver': 'replay_fields.cpp', 'args': [m, cls], 'what': 'member %s (%s): %s' % (m, cls, what)}, 'reproduced': True,
                'native_output': '\n'.join(l for l in out.splitlines() if 'member=%s ' % m in l)[-3000:]}
    return None


def native_replay(rp):
    inp = rp['inputs']
    rc, out = _run_native(inp['driver'], inp['args'])
    return rc == 1 and 'VIOLATED' in out, out
