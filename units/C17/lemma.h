/* units/C17/lemma.h -- "the public and the sensitive part together contain exactly the elements of the unsplit message, each
 * in exactly one part": one arbitrary message state is serialised by the REAL (lowered) serializeExtensions in all three
 * modes; for the arbitrary witness member g_f (the explicit fallback body and the fallback markers aside, which by definition
 * accompany the public part only / both parts) it is read in combined mode iff it is read in exactly one of the two split modes. */
bool gh_T_all, gh_T_pub, gh_T_sens;
void lemma_three_modes(const QXmppMessage *self, qxw *writer, qstr baseNamespace)
__CPROVER_requires(__CPROVER_is_fresh(self, sizeof(QXmppMessage)))
__CPROVER_requires(__CPROVER_is_fresh(self->d, sizeof(QXmppMessagePrivate)))
__CPROVER_requires(__CPROVER_is_fresh(self->stanza.d, sizeof(QXmppStanzaPrivate)))
__CPROVER_requires(__CPROVER_is_fresh(writer, sizeof(qxw)))
__CPROVER_requires(WITNESS_MEMBER_OK)
__CPROVER_requires(0 <= gh_events && gh_events <= 1000)
__CPROVER_requires(g_f != F_QXmppMessagePrivate_e2eeFallbackBody && CLASS_OF(g_f) != CLS_BOTH)
__CPROVER_assigns(gh_events, gh_T_all, gh_T_pub, gh_T_sens, __CPROVER_object_whole(gh_rd_QXmppMessagePrivate), __CPROVER_object_whole(gh_rd_QXmppStanzaPrivate))
__CPROVER_ensures(gh_T_all == (gh_T_pub != gh_T_sens))
__CPROVER_ensures(!(gh_T_pub && gh_T_sens))
{
  QXmppMessage_serializeExtensions(self, writer, QXmpp_SceMode__SceAll, baseNamespace);
  gh_T_all = TOUCHED_R(g_f);
  TOUCHED_R(g_f) = false;
  QXmppMessage_serializeExtensions(self, writer, QXmpp_SceMode__ScePublic, baseNamespace);
  gh_T_pub = TOUCHED_R(g_f);
  TOUCHED_R(g_f) = false;
  QXmppMessage_serializeExtensions(self, writer, QXmpp_SceMode__SceSensitive, baseNamespace);
  gh_T_sens = TOUCHED_R(g_f);
}

/* "serialise-class(f) = parse-class(f)", stated without the classification table: for an arbitrary message state handed to the
 * REAL serializeExtensions and an arbitrary element handed to the REAL parseExtension (arbitrary prior state), the witness member
 * (fallback markers aside, which accompany both parts by definition) is never one that is written into the sensitive part but
 * assigned by the public-part parser, nor one that is written into the public part but assigned by the sensitive-part parser. */
bool gh_R_sens, gh_R_pub, gh_W_pub, gh_W_sens;
void lemma_class_consistency(const QXmppMessage *sender, qxw *writer, qstr baseNamespace, QXmppMessage *receiver, qdom element)
__CPROVER_requires(__CPROVER_is_fresh(sender, sizeof(QXmppMessage)))
__CPROVER_requires(__CPROVER_is_fresh(sender->d, sizeof(QXmppMessagePrivate)))
__CPROVER_requires(__CPROVER_is_fresh(sender->stanza.d, sizeof(QXmppStanzaPrivate)))
__CPROVER_requires(__CPROVER_is_fresh(receiver, sizeof(QXmppMessage)))
__CPROVER_requires(__CPROVER_is_fresh(receiver->d, sizeof(QXmppMessagePrivate)))
__CPROVER_requires(__CPROVER_is_fresh(receiver->stanza.d, sizeof(QXmppStanzaPrivate)))
__CPROVER_requires(__CPROVER_is_fresh(writer, sizeof(qxw)))
__CPROVER_requires(WITNESS_MEMBER_OK)
__CPROVER_requires(0 <= gh_events && gh_events <= 1000000)
__CPROVER_requires(CLASS_OF(g_f) != CLS_BOTH)
FINDING_REQUIRES
__CPROVER_assigns(gh_events, gh_R_sens, gh_R_pub, gh_W_pub, gh_W_sens, __CPROVER_object_whole(receiver->d),
                  __CPROVER_object_whole(gh_rd_QXmppMessagePrivate), __CPROVER_object_whole(gh_wr_QXmppMessagePrivate), __CPROVER_object_whole(gh_rd_QXmppStanzaPrivate))
__CPROVER_ensures(!(gh_R_sens && gh_W_pub))
__CPROVER_ensures(!(gh_R_pub && gh_W_sens))
{
  QXmppMessage_serializeExtensions(sender, writer, QXmpp_SceMode__SceSensitive, baseNamespace);
  gh_R_sens = TOUCHED_R(g_f);
  TOUCHED_R(g_f) = false;
  QXmppMessage_serializeExtensions(sender, writer, QXmpp_SceMode__ScePublic, baseNamespace);
  gh_R_pub = TOUCHED_R(g_f);
  QXmppMessage_parseExtension(receiver, element, QXmpp_SceMode__ScePublic);
  gh_W_pub = TOUCHED_W(g_f);
  TOUCHED_W(g_f) = false;
  QXmppMessage_parseExtension(receiver, element, QXmpp_SceMode__SceSensitive);
  gh_W_sens = TOUCHED_W(g_f);
}
