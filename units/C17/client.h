/* units/C17/client.h -- models for QXmppClient::sendSensitive (ASSUMED contracts of the objects it talks to) and its event log.
 *
 * StanzaObj      a QXmppStanza object; `kind` is its dynamic type (dynamic_cast<QXmppMessage*> succeeds iff kind == KIND_MESSAGE, ...)
 * qe2ee          the installed QXmppE2eeExtension (virtual interface): encryptMessage / encryptIq start an asynchronous encryption and
 *                return a task; isEncrypted() is an arbitrary (deterministic) predicate of its argument.  Calls are counted.
 * XmlBuf/XmlWriter  a QByteArray that a QXmlStreamWriter writes into: records WHICH message was serialised into it in WHICH mode, how often
 * Packet         QXmppPacket: built from raw xml (PACKET_XML: carries the buffer's provenance) or from a nonza (PACKET_NONZA:
 *                QXmppPacket(const QXmppNonza &) serialises with the virtual one-argument toXml(), for a message = toXml(writer, SceAll);
 *                the call-site proof checks the latter on QXmppMessage::toXml(QXmlStreamWriter *))
 * the ack manager  StreamAckManager::send(QXmppPacket &&): the packet reaches the socket / the unacknowledged-stanza queue (property C09); logged */
enum { KIND_OTHER = 0, KIND_MESSAGE = 1, KIND_IQ = 2 };
enum { PACKET_NONE = 0, PACKET_XML = 1, PACKET_NONZA = 2 };
typedef struct StanzaObj { int kind; int ident; } StanzaObj;
typedef struct qe2ee { int unused; } qe2ee;
typedef struct qoutclient { int unused; } qoutclient;
typedef struct qackmgr { int unused; } qackmgr;
typedef int qtask; typedef int qpromise; typedef int qparams;
typedef struct XmlBuf { int n_writes; const StanzaObj *msg; int mode; } XmlBuf;
typedef struct XmlWriter { XmlBuf *buf; } XmlWriter;
typedef struct Packet { int kind; XmlBuf xml; const StanzaObj *nonza; } Packet;

/* ---- event log */
int gh_sends; Packet gh_sent;                                        /* packets handed to StreamAckManager::send */
int gh_enc_calls; const StanzaObj *gh_enc_msg; qtask gh_enc_task;    /* QXmppE2eeExtension::encryptMessage */
int gh_enciq_calls;                                                  /* QXmppE2eeExtension::encryptIq */
int gh_sendenc_calls; qtask gh_sendenc_task;                         /* sendEncrypted(task): the continuation that serialises in ScePublic mode */
qpromise interface;                                                  /* the promise captured by the continuation arms */
static qackmgr gh_ackmgr;

static inline int sat_inc(int c) { return c < 1000 ? c + 1 : c; }
/* dynamic_cast<T*>(p): p if the dynamic type matches, else null;  dynamic_cast<T&>(x): x, and std::bad_cast (an obligation) otherwise */
static inline StanzaObj *dyn_cast_ptr(int kind, StanzaObj *p) { return (p != NULL && p->kind == kind) ? p : NULL; }
static inline StanzaObj *dyn_cast_ref(int kind, StanzaObj *p) { __CPROVER_assert(p->kind == kind, "[safety.dynamic_cast_of_a_reference_succeeds] std::bad_cast otherwise"); return p; }

qtask __CPROVER_uninterpreted_e2ee_task(int kind, int ident, qparams params);
bool __CPROVER_uninterpreted_e2ee_isEncrypted(int ident);
qtask __CPROVER_uninterpreted_sendenc_task(qtask t);
qtask __CPROVER_uninterpreted_send_task(int n);
static inline qtask e2ee_encryptMessage(qe2ee *x, StanzaObj *m, qparams params) { (void)x; gh_enc_calls = sat_inc(gh_enc_calls); gh_enc_msg = m; gh_enc_task = __CPROVER_uninterpreted_e2ee_task(KIND_MESSAGE, m->ident, params); return gh_enc_task; }
static inline qtask e2ee_encryptIq(qe2ee *x, StanzaObj *iq, qparams params) { (void)x; gh_enciq_calls = sat_inc(gh_enciq_calls); return __CPROVER_uninterpreted_e2ee_task(KIND_IQ, iq->ident, params); }
static inline bool e2ee_isEncrypted_message(qe2ee *x, const StanzaObj *m) { (void)x; return __CPROVER_uninterpreted_e2ee_isEncrypted(m->ident); }
/* sendEncrypted(task) (the local generic lambda of sendSensitive): registers the continuation whose message arm is verified separately */
static inline qtask ev_sendEncrypted(qtask t) { gh_sendenc_calls = sat_inc(gh_sendenc_calls); gh_sendenc_task = t; return __CPROVER_uninterpreted_sendenc_task(t); }

static inline void XmlBuf_ctor(XmlBuf *b) { b->n_writes = 0; b->msg = NULL; b->mode = -1; }
static inline void XmlWriter_ctor(XmlWriter *w, XmlBuf *b) { w->buf = b; }
/* QXmppMessage::toXml(writer, mode): verified by the other proofs of this unit; here: logged into the buffer the writer writes into */
static inline void Message_toXml2(const StanzaObj *m, XmlWriter *w, int mode) { w->buf->n_writes = sat_inc(w->buf->n_writes); w->buf->msg = m; w->buf->mode = mode; }
static inline void Packet_from_xml(Packet *p, const XmlBuf *xml, bool isStanza, qpromise pr) { (void)isStanza; (void)pr; p->kind = PACKET_XML; p->xml = *xml; p->nonza = NULL; }
static inline void Packet_from_nonza(Packet *p, const StanzaObj *n) { p->kind = PACKET_NONZA; p->xml.n_writes = 0; p->xml.msg = NULL; p->xml.mode = -1; p->nonza = n; }
static inline qackmgr *outclient_streamAckManager(const qoutclient *c) { (void)c; return &gh_ackmgr; }
static inline qtask ackmgr_send(qackmgr *a, const Packet *p) { (void)a; gh_sends = sat_inc(gh_sends); gh_sent = *p; return __CPROVER_uninterpreted_send_task(gh_sends); }
