// C17 native replay, one member at a time: set ONE member of the message to a distinctive value, split the message with
// the REAL library, and evaluate the property for that member:
//   class sensitive: the marker must be absent from toXml(ScePublic) and present in serializeExtensions(SceSensitive)
//   class public   : the marker must be present in toXml(ScePublic) and absent from serializeExtensions(SceSensitive)
//   both           : parse(public, ScePublic) then parseExtensions(content, SceSensitive) gives the value back
//   replay_fields <member> <public|sensitive>      exit 1 + "VIOLATED ..." if the property is violated for that member,
//   replay_fields list                             prints the members this driver knows
#include <QDomDocument>
#include <QXmlStreamWriter>
#include <cstdio>
#include <cstring>
#include <functional>
#include <map>
#include <string>
#include "QXmppMessage.h"
#include "QXmppJingleData.h"
#include "QXmppOutOfBandUrl.h"
#include "QXmppMessageReaction.h"
#include "QXmppMixInvitation.h"
#include "QXmppGlobal.h"

struct Probe {
    std::function<void(QXmppMessage &)> set;
    QByteArray marker;                                   // what the value looks like on the wire
    std::function<bool(const QXmppMessage &)> recovered;  // getter gives the value back
};

#define Q(s) QStringLiteral(s)
static std::map<std::string, Probe> probes()
{
    std::map<std::string, Probe> p;
    p["body"] = { [](auto &m) { m.setBody(Q("ZZ-body-ZZ")); }, "ZZ-body-ZZ", [](auto &m) { return m.body() == Q("ZZ-body-ZZ"); } };
    p["subject"] = { [](auto &m) { m.setSubject(Q("ZZ-subject-ZZ")); }, "ZZ-subject-ZZ", [](auto &m) { return m.subject() == Q("ZZ-subject-ZZ"); } };
    p["thread"] = { [](auto &m) { m.setThread(Q("ZZ-thread-ZZ")); }, "ZZ-thread-ZZ", [](auto &m) { return m.thread() == Q("ZZ-thread-ZZ"); } };
    p["parentThread"] = { [](auto &m) { m.setThread(Q("t")); m.setParentThread(Q("ZZ-parent-ZZ")); }, "ZZ-parent-ZZ", [](auto &m) { return m.parentThread() == Q("ZZ-parent-ZZ"); } };
    p["outOfBandUrls"] = { [](auto &m) { m.setOutOfBandUrl(Q("http://ZZ-oob-ZZ/")); }, "ZZ-oob-ZZ", [](auto &m) { return m.outOfBandUrl() == Q("http://ZZ-oob-ZZ/"); } };
    p["xhtml"] = { [](auto &m) { m.setXhtml(Q("<p>ZZ-xhtml-ZZ</p>")); }, "ZZ-xhtml-ZZ", [](auto &m) { return m.xhtml().contains(Q("ZZ-xhtml-ZZ")); } };
    p["state"] = { [](auto &m) { m.setState(QXmppMessage::Composing); }, "composing", [](auto &m) { return m.state() == QXmppMessage::Composing; } };
    p["stamp"] = { [](auto &m) { m.setStamp(QDateTime(QDate(2011, 11, 11), QTime(11, 11, 11), Qt::UTC)); }, "2011-11-11", [](auto &m) { return m.stamp().isValid(); } };
    p["receiptId"] = { [](auto &m) { m.setReceiptId(Q("ZZ-receipt-ZZ")); }, "ZZ-receipt-ZZ", [](auto &m) { return m.receiptId() == Q("ZZ-receipt-ZZ"); } };
    p["receiptRequested"] = { [](auto &m) { m.setReceiptRequested(true); }, "urn:xmpp:receipts", [](auto &m) { return m.isReceiptRequested(); } };
    p["attentionRequested"] = { [](auto &m) { m.setAttentionRequested(true); }, "urn:xmpp:attention:0", [](auto &m) { return m.isAttentionRequested(); } };
    p["mucInvitationJid"] = { [](auto &m) { m.setMucInvitationJid(Q("ZZ-room-ZZ@muc")); }, "ZZ-room-ZZ", [](auto &m) { return m.mucInvitationJid() == Q("ZZ-room-ZZ@muc"); } };
    p["mucInvitationPassword"] = { [](auto &m) { m.setMucInvitationJid(Q("r@muc")); m.setMucInvitationPassword(Q("ZZ-pw-ZZ")); }, "ZZ-pw-ZZ", [](auto &m) { return m.mucInvitationPassword() == Q("ZZ-pw-ZZ"); } };
    p["mucInvitationReason"] = { [](auto &m) { m.setMucInvitationJid(Q("r@muc")); m.setMucInvitationReason(Q("ZZ-reason-ZZ")); }, "ZZ-reason-ZZ", [](auto &m) { return m.mucInvitationReason() == Q("ZZ-reason-ZZ"); } };
    p["replaceId"] = { [](auto &m) { m.setReplaceId(Q("ZZ-replace-ZZ")); }, "ZZ-replace-ZZ", [](auto &m) { return m.replaceId() == Q("ZZ-replace-ZZ"); } };
    p["markable"] = { [](auto &m) { m.setMarkable(true); }, "markable", [](auto &m) { return m.isMarkable(); } };
    p["marker"] = { [](auto &m) { m.setMarker(QXmppMessage::Displayed); m.setMarkerId(Q("x")); }, "displayed", [](auto &m) { return m.marker() == QXmppMessage::Displayed; } };
    p["markedId"] = { [](auto &m) { m.setMarker(QXmppMessage::Displayed); m.setMarkerId(Q("ZZ-marked-ZZ")); }, "ZZ-marked-ZZ", [](auto &m) { return m.markedId() == Q("ZZ-marked-ZZ"); } };
    p["markedThread"] = { [](auto &m) { m.setMarker(QXmppMessage::Displayed); m.setMarkerId(Q("x")); m.setMarkedThread(Q("ZZ-mthread-ZZ")); }, "ZZ-mthread-ZZ", [](auto &m) { return m.markedThread() == Q("ZZ-mthread-ZZ"); } };
    p["attachId"] = { [](auto &m) { m.setAttachId(Q("ZZ-attach-ZZ")); }, "ZZ-attach-ZZ", [](auto &m) { return m.attachId() == Q("ZZ-attach-ZZ"); } };
    p["isSpoiler"] = { [](auto &m) { m.setIsSpoiler(true); }, "urn:xmpp:spoiler:0", [](auto &m) { return m.isSpoiler(); } };
    p["spoilerHint"] = { [](auto &m) { m.setIsSpoiler(true); m.setSpoilerHint(Q("ZZ-spoiler-ZZ")); }, "ZZ-spoiler-ZZ", [](auto &m) { return m.spoilerHint() == Q("ZZ-spoiler-ZZ"); } };
    p["reply"] = { [](auto &m) { m.setReply(QXmpp::Reply { Q("a@b"), Q("ZZ-reply-ZZ") }); }, "ZZ-reply-ZZ", [](auto &m) { return m.reply() && m.reply()->id == Q("ZZ-reply-ZZ"); } };
    p["reaction"] = { [](auto &m) { QXmppMessageReaction r; r.setMessageId(Q("ZZ-reaction-ZZ")); r.setEmojis({ Q("x") }); m.setReaction(r); }, "ZZ-reaction-ZZ", [](auto &m) { return m.reaction() && m.reaction()->messageId() == Q("ZZ-reaction-ZZ"); } };
    p["mixInvitation"] = { [](auto &m) { QXmppMixInvitation i; i.setInviterJid(Q("ZZ-inviter-ZZ@x")); i.setInviteeJid(Q("b@x")); i.setChannelJid(Q("c@x")); i.setToken(Q("t")); m.setMixInvitation(i); }, "ZZ-inviter-ZZ", [](auto &m) { return m.mixInvitation() && m.mixInvitation()->inviterJid() == Q("ZZ-inviter-ZZ@x"); } };
    p["jingleMessageInitiationElement"] = { [](auto &m) { QXmppJingleMessageInitiationElement j; j.setType(QXmppJingleMessageInitiationElement::Type::Proceed); j.setId(Q("ZZ-jmi-ZZ")); m.setJingleMessageInitiationElement(j); }, "ZZ-jmi-ZZ", [](auto &m) { return m.jingleMessageInitiationElement() && m.jingleMessageInitiationElement()->id() == Q("ZZ-jmi-ZZ"); } };
    p["callInviteElement"] = { [](auto &m) { QXmppCallInviteElement c; c.setType(QXmppCallInviteElement::Type::Accept); c.setId(Q("ZZ-invite-ZZ")); m.setCallInviteElement(c); }, "ZZ-invite-ZZ", [](auto &m) { return m.callInviteElement() && m.callInviteElement()->id() == Q("ZZ-invite-ZZ"); } };
    // members the statement names as public
    p["privatemsg"] = { [](auto &m) { m.setPrivate(true); }, "urn:xmpp:carbons:2", [](auto &m) { return m.isPrivate(); } };
    p["hints"] = { [](auto &m) { m.addHint(QXmppMessage::NoStore); }, "no-store", [](auto &m) { return m.hasHint(QXmppMessage::NoStore); } };
    p["stanzaIds"] = { [](auto &m) { m.setStanzaId(Q("ZZ-sid-ZZ")); m.setStanzaIdBy(Q("srv")); }, "ZZ-sid-ZZ", [](auto &m) { return m.stanzaId() == Q("ZZ-sid-ZZ"); } };
    p["originId"] = { [](auto &m) { m.setOriginId(Q("ZZ-origin-ZZ")); }, "ZZ-origin-ZZ", [](auto &m) { return m.originId() == Q("ZZ-origin-ZZ"); } };
    p["mixUserJid"] = { [](auto &m) { m.setMixUserJid(Q("ZZ-mixjid-ZZ@x")); }, "ZZ-mixjid-ZZ", [](auto &m) { return m.mixUserJid() == Q("ZZ-mixjid-ZZ@x"); } };
    p["mixUserNick"] = { [](auto &m) { m.setMixUserNick(Q("ZZ-nick-ZZ")); }, "ZZ-nick-ZZ", [](auto &m) { return m.mixUserNick() == Q("ZZ-nick-ZZ"); } };
    p["encryptionMethod"] = { [](auto &m) { m.setEncryptionMethodNs(Q("urn:ZZ-eme-ZZ")); }, "ZZ-eme-ZZ", [](auto &m) { return m.encryptionMethodNs() == Q("urn:ZZ-eme-ZZ"); } };
    p["encryptionName"] = { [](auto &m) { m.setEncryptionMethodNs(Q("urn:x")); m.setEncryptionName(Q("ZZ-ename-ZZ")); }, "ZZ-ename-ZZ", [](auto &m) { return m.encryptionName() == Q("ZZ-ename-ZZ"); } };
    p["e2eeFallbackBody"] = { [](auto &m) { m.setE2eeFallbackBody(Q("ZZ-fallback-ZZ")); }, "ZZ-fallback-ZZ", [](auto &m) { return m.e2eeFallbackBody() == Q("ZZ-fallback-ZZ"); } };
    return p;
}

static QDomElement dom(const QByteArray &xml, QDomDocument &doc)
{
    if (!doc.setContent(xml, true)) {
        printf("driver error: cannot parse %s\n", xml.constData());
        exit(3);
    }
    return doc.documentElement();
}

static int runOne(const std::string &name, const Probe &probe, bool isPublic, bool verbose)
{
    const char *cls = isPublic ? "public" : "sensitive";
    QXmppMessage m(Q("alice@example.org/a"), Q("bob@example.org"));
    m.setId(Q("m1"));
    probe.set(m);
    QByteArray pub, sens;
    {
        QXmlStreamWriter w(&pub);
        m.toXml(&w, QXmpp::ScePublic);
    }
    {
        QXmlStreamWriter w(&sens);
        w.writeStartElement(Q("content"));
        w.writeDefaultNamespace(Q("urn:xmpp:sce:1"));
        m.serializeExtensions(&w, QXmpp::SceSensitive, Q("jabber:client"));
        w.writeEndElement();
    }
    int bad = 0;
    bool inPub = pub.contains(probe.marker), inSens = sens.contains(probe.marker);
    auto say = [&](bool ok, const char *what) { if (!ok || verbose) printf("%s member=%s class=%s %s\n", ok ? "ok      " : "VIOLATED", name.c_str(), cls, what); if (!ok) bad++; };
    if (isPublic) {
        say(inPub, "value is in the public part");
        say(!inSens, "value is not in the sensitive part");
    } else {
        say(!inPub, "value is NOT in the public part (plaintext disclosure otherwise)");
        say(inSens, "value is in the sensitive part");
    }
    QDomDocument d1, d2;
    QXmppMessage r;
    r.parse(dom(pub, d1), QXmpp::ScePublic);
    r.parseExtensions(dom(sens, d2), QXmpp::SceSensitive);
    say(probe.recovered(r), "parse(public) then parse(sensitive) recovers the value");
    if (verbose || bad) printf("         public   : %s\n         sensitive: %s\n", pub.constData(), sens.constData());
    return bad;
}

// replay_fields <member> <public|sensitive> | replay_fields all <comma separated public members> | replay_fields list
int main(int argc, char **argv)
{
    auto ps = probes();
    if (argc < 2 || !strcmp(argv[1], "list")) {
        for (auto &kv : ps) printf("%s\n", kv.first.c_str());
        return 0;
    }
    if (!strcmp(argv[1], "all")) {
        std::string pubs = std::string(",") + (argc > 2 ? argv[2] : "") + ",";
        int bad = 0;
        for (auto &kv : ps) bad += runOne(kv.first, kv.second, pubs.find("," + kv.first + ",") != std::string::npos, false);
        printf("%d check(s) violated over %d members\n", bad, int(ps.size()));
        return bad ? 1 : 0;
    }
    auto it = ps.find(argv[1]);
    if (it == ps.end() || argc < 3) {
        printf("NO-PROBE member=%s (this driver has no distinctive value for it)\n", argv[1]);
        return 2;
    }
    return runOne(it->first, it->second, !strcmp(argv[2], "public"), true) ? 1 : 0;
}
