// C17 native replay: split a message for end-to-end encryption with the REAL library (public part = toXml(ScePublic),
// sensitive part = serializeExtensions(SceSensitive) inside an SCE <content/>), parse both parts back the way the
// OMEMO receive path does (parse(public, ScePublic); parseExtensions(content, SceSensitive)) and evaluate the property.
//   replay_split jmi | callinvite | extensions | pubsub | consumed | control | all        exit 1 + "VIOLATED ..." if a scenario violates the property
#include <QDomDocument>
#include <QXmlStreamWriter>
#include <QTextStream>
#include <cstdio>
#include <cstring>
#include "QXmppMessage.h"
#include "QXmppJingleData.h"
#include "QXmppElement.h"
#include "QXmppGlobal.h"
#include "QXmppPubSubEvent.h"
#include "QXmppPubSubBaseItem.h"

static QByteArray publicPart(const QXmppMessage &m)
{
    QByteArray xml;
    QXmlStreamWriter w(&xml);
    m.toXml(&w, QXmpp::ScePublic);
    return xml;
}

static QByteArray sensitivePart(const QXmppMessage &m)
{
    QByteArray xml;
    QXmlStreamWriter w(&xml);
    w.writeStartElement(QStringLiteral("content"));
    w.writeDefaultNamespace(QStringLiteral("urn:xmpp:sce:1"));
    m.serializeExtensions(&w, QXmpp::SceSensitive, QStringLiteral("jabber:client"));
    w.writeEndElement();
    return xml;
}

static QByteArray combined(const QXmppMessage &m)
{
    QByteArray xml;
    QXmlStreamWriter w(&xml);
    m.toXml(&w, QXmpp::SceAll);
    return xml;
}

static QDomElement dom(const QByteArray &xml, QDomDocument &doc)
{
    if (!doc.setContent(xml, true)) {
        printf("driver error: cannot parse %s\n", xml.constData());
        exit(3);
    }
    return doc.documentElement();
}

static QXmppMessage receiveSplit(const QByteArray &pub, const QByteArray &sens)
{
    QDomDocument d1, d2;
    QXmppMessage r;
    r.parse(dom(pub, d1), QXmpp::ScePublic);
    r.parseExtensions(dom(sens, d2), QXmpp::SceSensitive);
    return r;
}

static QXmppMessage base()
{
    QXmppMessage m(QStringLiteral("alice@example.org/a"), QStringLiteral("bob@example.org"), QStringLiteral("secret body"));
    m.setId(QStringLiteral("m1"));
    m.setOriginId(QStringLiteral("origin-1"));
    m.setE2eeFallbackBody(QStringLiteral("[encrypted]"));
    return m;
}

static int violated = 0;
static void check(const char *scenario, const char *what, bool ok)
{
    printf("%s scenario=%s %s\n", ok ? "ok      " : "VIOLATED", scenario, what);
    if (!ok) violated++;
}

static void scenarioControl()
{
    QXmppMessage m = base();
    m.setSubject(QStringLiteral("secret subject"));
    m.setThread(QStringLiteral("secret-thread"));
    m.setReplaceId(QStringLiteral("replace-9"));
    QByteArray pub = publicPart(m), sens = sensitivePart(m);
    check("control", "public part does not contain body/subject/thread/replace id",
          !pub.contains("secret body") && !pub.contains("secret subject") && !pub.contains("secret-thread") && !pub.contains("replace-9"));
    check("control", "public part contains origin id and the explicit fallback body", pub.contains("origin-1") && pub.contains("[encrypted]"));
    QXmppMessage r = receiveSplit(pub, sens);
    check("control", "parse(public) then parse(sensitive) recovers body, subject, thread, replace id, origin id",
          r.body() == m.body() && r.subject() == m.subject() && r.thread() == m.thread() && r.replaceId() == m.replaceId() && r.originId() == m.originId());
}

static void scenarioJmi()
{
    QXmppMessage m = base();
    QXmppJingleMessageInitiationElement jmi;
    jmi.setType(QXmppJingleMessageInitiationElement::Type::Proceed);
    jmi.setId(QStringLiteral("jmi-call-77"));
    m.setJingleMessageInitiationElement(jmi);
    QByteArray pub = publicPart(m), sens = sensitivePart(m), all = combined(m);
    check("jmi", "element is not in the public part", !pub.contains("jmi-call-77"));
    check("jmi", "element is in the sensitive part", sens.contains("jmi-call-77"));
    QDomDocument d;
    QXmppMessage whole;
    whole.parse(dom(all, d));
    check("jmi", "unsplit round trip recovers jingleMessageInitiationElement()", whole.jingleMessageInitiationElement().has_value());
    QXmppMessage r = receiveSplit(pub, sens);
    check("jmi", "split round trip recovers body", r.body() == m.body());
    check("jmi", "split round trip recovers jingleMessageInitiationElement() [parsed only under ScePublic, serialised only under SceSensitive]",
          r.jingleMessageInitiationElement().has_value() && r.jingleMessageInitiationElement()->id() == QStringLiteral("jmi-call-77"));
    printf("         jmi: after the split round trip extensions() holds %d unknown element(s)%s\n", int(r.extensions().size()),
           r.extensions().isEmpty() ? "" : qPrintable(QStringLiteral(": <") + r.extensions().first().tagName() + QStringLiteral("/>")));
}

static void scenarioCallInvite()
{
    QXmppMessage m = base();
    QXmppCallInviteElement ci;
    ci.setType(QXmppCallInviteElement::Type::Accept);
    ci.setId(QStringLiteral("invite-42"));
    m.setCallInviteElement(ci);
    QByteArray pub = publicPart(m), sens = sensitivePart(m), all = combined(m);
    check("callinvite", "element is not in the public part", !pub.contains("invite-42"));
    check("callinvite", "element is in the sensitive part", sens.contains("invite-42"));
    QDomDocument d;
    QXmppMessage whole;
    whole.parse(dom(all, d));
    check("callinvite", "unsplit round trip recovers callInviteElement()", whole.callInviteElement().has_value());
    QXmppMessage r = receiveSplit(pub, sens);
    check("callinvite", "split round trip recovers callInviteElement() [parsed only under ScePublic, serialised only under SceSensitive]",
          r.callInviteElement().has_value() && r.callInviteElement()->id() == QStringLiteral("invite-42"));
}

static void scenarioExtensions()
{
    QXmppMessage m = base();
    QDomDocument d;
    QXmppElementList exts;
    exts << QXmppElement(dom("<payload xmlns='urn:example:app'>top secret custom payload</payload>", d));
    m.setExtensions(exts);
    QByteArray pub = publicPart(m), sens = sensitivePart(m);
    check("extensions", "public part does not contain the custom child element set with setExtensions() [extensionsToXml is called without the mode]",
          !pub.contains("top secret custom payload"));
    printf("         extensions: the sensitive part %s the custom element\n", sens.contains("top secret custom payload") ? "contains" : "does NOT contain");
}

static void scenarioPubSub()
{
    // the one subclass that overrides serializeExtensions: a PubSub event notification (retract of an item of a PEP node)
    QXmppPubSubEvent<QXmppPubSubBaseItem> ev;
    ev.setEventType(QXmppPubSubEventBase::Retract);
    ev.setNode(QStringLiteral("urn:ZZ-node-ZZ"));
    ev.setTo(QStringLiteral("bob@example.org"));
    ev.setRetractIds({ QStringLiteral("ZZ-retract-ZZ") });
    QByteArray pub = publicPart(ev), sens = sensitivePart(ev);
    check("pubsub", "public part does not contain the <event/> payload (node, retracted item id)",
          !pub.contains("ZZ-retract-ZZ") && !pub.contains("ZZ-node-ZZ") && !pub.contains("<event"));
    check("pubsub", "sensitive part contains the <event/> payload", sens.contains("ZZ-retract-ZZ") && sens.contains("ZZ-node-ZZ"));
}

static void consumedOne(const char *what, const QByteArray &element, const char *marker)
{
    // an element of a known sensitive extension whose payload does not parse arrives in the sensitive part: it must be consumed,
    // not stored as an unknown extension (unknown extensions are written by toXml(ScePublic))
    QDomDocument d;
    QXmppMessage r;
    r.parseExtensions(dom("<content xmlns='urn:xmpp:sce:1'>" + element + "</content>", d), QXmpp::SceSensitive);
    QByteArray pub = publicPart(r);
    check("consumed", what, r.extensions().isEmpty() && !pub.contains(marker));
}

static void scenarioConsumed()
{
    consumedOne("<file-sharing xmlns='urn:xmpp:sfs:0'/> without <file/> metadata is consumed, its sources do not reach the public part",
                "<file-sharing xmlns='urn:xmpp:sfs:0' disposition='inline'><sources><url-data xmlns='http://jabber.org/protocol/url-data' target='https://ZZ-sfs-url-ZZ/secret'/></sources></file-sharing>",
                "ZZ-sfs-url-ZZ");
    consumedOne("<sources xmlns='urn:xmpp:sfs:0'/> without id is consumed", "<sources xmlns='urn:xmpp:sfs:0'><url-data xmlns='http://jabber.org/protocol/url-data' target='https://ZZ-src-ZZ/'/></sources>", "ZZ-src-ZZ");
    consumedOne("unknown chat marker element is consumed", "<ZZ-marker-ZZ xmlns='urn:xmpp:chat-markers:0' id='1'/>", "ZZ-marker-ZZ");
    consumedOne("<html xmlns='http://jabber.org/protocol/xhtml-im'/> without body is consumed", "<html xmlns='http://jabber.org/protocol/xhtml-im'><ZZ-html-ZZ/></html>", "ZZ-html-ZZ");
    consumedOne("unknown chat state element is consumed", "<ZZ-state-ZZ xmlns='http://jabber.org/protocol/chatstates'/>", "ZZ-state-ZZ");
    consumedOne("<fallback xmlns='urn:xmpp:fallback:0'/> without 'for' is consumed", "<fallback xmlns='urn:xmpp:fallback:0'><ZZ-fb-ZZ/></fallback>", "ZZ-fb-ZZ");
}

int main(int argc, char **argv)
{
    const char *which = argc > 1 ? argv[1] : "all";
    bool all = !strcmp(which, "all");
    if (all || !strcmp(which, "control")) scenarioControl();
    if (all || !strcmp(which, "jmi")) scenarioJmi();
    if (all || !strcmp(which, "callinvite")) scenarioCallInvite();
    if (all || !strcmp(which, "extensions")) scenarioExtensions();
    if (all || !strcmp(which, "pubsub")) scenarioPubSub();
    if (all || !strcmp(which, "consumed")) scenarioConsumed();
    printf("%d check(s) violated\n", violated);
    return violated ? 1 : 0;
}
