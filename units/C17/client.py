"""C17, client part: QXmppClient::sendSensitive (the dispatch between the encrypted and the plain send path) and the message arm of
its continuation (what reaches the stream for an encrypted message).  Uses its own value model of a stanza object (dynamic type
tag) -- the serialisers themselves are verified by the proofs of unit.py."""
import os, re
from vlib.unit import Builder, Target, Spec, VERIF
from vlib.runner import Proof
from vlib.opaque_profile import opaque_profile
from vlib.cxx2c import Unsupported, qt, strip_type, apply_splices
from vlib import astx, ctx
from vlib.configure import REPO

HERE = os.path.dirname(os.path.abspath(__file__))
QT = os.path.join(VERIF, 'qtmodel')
SRC_CLIENT = 'src/client/QXmppClient.cpp'
SRC_MESSAGE = 'src/base/QXmppMessage.cpp'
CP = 'QXmppClientPrivate'
KINDS = {'QXmppMessage': 'KIND_MESSAGE', 'QXmppIq': 'KIND_IQ'}

TASK = r'QXmppTask<.*>'


def rd(name):
    return open(os.path.join(HERE, name)).read()


def make_lowerer(base):
    class LC(base):
        """adds: dynamic_cast on the stanza object (dynamic type tag); every QXmppTask/QXmppPromise instantiation is one scalar type"""

        def ctype(self, t, node=None):
            if t is not None:
                s = strip_type(t)
                if re.match(r'^(typename )?(std::)?remove_reference<(.*)>::type$', s):
                    s = strip_type(re.match(r'^(typename )?(std::)?remove_reference<(.*)>::type$', s).group(3))
                if re.match(r'^QXmppTask<.*>$', s):
                    return 'qtask'
                if re.match(r'^QXmppPromise<.*>$', s):
                    return 'qpromise'
                if re.match(r'^(const )?std::optional<QXmppSendStanzaParams>$', s):
                    return 'qparams'
            return super().ctype(t, node)

        def ntype(self, n):
            for cand in (qt(n), n.get('type', {}).get('desugaredQualType', qt(n))):
                try:
                    return self.ctype(cand)
                except Unsupported:
                    continue
            return super().ntype(n)

        def tkey(self, n):
            try:
                return self.ntype(n)
            except Unsupported:
                return super().tkey(n)

        def expr(self, n):
            n0 = self.skip(n)
            if n0.get('kind') == 'CXXDynamicCastExpr':
                target = strip_type(qt(n0))
                is_ptr = target.endswith('*')
                cls = target.rstrip('*').strip()
                if cls not in KINDS:
                    raise Unsupported('dynamic_cast to %s' % cls)
                self.fire('cast:dynamic:' + cls + ('*' if is_ptr else '&'))
                sub = n0['inner'][0]
                if is_ptr:
                    return 'dyn_cast_ptr(%s, %s)' % (KINDS[cls], self.expr(sub))
                return '(*dyn_cast_ref(%s, %s))' % (KINDS[cls], self.addr(self.skip(sub)))
            return super().expr(n)

        def opcall(self, n):
            rd_ = self.callee_ref(n)
            if rd_.get('name') == 'operator()':
                a0 = self.skip(n['inner'][1])
                if a0.get('kind') == 'DeclRefExpr' and a0['referencedDecl']['id'] in getattr(self, 'lambdas', {}):
                    key = 'call:local:' + a0['referencedDecl']['name']
                    rule = self.p.calls.get(key)
                    if rule is not None:
                        self.fire(key)
                        return rule(self, n, [self.arg(a) for a in n['inner'][2:]])
            return super().opcall(n)
    return LC


def is_encrypted(lw, node, args):
    """QXmppE2eeExtension::isEncrypted(const QXmppMessage &) / (const QDomElement &): chosen by the argument type, as in C++"""
    t = lw.tkey(lw.skip(node['inner'][1]))
    if t == 'StanzaObj':
        return 'e2ee_isEncrypted_message(%s)' % ', '.join(args)
    raise Unsupported('QXmppE2eeExtension::isEncrypted with argument type %s' % t)


def std_move(lw, node, args):
    return lw.expr(node['inner'][1])


def profile():
    return opaque_profile(
        types={
            'QXmppClient': 'QXmppClient', CP: CP, 'std::unique_ptr<%s>' % CP: CP + '*', 'std::unique_ptr<%s>::pointer' % CP: CP + '*',
            'QXmppStanza': 'StanzaObj', 'QXmppMessage': 'StanzaObj', 'QXmppIq': 'StanzaObj', 'QXmppNonza': 'StanzaObj',
            'std::unique_ptr<QXmppMessage>': 'StanzaObj*', 'std::unique_ptr<QXmppMessage>::pointer': 'StanzaObj*',
            'QXmppE2eeExtension': 'qe2ee', 'QXmppOutgoingClient': 'qoutclient',
            'QXmpp::Private::StreamAckManager': 'qackmgr*', 'StreamAckManager': 'qackmgr*',
            'QByteArray': 'XmlBuf', 'QXmlStreamWriter': 'XmlWriter', 'QXmppPacket': 'Packet', 'QXmpp::SceMode': 'int', 'SceMode': 'int',
        },
        class_types={'StanzaObj', 'XmlBuf', 'XmlWriter', 'Packet'},
        calls={
            'op->:%s*' % CP: ('arg', 0),
            'op->:StanzaObj*': ('arg', 0),
            'fn:move/1': std_move,
            # the installed encryption extension (virtual interface; ASSUMED: see client.h)
            'qe2ee::encryptMessage/2': ('fn', 'e2ee_encryptMessage'),
            'qe2ee::encryptIq/2': ('fn', 'e2ee_encryptIq'),
            'qe2ee::isEncrypted/1': is_encrypted,
            # the local generic lambda sendEncrypted(task): event; its continuation's message arm is a verification target of its own
            'call:local:sendEncrypted': lambda lw, n, args: 'ev_sendEncrypted(%s)' % ', '.join(args),
            # stream / ack manager / packet
            'qoutclient::streamAckManager/0': ('fn', 'outclient_streamAckManager'),
            'qackmgr*::send/1': ('fn', 'ackmgr_send'),
            'ctor:Packet(StanzaObj)': ('fn', 'Packet_from_nonza'),
            'ctor:Packet(XmlBuf,bool,qpromise)': ('fn', 'Packet_from_xml'),
            'ctor:XmlBuf()': ('fn', 'XmlBuf_ctor'),
            'ctor:XmlWriter(XmlBuf*)': ('fn', 'XmlWriter_ctor'),
            'StanzaObj::toXml/2': ('fn', 'Message_toXml2'),
        },
        globals_ok={'interface'},
    )


def find_message_arm(decl):
    """the instantiated (non-generic) operator() of the continuation arm that takes std::unique_ptr<QXmppMessage> &&; the template
    definition and every instantiation of the enclosing generic lambdas carry a copy: all fully typed copies must agree"""
    found = []
    for x in walk(decl):
        if x.get('kind') == 'CXXMethodDecl' and x.get('name') == 'operator()' and astx.has_body(x):
            sig = qt(x)
            if re.match(r'^void \(std::unique_ptr<QXmppMessage> &&\)', sig) and not astx.contains_error_nodes(x):
                found.append(x)
    if not found:
        raise astx.ExtractError('no instantiated continuation arm for std::unique_ptr<QXmppMessage> in QXmppClient::sendSensitive')
    return found


def walk(n):
    if isinstance(n, dict):
        yield n
        for c in n.get('inner', []):
            yield from walk(c)


def one_arg_toxml_mode(lowerer_cls, prof):
    """QXmppMessage::toXml(QXmlStreamWriter *) -- what QXmppPacket(const QXmppNonza &) calls: the mode it passes on"""
    d = astx.find_function(os.path.join(REPO, SRC_MESSAGE), 'QXmppMessage::toXml', 'toXml', 1)
    lw = lowerer_cls(d, 'toXml1', prof)
    out = set()
    for x in walk(d):
        if x.get('kind') == 'CXXMemberCallExpr' and len(x.get('inner', [])) == 3:
            me = lw.skip(x['inner'][0])
            if me.get('kind') == 'MemberExpr' and me.get('name') == 'toXml':
                out.add(lw.expr(x['inner'][2]))
    if len(out) != 1:
        raise Unsupported('QXmppMessage::toXml(writer) does not consist of one toXml(writer, mode) call')
    return out.pop()


def build_client(work, base_lowerer, enum_text):
    """-> (proofs, functions, dropped, fired, texts for the assume scan)"""
    prof = profile()
    LC = make_lowerer(base_lowerer)
    b = Builder('C17', work, prof)
    src = os.path.join(REPO, SRC_CLIENT)

    def lower(tgt, specf):
        sp = b.spec(specf)
        txt = b.lower(tgt, None, keep_markers=True)
        txt = apply_splices(txt, sp.contract, sp.loops)
        return re.sub(r'/\*@(CONTRACT|LOOP\d+)@\*/\n?', '', txt), sp

    t_outer = Target(SRC_CLIENT, 'QXmppClient::sendSensitive', 'sendSensitive', 'QXmppClient_sendSensitive', this='QXmppClient', lowerer_cls=LC)
    outer, sp_outer = lower(t_outer, 'sendsensitive.spec')
    t_arm = Target(SRC_CLIENT, 'QXmppClient::sendSensitive', 'operator()', 'QXmppClient_sendSensitive_messageArm', this='QXmppClient', lowerer_cls=LC)
    arms = set()
    for cand in find_message_arm(astx.find_function(src, 'QXmppClient::sendSensitive', 'sendSensitive')):
        t_arm.decl = cand
        nfn = len(b.functions)
        arm, sp_arm = lower(t_arm, 'sendsensitive_arm.spec')
        arms.add(arm)
        if len(arms) > 1:
            raise Unsupported('the instantiations of the message arm of sendSensitive lower to different texts')
        del b.functions[nfn + 1:]
    del b.functions[2:]
    b.functions[-1]['function'] = 'QXmppClient::sendSensitive::<continuation arm (std::unique_ptr<QXmppMessage> &&)>'
    rec, _ = ctx.emit_record(src, CP, CP, CP, prof, opaque_ok=True)
    mode1 = one_arg_toxml_mode(LC, prof)
    head = ('#include "opaque.h"\n' + enum_text + '\n' + rd('client.h') + 'typedef struct QXmppClient QXmppClient;\n' + rec + '\nstruct QXmppClient { %s *d; };\n' % CP)
    proofs = []
    for pid, cname, text, sp, harness, note in (
            ('sendSensitive', 'QXmppClient_sendSensitive', outer, sp_outer, 'QXmppClient *self; StanzaObj *stanza; qparams params; QXmppClient_sendSensitive(self, stanza, params);',
             'loop-free; every stanza kind, extension installed or not, any answer of isEncrypted(); sendEncrypted(task) as an event'),
            ('sendSensitive_message_arm', 'QXmppClient_sendSensitive_messageArm', arm, sp_arm, 'const QXmppClient *self; StanzaObj **message; QXmppClient_sendSensitive_messageArm(self, message);',
             'loop-free; the continuation arm that runs when encryptMessage() delivered an encrypted message')):
        f = b.write(pid + '.c', head + text + '\nvoid h_%s(void) { %s }\n' % (pid, harness))
        p = Proof(pid, f, 'h_' + pid, enforce=cname, kind='complete', include_dirs=[QT], timeout=300, loop_contracts=False, note=note)
        p.labels = {'post': {cname: sp.labels}}
        p.expect_post = len(sp.labels)
        proofs.append(p)
    f = b.write('packet_of_nonza_mode.c', head + 'void h_packet_of_nonza_mode(void) {\n  __CPROVER_assert((%s) == QXmpp_SceMode__SceAll, '
                '"[post.one_argument_toXml_of_a_message_is_the_combined_mode_serialisation] QXmppMessage::toXml(QXmlStreamWriter *)");\n}\n' % mode1)
    p = Proof('packet_of_nonza_mode', f, 'h_packet_of_nonza_mode', enforce=None, kind='complete', include_dirs=[QT], timeout=120, loop_contracts=False,
              note='call-site fact behind PACKET_NONZA: QXmppMessage::toXml(writer), which QXmppPacket(const QXmppNonza &) calls, passes SceAll')
    p.labels = {}
    p.expect_post = 1
    proofs.append(p)
    return proofs, b.functions, b.dropped, b.fired, rd('client.h')


ASSUMED = [
    'QXmppE2eeExtension (virtual interface): encryptMessage / encryptIq return a task and have no other effect on the client; isEncrypted() is an arbitrary deterministic predicate (units/C17/client.h)',
    'dynamic_cast on the stanza: decided by a dynamic-type tag of the object (message / iq / other)',
    'the local generic lambda sendEncrypted(task) registers a continuation on the task which visits the result with the three arms written in the source (task.then and std::visit: property C13); only the message arm is verified (sendSensitive_message_arm)',
    'QXmppPacket(const QXmppNonza &) serialises the stanza with the virtual one-argument toXml() (QXmppPacket.cpp serializeXml); for a QXmppMessage that is toXml(writer, SceAll) (checked: packet_of_nonza_mode); QXmppPacket(xml, ...) carries the bytes unchanged',
    'StreamAckManager::send(QXmppPacket &&) hands the packet to the socket / unacknowledged queue unchanged (property C09)',
]
NOT_COVERED = [
    'the iq arm and the error arm of the sendSensitive continuation; QXmppClient::send / sendPacket / reply (they do not go through the encryption extension by design)',
    'that an application uses sendSensitive() (and not send()) for messages it wants encrypted',
]
