/* units/C17/spec.h -- specification vocabulary (ghost witnesses and the classification; DESIGN 5.2, 5.10, 5.12) */
#define CLS_SENSITIVE 0
#define CLS_PUBLIC 1
#define CLS_BOTH 2
int g_f;      /* witness member of QXmppMessagePrivate: arbitrary, so a fact proved for it holds for every member */
int g_s;      /* witness member of QXmppStanzaPrivate */
int g_e;      /* witness member of QXmppPubSubEventPrivate (every member of it is sensitive: the event payload) */
int gh_events_after_base;   /* ghost hook: writer events counted when the base-class serializeExtensions returned */
/* "the mode includes the sensitive part" and "the element is <tag xmlns=ns/>" (specification vocabulary of parse.spec) */
#define SENSITIVE_MODE(m) ((m) == QXmpp_SceMode__SceAll || (m) == QXmpp_SceMode__SceSensitive)
#define ELEMENT_IS(e, tag, ns) (qdom_tagName(e) == (tag) && qdom_namespaceURI(e) == (ns))
#define CLASS_OF(f) CLASS_QXmppMessagePrivate[f]
#define CLASS_OF_S(f) CLASS_QXmppStanzaPrivate[f]
#define TOUCHED_R(f) gh_rd_QXmppMessagePrivate[f]
#define TOUCHED_W(f) gh_wr_QXmppMessagePrivate[f]
#define TOUCHED_RS(f) gh_rd_QXmppStanzaPrivate[f]
#define TOUCHED_WS(f) gh_wr_QXmppStanzaPrivate[f]
#define WITNESS_IN_RANGE (0 <= g_f && g_f < QXMPPMESSAGEPRIVATE_NFIELDS && 0 <= g_s && g_s < QXMPPSTANZAPRIVATE_NFIELDS)
/* the witnesses are in range and untouched before the call (all other members: arbitrary history) */
#define WITNESS_MEMBER_OK (0 <= g_f && g_f < QXMPPMESSAGEPRIVATE_NFIELDS && !TOUCHED_R(g_f) && !TOUCHED_W(g_f) && \
                           0 <= g_s && g_s < QXMPPSTANZAPRIVATE_NFIELDS && !TOUCHED_RS(g_s) && !TOUCHED_WS(g_s))
/* discriminators of the recorded findings (units/C17/findings.json) */
#define IS_JMI_OR_CALL_INVITE(f) ((f) == F_QXmppMessagePrivate_jingleMessageInitiationElement || (f) == F_QXmppMessagePrivate_callInviteElement)
#define IS_UNKNOWN_EXTENSIONS(s) ((s) == F_QXmppStanzaPrivate_extensions)
#if defined(FINDING_ONLY_JMI)
#define FINDING_REQUIRES __CPROVER_requires(IS_JMI_OR_CALL_INVITE(g_f))
#elif defined(FINDING_EXCLUDED_JMI)
#define FINDING_REQUIRES __CPROVER_requires(!IS_JMI_OR_CALL_INVITE(g_f))
#elif defined(FINDING_ONLY_EXT)
#define FINDING_REQUIRES __CPROVER_requires(IS_UNKNOWN_EXTENSIONS(g_s))
#elif defined(FINDING_EXCLUDED_EXT)
#define FINDING_REQUIRES __CPROVER_requires(!IS_UNKNOWN_EXTENSIONS(g_s))
#else
#define FINDING_REQUIRES
#endif
