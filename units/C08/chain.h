/* C08 -- the extension chain: data structures, the generic extension contract, assumed contracts of stream-level callees */
typedef struct QXmppClientExtension { int opaque; } QXmppClientExtension;
typedef struct QXmppE2eeExtension { int opaque; } QXmppE2eeExtension;
typedef struct ExtList { int n; } ExtList;                       /* QList<QXmppClientExtension *>: symbolic length, unconstrained members */
typedef struct OptE2ee { bool has; } OptE2ee;                    /* std::optional<QXmppE2eeMetadata> */
typedef struct QXmppClientPrivate { ExtList extensions; QXmppE2eeExtension *encryptionExtension; } QXmppClientPrivate;
typedef struct QXmppClient { QXmppClientPrivate *d; } QXmppClient;
QXmppClientExtension *nondet_ext(void);
static inline QXmppClientExtension *ExtList_at(const ExtList *l, int i) { (void)l; (void)i; return nondet_ext(); }

#define GH_EMIT gh_replies, gh_reply_id, gh_reply_to, gh_reply_type, gh_reply_cond, gh_reply_has_err
/* THE MANAGER CONTRACT (DESIGN 6 C08), stated for a call that starts with no reply emitted:
 *   ret = true  and the element is a request  =>  exactly one reply, same id, to = from, type result|error
 *   ret = true  and the element is no request =>  no reply
 *   ret = false                                =>  no reply                                               */
#define MANAGER_POST(e, ret) (((ret) && IS_REQUEST(e)) ? (gh_replies == 1 && REPLY_ANSWERS(e)) : gh_replies == 0)

/* virtual QXmppClientExtension::handleStanza (both overloads): ANY extension that satisfies the manager contract.
 * The five anchored managers are verified against exactly this contract below; the ~20 other bundled managers and
 * application extensions are covered only in so far as they satisfy it (not verified here). */
bool Ext_handleStanza1(QXmppClientExtension *ext, qdom element)
__CPROVER_requires(gh_replies == 0)
__CPROVER_assigns(GH_EMIT, gh_signals)
__CPROVER_ensures(MANAGER_POST(element, __CPROVER_return_value))
;
bool Ext_handleStanza2(QXmppClientExtension *ext, qdom element, const OptE2ee *e2ee)
__CPROVER_requires(gh_replies == 0)
__CPROVER_assigns(GH_EMIT, gh_signals)
__CPROVER_ensures(MANAGER_POST(element, __CPROVER_return_value))
;
/* MessagePipeline::process(client, extensions, QXmppMessage &&): message handlers; unconstrained (messages are not this property) */
bool MP_process3(QXmppClient *client, const ExtList *extensions, QXmppMessage *message)
__CPROVER_assigns(GH_EMIT, gh_signals)
;
void QXmppMessage_parse2(QXmppMessage *self, qdom element, int sceMode) __CPROVER_assigns(*self);
bool E2eeExt_isEncrypted(QXmppE2eeExtension *ext, qdom element) __CPROVER_requires(true) __CPROVER_assigns() __CPROVER_ensures(true);
