"""C08 -- every incoming IQ request is answered exactly once; responses are never answered."""
import os, re
from vlib.unit import Builder, Target, Spec, VERIF, scan_assumes
from vlib.runner import Proof
from vlib.opaque_profile import opaque_profile
from vlib.cxx2c import Unsupported, rangefor_indexed, Lowerer, strip_amp

QT = os.path.join(VERIF, 'qtmodel')
HERE = os.path.dirname(os.path.abspath(__file__))
OC = 'src/client/QXmppOutgoingClient.cpp'
CL = 'src/client/QXmppClient.cpp'

IQ_CLASSES = ['QXmppIq', 'QXmppVCardIq', 'QXmppRosterIq', 'QXmppVersionIq', 'QXmppEntityTimeIq', 'QXmppDiscoveryIq']


def rd(name):
    return open(os.path.join(HERE, name)).read()


def ctor_nullopt(lw, n, target):
    """std::optional<QXmppE2eeMetadata>(std::nullopt): the empty optional"""
    dst = target or lw.newtmp()
    if not target:
        lw.pre.append('OptE2ee %s;' % dst)
    lw.pre.append('%s.has = false;' % dst)
    return dst


def rule_process(lw, node, args):
    """the three overloads named `process` in QXmppClient.cpp, told apart by their parameter list"""
    sig = lw.callee_ref(node).get('type', {}).get('qualType', '')
    if sig.startswith('bool (const QList<QXmppClientExtension *> &, const QDomElement &, const std::optional<QXmppE2eeMetadata> &)'):
        lw.repo_callees.add('SP_process')
        return 'SP_process(%s)' % ', '.join(args)
    if sig.startswith('bool (QXmppClient *, const QList<QXmppClientExtension *> &, QXmppE2eeExtension *, const QDomElement &)'):
        lw.repo_callees.add('MP_process4')
        return 'MP_process4(%s)' % ', '.join(args)
    if sig.startswith('bool (QXmppClient *, const QList<QXmppClientExtension *> &, QXmppMessage &&)'):
        lw.repo_callees.add('MP_process3')
        return 'MP_process3(%s)' % ', '.join(args)
    raise Unsupported('unknown overload of process: ' + sig)


def fam(name):
    """call of a function-template instantiation (QXmppIqHandling.h): each manager has its own instantiation, lowered under
    the manager's prefix (the prefix of the function being lowered)"""
    def rule(lw, node, args):
        cn = lw.cname.split('_')[0] + '_' + name
        lw.repo_callees.add(cn)
        try:
            rt = lw.ntype(lw.skip(node))
        except Unsupported:
            rt = None
        if rt in lw.p.class_types:
            t = lw.newtmp()
            # lowered signature: methods (self, _ret, args...), free functions (_ret, args...)
            al = ([args[0], '&' + t] + list(args[1:])) if node.get('kind') == 'CXXMemberCallExpr' else (['&' + t] + list(args))
            lw.pre.append('%s %s; %s(%s);' % (rt, t, cn, ', '.join(al)))
            return t
        return '%s(%s)' % (cn, ', '.join(args))
    return rule


def has_kind(n, kind):
    return n.get('kind') == kind or any(has_kind(c, kind) for c in n.get('inner', []) if isinstance(c, dict))


def rule_visit(lw, node, args_unused=None):
    """std::visit(<generic lambda>, std::move(variant)): a switch over the active alternative whose arms are the bodies of the
    lambda's operator() specialisations (as instantiated by clang for each alternative), lowered in place.  [&] captures
    refer to the enclosing function's own variables, so the bodies are lowered in the enclosing scope."""
    argn = node['inner'][1:]
    if len(argn) != 2:
        raise Unsupported('std::visit with %d arguments' % len(argn))
    lam = lw.skip(argn[0])
    if lam.get('kind') != 'LambdaExpr':
        raise Unsupported('std::visit: visitor is not a lambda')
    var = lw.skip(argn[1])
    if lw.ntype(var) != 'IqOrError':
        raise Unsupported('std::visit over %s' % lw.ntype(var))
    v = lw.addr(var)
    rec = [c for c in lam['inner'] if c.get('kind') == 'CXXRecordDecl'][0]
    ftd = [c for c in rec['inner'] if c.get('kind') == 'FunctionTemplateDecl' and c.get('name') == 'operator()']
    if len(ftd) != 1:
        raise Unsupported('std::visit: lambda is not generic')
    specs = [c for c in ftd[0]['inner'] if c.get('kind') == 'CXXMethodDecl' and any(x.get('kind') == 'TemplateArgument' for x in c.get('inner', []))]
    alts = [('alt0', 'QXmppIq'), ('alt1', 'StanzaError')]
    saved_pre, saved_out = lw.pre, lw.out
    lines = ['switch (%s->index)' % v, '{']
    for k, (field, ct) in enumerate(alts):
        match = []
        for sp in specs:
            pv = [c for c in sp['inner'] if c.get('kind') == 'ParmVarDecl']
            if len(pv) == 1 and lw.ntype(pv[0]) == ct:
                match.append((sp, pv[0]))
        if len(match) != 1:
            raise Unsupported('std::visit: %d operator() specialisations for alternative %s' % (len(match), ct))
        sp, pv = match[0]
        body = [c for c in sp['inner'] if c.get('kind') == 'CompoundStmt'][0]
        if has_kind(body, 'ReturnStmt'):
            raise Unsupported('std::visit: visitor body returns a value')
        lw.out = []
        cn, _ = lw.declare_local(dict(pv), '', is_ref=True, ctype=ct)
        lw.stmt(body, 2)
        lines += ['  case %d:' % k, '  {', '    %s *%s = &%s->%s;' % (ct, cn, v, field)] + lw.out + ['    break;', '  }']
    lines += ['  default: __CPROVER_assert(0, "MODEL-LIMIT: variant index out of range");', '}']
    lw.out = saved_out
    lw.pre = saved_pre + lines
    lw.fire('std::visit:generic-lambda')
    return '((void)0)'


class C08Lowerer(Lowerer):
    def stmt(self, n, ind):
        if n.get('kind') == 'DoStmt':
            # do { ... } while (false): the body runs exactly once (Q_UNREACHABLE and similar macros)
            body, cond = n['inner']
            c = self.skip(cond)
            if c.get('kind') != 'CXXBoolLiteralExpr' or c.get('value'):
                raise Unsupported('do-while with a condition other than literal false')
            if has_kind(body, 'BreakStmt') or has_kind(body, 'ContinueStmt'):
                raise Unsupported('do-while(false) with break/continue')
            self.fire('do-while-false')
            self.block(body, ind)
            return
        return Lowerer.stmt(self, n, ind)

    def fncall(self, n):
        if self.callee_ref(n).get('name') == 'visit' and 'fn:visit/2' in self.p.calls:
            # the visitor lambda is not evaluated as an argument: its bodies are lowered in place
            self.fire('fn:visit/2')
            return rule_visit(self, n)
        return Lowerer.fncall(self, n)

    def ifstmt(self, n, ind):
        """`if constexpr`: the condition is a compile-time constant of this instantiation; clang keeps only the selected
        branch (the discarded one is a NullStmt), so only that branch is lowered"""
        if not n.get('isConstexpr'):
            return Lowerer.ifstmt(self, n, ind)
        if n.get('hasInit') or n.get('hasVar'):
            raise Unsupported('if constexpr with init')
        inner = n['inner']
        c = inner[0]
        while c.get('kind') in ('ExprWithCleanups', 'MaterializeTemporaryExpr', 'CXXBindTemporaryExpr', 'ImplicitCastExpr') and c.get('inner'):
            c = c['inner'][0]
        if c.get('kind') != 'ConstantExpr' or c.get('value') not in ('true', 'false'):
            raise Unsupported('if constexpr without a constant condition')
        self.fire('if-constexpr:' + c['value'])
        sp = '  ' * ind
        self.emit('%s/* if constexpr (%s) */' % (sp, c['value']))
        if c['value'] == 'true':
            self.block(inner[1], ind)
        elif len(inner) > 2:
            if inner[2].get('kind') == 'IfStmt':
                self.ifstmt(inner[2], ind)
            else:
                self.block(inner[2], ind)


def decomp_tuple(lw, v, sp):
    """auto [a, b, c] = f();  ->  the tuple is kept in a temporary, the bindings name its members"""
    init = lw.skip([c for c in v['inner'] if c.get('kind') not in ('BindingDecl',)][0])
    e = lw.expr(init)
    lw.flush(sp)
    bs = [c for c in v['inner'] if c.get('kind') == 'BindingDecl']
    if len(bs) != 3:
        raise Unsupported('decomposition of TupleBQQ into %d names' % len(bs))
    for k, bnd in enumerate(bs):
        lw.locals[bnd['id']] = ('%s.f%d' % (e, k), 'bool' if k == 0 else 'qstr', False)


def disco_capabilities(lw, node, args):
    t = lw.newtmp()
    lw.repo_callees.add('Disco_capabilities')
    lw.pre.append('QXmppIq %s; Disco_capabilities(%s, &%s);' % (t, args[0], t))
    return t


def profile():
    types = {c: 'QXmppIq' for c in IQ_CLASSES}
    types.update({
        'QXmppStanza::Error': 'StanzaError', 'QXmppPresence': 'QXmppPresence', 'QXmppMessage': 'QXmppMessage',
        'QXmppPacket': 'QXmppIq',
        'std::unique_ptr<QXmppOutgoingClientPrivate>': 'QXmppOutgoingClientPrivate*',
        'QXmpp::Private::StreamAckManager': 'StreamAckManager', 'QXmpp::Private::OutgoingIqManager': 'OutgoingIqManager',
        'QXmppStreamFeatures': 'QXmppStreamFeatures', 'QXmpp::Private::HandleElementResult': 'int',
        'std::variant<StreamErrorElement,QXmppError>': 'StreamErrVariant', 'std::variant<QXmpp::Private::StreamErrorElement,QXmppError>': 'StreamErrVariant',
        'QXmpp::Private::StreamErrorElement': 'StreamErrorElement', 'typename remove_reference<StreamErrorElement>::type': 'StreamErrorElement',
        'add_pointer_t<QXmpp::Private::StreamErrorElement>': 'StreamErrorElement*',
        'QXmppOutgoingClient': 'QXmppOutgoingClient',
        'QList<QXmppClientExtension*>': 'ExtList', 'QXmppClientExtension': 'QXmppClientExtension', 'QXmppE2eeExtension': 'QXmppE2eeExtension',
        'std::optional<QXmppE2eeMetadata>': 'OptE2ee', 'std::unique_ptr<QXmppClientPrivate>': 'QXmppClientPrivate*',
        'std::unique_ptr<QXmppVCardManagerPrivate>': 'QXmppVCardManagerPrivate*',
        'std::unique_ptr<QXmppRosterManagerPrivate>': 'QXmppRosterManagerPrivate*',
        'std::tuple<bool,QString,QString>': 'TupleBQQ',
        'QXmppVersionManager': 'QXmppVersionManager', 'QXmppEntityTimeManager': 'QXmppEntityTimeManager', 'QXmppDiscoveryManager': 'QXmppDiscoveryManager',
        'std::unique_ptr<QXmppDiscoveryManagerPrivate>': 'QXmppDiscoveryManagerPrivate*',
        'std::variant<QXmppEntityTimeIq,QXmppStanza::Error>': 'IqOrError', 'std::variant<QXmppEntityTimeIq,Error>': 'IqOrError',
        'std::variant<QXmppDiscoveryIq,QXmppStanza::Error>': 'IqOrError', 'std::variant<QXmppDiscoveryIq,Error>': 'IqOrError',
        'QDateTime': 'qdatetime', 'QTimeZone': 'qtimezone', 'QXmppDiscoveryIq::QueryType': 'int',
        'QList<QXmppRosterIq::Item>': 'ItemList', 'QXmppRosterIq::Item': 'RosterItem', 'QMap<QString,QXmppRosterIq::Item>': 'EntryMap',
        'QXmppRosterIq::Item::SubscriptionType': 'int', 'QXmppClient': 'QXmppClient',
        'QXmpp::SceMode': 'int',
        'QXmppIq::Type': 'int', 'QXmppStanza::Error::Type': 'int', 'QXmppStanza::Error::Condition': 'int',
    })
    calls = {
        # ---- IQ value model (units/C08/model.h)
        'ctor:QXmppIq()': ('fn', 'QXmppIq_ctor0'),
        'ctor:QXmppIq(int)': ('fn', 'QXmppIq_ctor'),
        'QXmppIq::setId/1': ('fn', 'QXmppIq_setId'),
        'QXmppIq::setTo/1': ('fn', 'QXmppIq_setTo'),
        'QXmppIq::setType/1': ('fn', 'QXmppIq_setType'),
        'QXmppIq::setError/1': ('fn', 'QXmppIq_setError'),
        'QXmppIq::id/0': ('expr', '{v0}.id'),
        'QXmppIq::from/0': ('expr', '{v0}.from'),
        'QXmppIq::to/0': ('expr', '{v0}.to'),
        'QXmppIq::type/0': ('expr', '{v0}.type'),
        'QXmppIq::parse/1': ('callee', 'QXmppIq_parse'),
        'ctor:StanzaError(int,int)': ('fn', 'StanzaError_ctor2'),
        # QXmppPacket(const QXmppNonza &): the packet is the stanza it was built from
        'ctor:QXmppIq(QXmppIq)': None,
        # ---- emission points
        'StreamAckManager::send/1': ('expr', 'ev_emit({1})'),
        '*::sendPacket/1': ('expr', 'ev_emit({1})'),
        '*::reply/2': ('expr', 'ev_emit({1})'),
        'op->:QXmppOutgoingClientPrivate*': ('arg', 0),
        # ---- QXmppOutgoingClient::handleElement (units/C08/stream.h)
        # the TLS gate added by the C04 repair: with TLS required nothing is dispatched before the link is encrypted
        'QSslSocket::isEncrypted/0': ('const', 'gh_link_encrypted'),
        '*::streamSecurityMode/0': ('const', 'gh_cfg_security_mode'),
        'QXmppOutgoingClient::streamAckManager/0': ('expr', '{0}->d->streamAckManager'),
        'QXmppOutgoingClient::iqManager/0': ('expr', '{0}->d->iqManager'),
        'StreamAckManager::handleStanza/1': ('callee', 'SAM_handleStanza'),
        'OutgoingIqManager::handleStanza/1': ('callee', 'OIM_handleStanza'),
        # Q_EMIT elementReceived(nodeRecv, handled): connected to QXmppClient::_q_elementReceived (QXmppClient.cpp:304-305, direct connection)
        'QXmppOutgoingClient::elementReceived/2': ('expr', 'Client_q_elementReceived(gh_the_client, {1}, &{2})'),
        'fn:isStreamFeatures/1': ('callee', 'QXmppStreamFeatures_isStreamFeatures'),
        'ctor:QXmppStreamFeatures()': ('zero',),
        'QXmppStreamFeatures::parse/1': ('callee', 'QXmppStreamFeatures_parse'),
        'QXmppOutgoingClient::handleStreamFeatures/1': ('callee', 'OC_handleStreamFeatures'),
        'QXmppOutgoingClient::handleStreamError/1': ('callee', 'OC_handleStreamError'),
        'QXmppOutgoingClient::handleStanza/1': ('callee', 'OC_handleStanza'),
        'fn:fromDom/1': ('calleeret', 'StreamErrorElement_fromDom', 'StreamErrVariant'),
        'fn:get_if/1': ('fn', 'StreamErrVariant_getIf0'),
        # ---- other stanza kinds on the fallback path
        'ctor:QXmppPresence()': ('zero',),
        'ctor:QXmppMessage()': ('zero',),
        'QXmppPresence::parse/1': ('callee', 'QXmppPresence_parse'),
        'QXmppMessage::parse/1': ('callee', 'QXmppMessage_parse'),
        # ---- Qt signals: receivers are application code (not covered)
        '*::iqReceived/1': ('expr', 'ev_signal()'),
        '*::presenceReceived/1': ('expr', 'ev_signal()'),
        '*::messageReceived/1': ('expr', 'ev_signal()'),
        '*::jidBare/0': ('const', 'gh_cfg_jidBare'),
        # ---- the extension chain (units/C08/chain.h)
        'ctor:StanzaError(int,int,qstr)': ('fn', 'StanzaError_ctor3'),
        'op->:QXmppClientPrivate*': ('arg', 0),
        'OptE2ee::has_value/0': ('field', 'has'),
        'ctor:OptE2ee(std::nullopt_t)': ctor_nullopt,
        'rangefor:ExtList': rangefor_indexed('({r})->n', 'ExtList_at({r}, {i})'),
        'QXmppClientExtension::handleStanza/1': ('callee', 'Ext_handleStanza1'),
        'QXmppClientExtension::handleStanza/2': ('callee', 'Ext_handleStanza2'),
        'fn:process': rule_process,
        # ---- managers (units/C08/managers.h)
        '*::client/0': ('const', 'gh_the_client'),
        'op=:QXmppIq:QXmppIq': ('fn', 'QXmppIq_assign'),
        'op->:QXmppVCardManagerPrivate*': ('arg', 0),
        '*::clientVCardReceived/0': ('expr', 'ev_signal()'),
        '*::vCardReceived/1': ('expr', 'ev_signal()'),
        'op->:QXmppRosterManagerPrivate*': ('arg', 0),
        'fn:isRosterIq/1': ('callee', 'QXmppRosterIq_isRosterIq'),
        'QXmppIq::items/0': ('fnret', 'RosterIq_items', 'ItemList'),
        'rangefor:ItemList': rangefor_indexed('({r})->n', '(*ItemList_at({r}, {i}))'),
        'RosterItem::bareJid/0': ('expr', '{v0}.bareJid'),
        'RosterItem::subscriptionType/0': ('expr', '{v0}.subscriptionType'),
        'EntryMap::remove/1': ('fn', 'EntryMap_remove'),
        'EntryMap::contains/1': ('fn', 'EntryMap_contains'),
        'EntryMap::insert/2': ('fn', 'EntryMap_insert'),
        '*::itemRemoved/1': ('expr', 'ev_signal()'),
        '*::itemAdded/1': ('expr', 'ev_signal()'),
        '*::itemChanged/1': ('expr', 'ev_signal()'),
        # ---- QXmpp::handleIqRequests family (function templates, one instantiation per manager)
        'fn:handleIqRequests/3': fam('handleIqRequests3'),
        'fn:handleIqRequests/4': fam('handleIqRequests4'),
        'fn:handleIqType/6': fam('handleIqType'),
        'fn:invokeIqHandler/2': fam('invokeIqHandler'),
        'fn:processHandleIqResult/5': fam('processHandleIqResult'),
        'fn:checkIqType/2': fam('checkIqType'),
        'QXmppVersionManager::handleIq/1': fam('handleIq'),
        'QXmppEntityTimeManager::handleIq/1': fam('handleIq'),
        'QXmppDiscoveryManager::handleIq/1': fam('handleIq'),
        'fn:forward/1': lambda lw, node, args: strip_amp(args[0]),      # std::forward<T>(x) is x
        'fn:visit/2': ('custom', 'rule_visit'),
        'fn:checkIsIqRequest/1': ('calleeret', 'checkIsIqRequest', 'TupleBQQ'),
        'fn:sendIqReply/5': ('callee', 'sendIqReply'),
        'decomposition:std::tuple<bool,QString,QString>': decomp_tuple,
        'ctor:TupleBQQ(bool,qstr,qstr)': ('fn', 'TupleBQQ_ctor'),
        'ctor:IqOrError(QXmppIq)': ('fn', 'IqOrError_fromIq'),
        'ctor:IqOrError(StanzaError)': ('fn', 'IqOrError_fromError'),
        'QXmppIq::setE2eeMetadata/1': ('fn', 'QXmppIq_setE2ee'),
        'fn:isVersionIq/1': ('callee', 'Version_isIq'),
        'fn:isEntityTimeIq/1': ('callee', 'Time_isIq'),
        'fn:isDiscoveryIq/1': ('callee', 'Disco_isIq'),
        '*::versionReceived/1': ('expr', 'ev_signal()'),
        '*::timeReceived/1': ('expr', 'ev_signal()'),
        '*::infoReceived/1': ('expr', 'ev_signal()'),
        '*::itemsReceived/1': ('expr', 'ev_signal()'),
        # QXmppVersionManager::handleIq: payload of the answer
        'QXmppIq::setName/1': ('fn', 'QXmppIq_setStr'), 'QXmppIq::setVersion/1': ('fn', 'QXmppIq_setStr'), 'QXmppIq::setOs/1': ('fn', 'QXmppIq_setStr'),
        'QXmppVersionManager::clientName/0': ('expr', 'nondet_qstr()'), 'QXmppVersionManager::clientVersion/0': ('expr', 'nondet_qstr()'),
        'QXmppVersionManager::clientOs/0': ('expr', 'nondet_qstr()'),
        # QXmppEntityTimeManager::handleIq
        'fn:currentDateTime/0': ('expr', 'nondet_long()'),
        'qdatetime::toUTC/0': ('expr', 'nondet_long()'),
        'qdatetime::setTimeZone/1': ('fnmut', 'qdatetime_setTimeZone'),
        'ctor:qtimezone(int)': ('expr', '{0}'),
        'qdatetime::secsTo/1': ('expr', '((long long)nondet_long())'),
        'QXmppIq::setUtc/1': ('fn', 'QXmppIq_setLong'), 'QXmppIq::setTzo/1': ('fn', 'QXmppIq_setInt'),
        # QXmppDiscoveryManager::handleIq
        'QXmppIq::queryNode/0': ('expr', '{v0}.queryNode'),
        'QXmppIq::queryType/0': ('expr', '{v0}.queryType'),
        'QXmppIq::setQueryNode/1': ('fn', 'QXmppIq_setQueryNode'),
        'QXmppIq::setQueryType/1': ('fn', 'QXmppIq_setQueryType'),
        'QXmppDiscoveryManager::capabilities/0': disco_capabilities,
        'op->:QXmppDiscoveryManagerPrivate*': ('arg', 0),
        'fn:__builtin_unreachable/0': ('expr', '__CPROVER_assert(0, "[post.no_undefined_behaviour] Q_UNREACHABLE() reached")'),
        'qdom::firstChildElement/0': ('expr', 'qdom_firstChildElement({0}, 0, 0)'),
        'fn:isVCard/1': ('callee', 'QXmppVCardIq_isVCard'),
        'fn:isIqType/3': ('callee', 'isIqType'),
        'QXmppMessage::parse/2': ('callee', 'QXmppMessage_parse2'),
        'QXmppE2eeExtension::isEncrypted/1': ('callee', 'E2eeExt_isEncrypted'),
    }
    del calls['ctor:QXmppIq(QXmppIq)']
    return opaque_profile(types=types, class_types={'QXmppIq', 'StanzaError', 'QXmppPresence', 'QXmppMessage', 'StreamAckManager', 'OutgoingIqManager', 'QXmppStreamFeatures', 'StreamErrVariant', 'StreamErrorElement', 'ExtList', 'OptE2ee', 'ItemList', 'RosterItem', 'EntryMap', 'TupleBQQ', 'IqOrError'},
                          calls=calls, pure_fns={'client', 'configuration', 'jidBare', 'socket', 'isEncrypted', 'streamSecurityMode'})


STRUCTS = ''

ENUMS = {'QXmppIq::Type': {'Error', 'Get', 'Set', 'Result'},
         'QXmppStanza::Error::Condition': {'FeatureNotImplemented', 'ServiceUnavailable'}}


ASSUMED = [
    'A-STR opaque strings: equality only; literals have distinct ids (qtmodel/opaque.h)',
    'A-DOM abstract DOM: tagName/namespaceURI/attribute are functions of the node; firstChildElement returns null or a matching child; the same query gives the same answer (qtmodel/opaque.h)',
    'A-JID jidToBareJid is an uninterpreted idempotent function (qtmodel/opaque.h)',
    'A-IQ QXmppIq and its subclasses are one value struct; constructor (stores type, fresh id), id/to/from/type getters and setId/setTo/setType/setError mirror src/base/QXmppStanza.cpp / QXmppIq.cpp; payload setters do not touch addressing (units/C08/model.h)',
    'A-PARSE QXmppIq::parse: id/to/from = the attributes, type = enumerator named by the type attribute, Get when absent/unknown; QXmppDiscoveryIq queryType is one of its two enumerators (units/C08/callees.h; src/base/QXmppIq.cpp:82-90, QXmppStanza.cpp:1022-1027)',
    'A-EMIT QXmppClient::sendPacket, QXmppClient::reply and StreamAckManager::send hand exactly the given stanza to the stream, once: they are the emission events the property counts (socket state, serialisation, e2ee encryption inside reply() not represented)',
    'A-EXT every installed extension (virtual QXmppClientExtension::handleStanza, both overloads) satisfies the manager contract (units/C08/chain.h); VERIFIED for the vCard, roster, version, entity-time and discovery managers, ASSUMED for all others',
    'A-SLOT Q_EMIT elementReceived(...) runs QXmppClient::_q_elementReceived (connection at src/client/QXmppClient.cpp:304-305); receivers of all other Qt signals are application code and emit nothing that is counted',
    'A-SM StreamAckManager::handleStanza never consumes or answers an <iq/> (src/base/QXmppStreamManagement.cpp:172-188; property C09)',
    'A-IQMGR OutgoingIqManager::handleStanza returns true only for type result|error and sends nothing (src/client/QXmppOutgoingClient.cpp:1235-1283; property C07)',
    'A-MSG MessagePipeline::process(client, extensions, QXmppMessage&&), QXmppMessage::parse, QXmppPresence::parse, QXmppStreamFeatures::parse, handleStreamFeatures, handleStreamError, StreamErrorElement::fromDom: unconstrained / write their object only (only reached by non-IQ elements)',
    'A-CAPS QXmppDiscoveryManager::capabilities() writes only its result and returns an IQ whose type is an enumerator of QXmppIq::Type; client(), configuration().jidBare(), clientName/Version/Os are pure getters',
    'A-ROSTER-DATA QList<QXmppRosterIq::Item> and QMap<QString, Item> are unconstrained (symbolic length, arbitrary members): the roster view is property C12',
    'A-QDATETIME Qt date/time functions return some value',
    'A-ADDR a reply without to is handled by the own server on behalf of the account, i.e. it is addressed to the own bare JID (RFC 6120 10.3): ADDRESSED_TO in units/C08/model.h',
]
NOT_COVERED = [
    'the ~20 other bundled managers and application extensions: covered only through the assumed manager contract A-EXT',
    'asynchronous IQ handlers (handleIq returning QXmppTask; processHandleIqResult(QXmppTask<T>) is not instantiated by the five managers): "will be answered later" is not a per-call fact',
    'QXmppOutgoingClient::handlePacketReceived and the listener variant (SASL / bind / SM-resume managers own the stream before the session is open)',
    'an <iq/> outside jabber:client (rejected by the stream) and IQs whose type attribute is absent or unknown beyond "never answered"',
    'the error condition of the injectIq fallback is checked only in so far as the reply is an error-or-result IQ (the stream fallback is checked for feature-not-implemented)',
    'delivery: socket state, stream-management queueing, XML serialisation of the reply (C01/C09), encryption inside QXmppClient::reply',
]


class Part:
    def __init__(self, tgt, sp, txt, harness, replace, uses, helpers, kind, note, loops, selections, timeout=600):
        self.cname, self.sp, self.txt, self.harness, self.replace, self.uses = tgt.cname, sp, txt, harness, list(replace), list(uses)
        self.helpers, self.kind, self.note, self.loops, self.timeout = list(helpers), kind, note, loops, timeout
        self.selections = selections      # [(suffix, define, finding id or None)]


UTILS = 'src/base/QXmppUtils.cpp'
SELECT_TMPL = '#if defined(SEL_%s)\n__CPROVER_requires(%s)\n'


def build(work, tier):
    os.environ.setdefault('VERIF_JOBS', '3')       # at most three cbmc processes at a time (shared machine)
    prof = profile()
    b = Builder('C08', work, prof)
    parts = {}
    helpers = {}

    def add(tgt, sp, harness, replace=(), uses=(), helpers_=(), kind='complete', note='', loops=0, selections=None):
        """lower the real function `tgt`, splice its contract; `uses` = other lowered functions it calls through their
        contracts; `helpers_` = lowered real functions it calls that are verified inline (no contract of their own)"""
        if isinstance(sp, str):
            sp = b.spec(sp)
        txt = b.lower(tgt, sp)
        parts[tgt.cname] = Part(tgt, sp, txt, harness, replace, uses, helpers_, kind, note, loops, selections or [('', None, None)])

    def helper(tgt, deps=()):
        helpers[tgt.cname] = (b.lower(tgt, None), list(deps))

    def manager(tgt, fresh, assigns='', findings=(), loops_text='', **kw):
        """the manager contract (manager.spec.in) for handleStanza of one manager.  `findings` = [(key, discriminator, id)]:
        the contract is verified with every discriminator excluded (must pass) and once per discriminator (KNOWN-FINDING)."""
        sel = ''
        if findings:
            for k, (key, disc, fid) in enumerate(findings):
                sel += ('#if' if k == 0 else '#elif') + ' defined(SEL_%s)\n__CPROVER_requires(%s)\n' % (key, disc)
            sel += '#else\n__CPROVER_requires(%s)\n#endif' % ' && '.join('!(%s)' % d for _, d, _ in findings)
        text = rd('manager.spec.in').replace('@FRESH@', fresh).replace('@ASSIGNS@', assigns).replace('@SELECT@', sel).replace('@LOOPS@', loops_text)
        selections = [('', None, None)] + [('.' + key, 'SEL_' + key, fid) for key, _, fid in findings]
        this = tgt.this
        add(tgt, Spec(b.subst(text)), 'void h_%s(void) { %s *self; qdom element; %s(self, element); }' % (tgt.cname, this, tgt.cname),
            selections=selections, **kw)

    def register():
        # the enum constants the specification itself speaks about
        b.need_enums.setdefault((os.path.join(b_repo(), OC), ()), {}).update({k: set(v) for k, v in ENUMS.items()})

        # ------------------------------------------------------------------ stream fallback
        add(Target(OC, 'QXmppOutgoingClient::handleStanza', 'handleStanza', 'OC_handleStanza', this='QXmppOutgoingClient'),
            'oc_handleStanza.spec', 'void h_OC_handleStanza(void) { QXmppOutgoingClient *self; qdom stanza; OC_handleStanza(self, stanza); }',
            replace=['QXmppIq_parse', 'QXmppPresence_parse', 'QXmppMessage_parse'],
            note='fallback of the stream: every element, every id / from / type string (opaque)')
        # ------------------------------------------------------------------ extension chain
        add(Target(CL, 'StanzaPipeline::process', 'process', 'SP_process'),
            'sp_process.spec', 'void h_SP_process(void) { const ExtList *extensions; qdom element; const OptE2ee *e2ee; SP_process(extensions, element, e2ee); }',
            replace=['Ext_handleStanza1', 'Ext_handleStanza2'], kind='contract', loops=1,
            note='chain lemma on the real loop: any number of extensions, each satisfying the manager contract; loop closed by loop contract')
        add(Target(CL, 'MessagePipeline::process', 'process', 'MP_process4', nparams=4),
            'mp_process4.spec', 'void h_MP_process4(void) { QXmppClient *client; const ExtList *extensions; QXmppE2eeExtension *e2eeExt; qdom element; MP_process4(client, extensions, e2eeExt, element); }',
            replace=['MP_process3', 'QXmppMessage_parse', 'QXmppMessage_parse2', 'E2eeExt_isEncrypted'])
        add(Target(CL, 'QXmppClient::_q_elementReceived', '_q_elementReceived', 'Client_q_elementReceived', this='QXmppClient'),
            'cl_elementReceived.spec', 'void h_Client_q_elementReceived(void) { QXmppClient *self; qdom element; bool handled = nondet_bool(); Client_q_elementReceived(self, element, &handled); }',
            uses=['SP_process', 'MP_process4'])
        add(Target(CL, 'QXmppClient::injectIq', 'injectIq', 'Client_injectIq', this='QXmppClient'),
            'cl_injectIq.spec', 'void h_Client_injectIq(void) { QXmppClient *self; qdom element; const OptE2ee *e2ee; Client_injectIq(self, element, e2ee); }',
            uses=['SP_process'])
        # ------------------------------------------------------------------ the stream's entry point: the whole chain on the real code
        helper(Target('src/base/QXmppStreamFeatures.cpp', 'QXmppStreamFeatures::isStreamFeatures', 'isStreamFeatures', 'QXmppStreamFeatures_isStreamFeatures'))
        add(Target(OC, 'QXmppOutgoingClient::handleElement', 'handleElement', 'OC_handleElement', this='QXmppOutgoingClient'),
            'oc_handleElement.spec', 'void h_OC_handleElement(void) { QXmppOutgoingClient *self; qdom nodeRecv; OC_handleElement(self, nodeRecv); }',
            replace=['SAM_handleStanza', 'OIM_handleStanza', 'QXmppStreamFeatures_parse', 'OC_handleStreamFeatures', 'OC_handleStreamError', 'StreamErrorElement_fromDom'],
            uses=['Client_q_elementReceived', 'OC_handleStanza'], helpers_=['QXmppStreamFeatures_isStreamFeatures'],
            note='END-TO-END on the real composition: SM/IQ-response managers, the client slot (extension chain by contract), the fallback (by contract)')
        # ------------------------------------------------------------------ helpers verified inline
        helper(Target(UTILS, 'QXmpp::Private::isIqType', 'isIqType', 'isIqType'))
        helper(Target('src/base/QXmppVCardIq.cpp', 'QXmppVCardIq::isVCard', 'isVCard', 'QXmppVCardIq_isVCard'), deps=['isIqType'])
        # ------------------------------------------------------------------ managers
        manager(Target('src/client/QXmppVCardManager.cpp', 'QXmppVCardManager::handleStanza', 'handleStanza', 'VCard_handleStanza', this='QXmppVCardManager'),
                fresh='__CPROVER_is_fresh(self, sizeof(*self)) && __CPROVER_is_fresh(self->d, sizeof(*self->d))',
                assigns=', self->d->clientVCard, self->d->isClientVCardReceived',
                findings=[('VCARD_REQUEST', 'IS_REQUEST(element) && PAYLOAD_IS(element, S("vCard"), S("vcard-temp"))', 'C08-vcard-request-swallowed')],
                replace=['QXmppIq_parse'], helpers_=['QXmppVCardIq_isVCard'],
                note='every element; vCard requests (get/set) split off as the recorded finding')

        helper(Target('src/base/QXmppRosterIq.cpp', 'QXmppRosterIq::isRosterIq', 'isRosterIq', 'QXmppRosterIq_isRosterIq'), deps=['isIqType'])
        ROSTER = 'PAYLOAD_IS(element, S("query"), S("jabber:iq:roster")) && IS_IQ(element) && ROSTER_AUTHORISED(element)'
        manager(Target('src/client/QXmppRosterManager.cpp', 'QXmppRosterManager::handleStanza', 'handleStanza', 'Roster_handleStanza', this='QXmppRosterManager'),
                fresh='__CPROVER_is_fresh(self, sizeof(*self)) && __CPROVER_is_fresh(self->d, sizeof(*self->d))',
                assigns=', self->d->entries, gh_item',
                findings=[('ROSTER_GET', ROSTER + ' && IQ_TYPE_ATTR(element) == S("get")', 'C08-roster-get-swallowed'),
                          ('ROSTER_SET_OWN_FULL_JID', ROSTER + ' && IQ_TYPE_ATTR(element) == S("set") && FROM(element) != 0 && FROM(element) != gh_cfg_jidBare', 'C08-roster-set-own-resource-misaddressed')],
                loops_text='''## loop 0
    __CPROVER_assigns(__i0, gh_signals, gh_item, self->d->entries)
    //: inv.index_in_range
    __CPROVER_loop_invariant(0 <= __i0 && __i0 <= items.n)
    __CPROVER_decreases(items.n - __i0)
    ''',
                replace=['QXmppIq_parse'], helpers_=['QXmppRosterIq_isRosterIq'], kind='contract', loops=1,
                note='every element, every number of push items (loop contract); authorised get and set-from-own-full-JID split off as recorded findings')

        IQH = 'src/client/QXmppIqHandling.cpp'
        helper(Target(IQH, 'checkIsIqRequest', 'checkIsIqRequest', 'checkIsIqRequest'))
        helper(Target(IQH, 'sendIqReply', 'sendIqReply', 'sendIqReply'))

        def family(prefix, mgr, iqcls, src, iqsrc, isfn, variant, **kw):
            T = lambda filt, name, cname, **k: Target(src, filt, name, prefix + '_' + cname, lowerer_cls=C08Lowerer, **k)
            msig = mgr + ' *'
            helper(Target(iqsrc, iqcls + '::checkIqType', 'checkIqType', prefix + '_checkIqType'))
            helper(Target(iqsrc, iqcls + '::' + isfn, isfn, prefix + '_isIq'), deps=['isIqType'])
            if kw.get('handleIq_contract'):
                pass
            else:
                helper(T(mgr + '::handleIq', 'handleIq', 'handleIq', this=mgr))
            helper(T('processHandleIqResult', 'processHandleIqResult', 'processHandleIqResult', sig=('std::variant<' + iqcls) if variant else (iqcls + ' &&')), deps=['sendIqReply'])
            helper(T('invokeIqHandler', 'invokeIqHandler', 'invokeIqHandler', sig=msig), deps=[prefix + '_handleIq'])
            helper(T('handleIqType', 'handleIqType', 'handleIqType', sig=msig), deps=[prefix + '_checkIqType', prefix + '_invokeIqHandler', prefix + '_processHandleIqResult'])
            helper(T('handleIqRequests', 'handleIqRequests', 'handleIqRequests4', sig=msig, nparams=4), deps=['checkIsIqRequest', prefix + '_handleIqType'])
            helper(T('handleIqRequests', 'handleIqRequests', 'handleIqRequests3', sig=msig, nparams=3), deps=[prefix + '_handleIqRequests4'])
            manager(T(mgr + '::handleStanza', 'handleStanza', 'handleStanza', this=mgr),
                    fresh=kw.get('fresh', '__CPROVER_is_fresh(self, sizeof(*self))'), replace=['QXmppIq_parse'] + kw.get('replace', []),
                    helpers_=[prefix + '_handleIqRequests3', prefix + '_isIq'],
                    note='whole manager through every layer of the real QXmpp::handleIqRequests templates as instantiated for it')

        family('Time', 'QXmppEntityTimeManager', 'QXmppEntityTimeIq', 'src/client/QXmppEntityTimeManager.cpp', 'src/base/QXmppEntityTimeIq.cpp', 'isEntityTimeIq', True)
        family('Disco', 'QXmppDiscoveryManager', 'QXmppDiscoveryIq', 'src/client/QXmppDiscoveryManager.cpp', 'src/base/QXmppDiscoveryIq.cpp', 'isDiscoveryIq', True,
               fresh='__CPROVER_is_fresh(self, sizeof(*self)) && __CPROVER_is_fresh(self->d, sizeof(*self->d))', replace=['Disco_capabilities'])
        family('Version', 'QXmppVersionManager', 'QXmppVersionIq', 'src/client/QXmppVersionManager.cpp', 'src/base/QXmppVersionIq.cpp', 'isVersionIq', False)

    # pass 1 only collects the (translation unit, filter) pairs, so that clang can dump them concurrently; pass 2 lowers
    wanted = []
    b.lower = lambda tgt, sp=None, **k: (wanted.append((tgt.src, tgt.filt, tgt.extra_flags)), 'void _dry(void)\n{\n}')[1]
    register()
    del b.lower
    parts.clear()
    helpers.clear()
    prefetch(wanted)
    register()

    ctxt = dedupe_lines(b.context())
    pre = ''.join(b.subst(rd(n)) for n in ('model.h', 'callees.h', 'chain.h', 'managers.h', 'stream.h'))

    def closure(names, acc):
        for n in names:
            for d in helpers[n][1]:
                closure([d], acc)
            if n not in acc:
                acc.append(n)
        return acc

    proofs = []
    for cname, pt in parts.items():
        protos = ''.join(b.prototype(parts[u].txt) for u in pt.uses)
        hl = ''.join(helpers[h][0] + '\n' for h in closure(pt.helpers, []))
        c = '#include "opaque.h"\n' + prof.literal_ids.table() + ctxt + '\n' + pre + STRUCTS + protos + hl + pt.txt + '\n' + pt.harness + '\n'
        f = b.write(cname + '.c', c)
        for suffix, define, fid in pt.selections:
            p = Proof(cname + suffix, f, 'h_' + cname, enforce=cname, replace=pt.replace + pt.uses, kind=pt.kind, include_dirs=[QT], timeout=pt.timeout,
                      loop_contracts=(pt.kind == 'contract'), expect_loops=pt.loops, note=pt.note, defines=[define] if define else [])
            p.labels = {'post': {cname: pt.sp.labels}, 'inv': {cname: pt.sp.inv_labels.get(0, [])}}
            p.expect_post = len(pt.sp.labels)
            if fid:
                p.finding = fid
                p.note = 'restricted to the discriminator of finding %s' % fid
            proofs.append(p)
    explanation = 'reply-count contract (ghost emission log) on the real dispatch chain, the fallbacks and five managers; see units/C08/manifest.json'
    if tier == 'thorough':
        explanation += ' | ' + native_corpus_summary()
    alltext = ''.join(rd(n) for n in ('model.h', 'callees.h', 'chain.h', 'managers.h', 'stream.h')) + open(os.path.join(QT, 'opaque.h')).read()
    return {
        'proofs': proofs, 'functions': b.functions, 'dropped': b.dropped, 'fired': b.fired, 'hooks': [],
        'assumed': ASSUMED,
        'assumes': scan_assumes(alltext),
        'not_covered': NOT_COVERED,
        'explanation': explanation,
    }


def prefetch(wanted):
    """run the clang AST dumps of all targets concurrently (each is a separate clang process; results land in astx's cache)"""
    from concurrent.futures import ThreadPoolExecutor
    from vlib import astx
    uniq = []
    for w in wanted:
        if w not in uniq:
            uniq.append(w)

    def one(w):
        try:
            astx.dump(*w)
        except Exception:
            pass        # reported by the real lowering pass

    with ThreadPoolExecutor(max_workers=int(os.environ.get('VERIF_CLANG_JOBS', '4'))) as ex:
        list(ex.map(one, uniq))


def dedupe_lines(text):
    """the same enum / constant is needed by functions of several TUs: emit each definition once"""
    seen, out = set(), []
    for l in text.splitlines():
        if l.strip() and l in seen:
            continue
        seen.add(l)
        out.append(l)
    return '\n'.join(out)


def b_repo():
    from vlib.configure import REPO
    return REPO


# ---------------------------------------------------------------------------------------------------------------------
# native replay: a failed obligation is turned into a concrete stanza by running a systematic corpus of IQs through the
# REAL library (units/C08/replay_iq.cpp) and keeping the first one whose end-to-end postcondition is violated
OWN_BARE = 'me@example.org'
FROMS = [None, OWN_BARE, OWN_BARE + '/other', 'eve@evil.example/x', 'example.org']
PAYLOADS = {
    'vcard': "<vCard xmlns='vcard-temp'/>",
    'roster': "<query xmlns='jabber:iq:roster'/>",
    'roster-item': "<query xmlns='jabber:iq:roster'><item jid='a@b.c' subscription='both'/></query>",
    'version': "<query xmlns='jabber:iq:version'/>",
    'time': "<time xmlns='urn:xmpp:time'/>",
    'disco-info': "<query xmlns='http://jabber.org/protocol/disco#info'/>",
    'disco-info-node': "<query xmlns='http://jabber.org/protocol/disco#info' node='urn:example:unknown'/>",
    'disco-items': "<query xmlns='http://jabber.org/protocol/disco#items'/>",
    'unknown': "<unknown xmlns='urn:example:nothing'/>",
    'none': '',
    'two-children': "<unknown xmlns='urn:example:nothing'/><query xmlns='jabber:iq:version'/>",
}
RELEVANT = {'VCard': ['vcard'], 'Roster': ['roster', 'roster-item'], 'Version': ['version', 'two-children'], 'Time': ['time'],
            'Disco': ['disco-info', 'disco-info-node', 'disco-items']}


def corpus(payload_keys=None):
    out = []
    for pk, payload in PAYLOADS.items():
        if payload_keys and pk not in payload_keys:
            continue
        for typ in ('get', 'set', 'result', 'error'):
            for frm in FROMS:
                xml = "<iq xmlns='jabber:client' id='q1' type='%s'%s to='%s/here'>%s</iq>" % (typ, (" from='%s'" % frm) if frm else '', OWN_BARE, payload)
                out.append({'payload': pk, 'type': typ, 'from': frm, 'xml': xml})
    return out


def finding_of(c):
    """which recorded finding (discriminator) a corpus stanza belongs to"""
    if c['payload'] == 'vcard' and c['type'] in ('get', 'set'):
        return 'C08-vcard-request-swallowed'
    authorised = c['from'] is None or c['from'] == OWN_BARE or c['from'].startswith(OWN_BARE + '/')
    if c['payload'].startswith('roster') and authorised and c['type'] == 'get':
        return 'C08-roster-get-swallowed'
    if c['payload'].startswith('roster') and c['type'] == 'set' and c['from'] and c['from'].startswith(OWN_BARE + '/'):
        return 'C08-roster-set-own-resource-misaddressed'
    return None


def run_native(mode, xmls):
    from vlib import native
    rc, out = native.run_driver(os.path.join(HERE, 'replay_iq.cpp'), [mode] + list(xmls))
    verdicts = re.findall(r'^CASE (\d+) .*POST=(ok|VIOLATED)$', out, re.M)
    return rc, out, {int(n): v for n, v in verdicts}


def native_corpus_summary():
    """thorough tier, information only (it guards the trusted base, it decides nothing): the whole stanza corpus is run through
    the real client in both modes and the set of violated cases is compared with the recorded findings' discriminators"""
    try:
        cases = corpus()
        text = []
        for mode in ('stream', 'inject'):
            rc, out, verdicts = run_native(mode, [c['xml'] for c in cases])
            bad = [cases[n - 1] for n, v in verdicts.items() if v == 'VIOLATED']
            outside = [c for c in bad if finding_of(c) is None]
            missing = [c for c in cases if finding_of(c) is not None and c not in bad]
            text.append('native corpus (%s): %d stanzas, %d violate the end-to-end postcondition, %d of them outside the recorded findings, %d stanzas inside a finding class do not violate it'
                        % (mode, len(cases), len(bad), len(outside), len(missing)))
        return '; '.join(text)
    except Exception as e:
        return 'native corpus not run: %s' % e


def find_input(unit, p, o, lab, work):
    import json
    open_ids = set()
    try:
        for f in json.load(open(os.path.join(HERE, 'findings.json'))):
            if f.get('status') == 'open':
                open_ids.add(f['id'])
    except OSError:
        pass
    mode = 'inject' if p.id.startswith('Client_injectIq') else 'stream'
    keys = RELEVANT.get(p.id.split('_')[0].split('.')[0])
    cases = corpus(keys)
    fid = getattr(p, 'finding', None)
    if fid:
        cases = [c for c in cases if finding_of(c) == fid]
    else:
        cases = [c for c in cases if finding_of(c) not in open_ids]
    rc, out, verdicts = run_native(mode, [c['xml'] for c in cases])
    bad = [cases[n - 1] for n, v in sorted(verdicts.items()) if v == 'VIOLATED']
    if not bad:
        return {'inputs': None, 'reproduced': False, 'native_search': '%d stanzas run through the real client (%s), none violates the end-to-end postcondition' % (len(cases), mode)}
    c = bad[0]
    line = [l for l in out.splitlines() if l.startswith('CASE %d ' % (cases.index(c) + 1))]
    return {'inputs': {'mode': mode, 'stanza': c['xml'], 'own_jid': OWN_BARE + '/here'}, 'reproduced': True, 'native_output': line[0] if line else '',
            'other_failing_inputs': [x['xml'] for x in bad[1:6]]}


def native_replay(rp):
    inp = rp['inputs']
    rc, out, verdicts = run_native(inp['mode'], [inp['stanza']])
    return (rc == 1 and verdicts.get(1) == 'VIOLATED'), out
