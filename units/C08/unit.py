"""C08 -- every incoming IQ request is answered exactly once; responses are never answered."""
import os, re
from vlib.unit import Builder, Target, Spec, VERIF, scan_assumes
from vlib.runner import Proof
from vlib.opaque_profile import opaque_profile
from vlib.cxx2c import Unsupported, rangefor_indexed

QT = os.path.join(VERIF, 'qtmodel')
HERE = os.path.dirname(os.path.abspath(__file__))
OC = 'src/client/QXmppOutgoingClient.cpp'
CL = 'src/client/QXmppClient.cpp'

IQ_CLASSES = ['QXmppIq', 'QXmppVCardIq', 'QXmppRosterIq', 'QXmppVersionIq', 'QXmppEntityTimeIq', 'QXmppDiscoveryIq']


def rd(name):
    return open(os.path.join(HERE, name)).read()


def ctor_nullopt(lw, n, target):
    """std::optional<QXmppE2eeMetadata>(std::nullopt): the empty optional"""
    dst = target or lw.newtmp()
    if not target:
        lw.pre.append('OptE2ee %s;' % dst)
    lw.pre.append('%s.has = false;' % dst)
    return dst


def rule_process(lw, node, args):
    """the three overloads named `process` in QXmppClient.cpp, told apart by their parameter list"""
    sig = lw.callee_ref(node).get('type', {}).get('qualType', '')
    if sig.startswith('bool (const QList<QXmppClientExtension *> &, const QDomElement &, const std::optional<QXmppE2eeMetadata> &)'):
        lw.repo_callees.add('SP_process')
        return 'SP_process(%s)' % ', '.join(args)
    if sig.startswith('bool (QXmppClient *, const QList<QXmppClientExtension *> &, QXmppE2eeExtension *, const QDomElement &)'):
        lw.repo_callees.add('MP_process4')
        return 'MP_process4(%s)' % ', '.join(args)
    if sig.startswith('bool (QXmppClient *, const QList<QXmppClientExtension *> &, QXmppMessage &&)'):
        lw.repo_callees.add('MP_process3')
        return 'MP_process3(%s)' % ', '.join(args)
    raise Unsupported('unknown overload of process: ' + sig)


def profile():
    types = {c: 'QXmppIq' for c in IQ_CLASSES}
    types.update({
        'QXmppStanza::Error': 'StanzaError', 'QXmppPresence': 'QXmppPresence', 'QXmppMessage': 'QXmppMessage',
        'QXmppPacket': 'QXmppIq',
        'std::unique_ptr<QXmppOutgoingClientPrivate>': 'QXmppOutgoingClientPrivate*',
        'QXmpp::Private::StreamAckManager': 'StreamAckManager',
        'QList<QXmppClientExtension*>': 'ExtList', 'QXmppClientExtension': 'QXmppClientExtension', 'QXmppE2eeExtension': 'QXmppE2eeExtension',
        'std::optional<QXmppE2eeMetadata>': 'OptE2ee', 'std::unique_ptr<QXmppClientPrivate>': 'QXmppClientPrivate*',
        'std::unique_ptr<QXmppVCardManagerPrivate>': 'QXmppVCardManagerPrivate*',
        'std::unique_ptr<QXmppRosterManagerPrivate>': 'QXmppRosterManagerPrivate*',
        'QList<QXmppRosterIq::Item>': 'ItemList', 'QXmppRosterIq::Item': 'RosterItem', 'QMap<QString,QXmppRosterIq::Item>': 'EntryMap',
        'QXmppRosterIq::Item::SubscriptionType': 'int', 'QXmppClient': 'QXmppClient',
        'QXmpp::SceMode': 'int',
        'QXmppIq::Type': 'int', 'QXmppStanza::Error::Type': 'int', 'QXmppStanza::Error::Condition': 'int',
    })
    calls = {
        # ---- IQ value model (units/C08/model.h)
        'ctor:QXmppIq()': ('fn', 'QXmppIq_ctor0'),
        'ctor:QXmppIq(int)': ('fn', 'QXmppIq_ctor'),
        'QXmppIq::setId/1': ('fn', 'QXmppIq_setId'),
        'QXmppIq::setTo/1': ('fn', 'QXmppIq_setTo'),
        'QXmppIq::setType/1': ('fn', 'QXmppIq_setType'),
        'QXmppIq::setError/1': ('fn', 'QXmppIq_setError'),
        'QXmppIq::id/0': ('expr', '{v0}.id'),
        'QXmppIq::from/0': ('expr', '{v0}.from'),
        'QXmppIq::to/0': ('expr', '{v0}.to'),
        'QXmppIq::type/0': ('expr', '{v0}.type'),
        'QXmppIq::parse/1': ('callee', 'QXmppIq_parse'),
        'ctor:StanzaError(int,int)': ('fn', 'StanzaError_ctor2'),
        # QXmppPacket(const QXmppNonza &): the packet is the stanza it was built from
        'ctor:QXmppIq(QXmppIq)': None,
        # ---- emission points
        'StreamAckManager::send/1': ('expr', 'ev_emit({1})'),
        '*::sendPacket/1': ('expr', 'ev_emit({1})'),
        '*::reply/2': ('expr', 'ev_emit({1})'),
        'op->:QXmppOutgoingClientPrivate*': ('arg', 0),
        # ---- other stanza kinds on the fallback path
        'ctor:QXmppPresence()': ('zero',),
        'ctor:QXmppMessage()': ('zero',),
        'QXmppPresence::parse/1': ('callee', 'QXmppPresence_parse'),
        'QXmppMessage::parse/1': ('callee', 'QXmppMessage_parse'),
        # ---- Qt signals: receivers are application code (not covered)
        '*::iqReceived/1': ('expr', 'ev_signal()'),
        '*::presenceReceived/1': ('expr', 'ev_signal()'),
        '*::messageReceived/1': ('expr', 'ev_signal()'),
        '*::jidBare/0': ('const', 'gh_cfg_jidBare'),
        # ---- the extension chain (units/C08/chain.h)
        'ctor:StanzaError(int,int,qstr)': ('fn', 'StanzaError_ctor3'),
        'op->:QXmppClientPrivate*': ('arg', 0),
        'OptE2ee::has_value/0': ('field', 'has'),
        'ctor:OptE2ee(std::nullopt_t)': ctor_nullopt,
        'rangefor:ExtList': rangefor_indexed('{r}->n', 'ExtList_at({r}, {i})'),
        'QXmppClientExtension::handleStanza/1': ('callee', 'Ext_handleStanza1'),
        'QXmppClientExtension::handleStanza/2': ('callee', 'Ext_handleStanza2'),
        'fn:process': rule_process,
        # ---- managers (units/C08/managers.h)
        '*::client/0': ('const', 'gh_the_client'),
        'op=:QXmppIq:QXmppIq': ('fn', 'QXmppIq_assign'),
        'op->:QXmppVCardManagerPrivate*': ('arg', 0),
        '*::clientVCardReceived/0': ('expr', 'ev_signal()'),
        '*::vCardReceived/1': ('expr', 'ev_signal()'),
        'op->:QXmppRosterManagerPrivate*': ('arg', 0),
        'fn:isRosterIq/1': ('callee', 'QXmppRosterIq_isRosterIq'),
        'QXmppIq::items/0': ('fnret', 'RosterIq_items', 'ItemList'),
        'rangefor:ItemList': rangefor_indexed('{r}->n', '(*ItemList_at({r}, {i}))'),
        'RosterItem::bareJid/0': ('expr', '{v0}.bareJid'),
        'RosterItem::subscriptionType/0': ('expr', '{v0}.subscriptionType'),
        'EntryMap::remove/1': ('fn', 'EntryMap_remove'),
        'EntryMap::contains/1': ('fn', 'EntryMap_contains'),
        'EntryMap::insert/2': ('fn', 'EntryMap_insert'),
        '*::itemRemoved/1': ('expr', 'ev_signal()'),
        '*::itemAdded/1': ('expr', 'ev_signal()'),
        '*::itemChanged/1': ('expr', 'ev_signal()'),
        'qdom::firstChildElement/0': ('expr', 'qdom_firstChildElement({0}, 0, 0)'),
        'fn:isVCard/1': ('callee', 'QXmppVCardIq_isVCard'),
        'fn:isIqType/3': ('callee', 'isIqType'),
        'QXmppMessage::parse/2': ('callee', 'QXmppMessage_parse2'),
        'QXmppE2eeExtension::isEncrypted/1': ('callee', 'E2eeExt_isEncrypted'),
    }
    del calls['ctor:QXmppIq(QXmppIq)']
    return opaque_profile(types=types, class_types={'QXmppIq', 'StanzaError', 'QXmppPresence', 'QXmppMessage', 'StreamAckManager', 'ExtList', 'OptE2ee', 'ItemList', 'RosterItem', 'EntryMap'},
                          calls=calls, pure_fns={'client', 'configuration', 'jidBare'})


STRUCTS = '''
typedef struct StreamAckManager { int opaque; } StreamAckManager;
typedef struct QXmppOutgoingClientPrivate { StreamAckManager streamAckManager; } QXmppOutgoingClientPrivate;
typedef struct QXmppOutgoingClient { QXmppOutgoingClientPrivate *d; } QXmppOutgoingClient;
'''

ENUMS = {'QXmppIq::Type': {'Error', 'Get', 'Set', 'Result'},
         'QXmppStanza::Error::Condition': {'FeatureNotImplemented', 'ServiceUnavailable'}}


class Part:
    def __init__(self, tgt, sp, txt, harness, replace, uses, helpers, kind, note, loops, selections, timeout=600):
        self.cname, self.sp, self.txt, self.harness, self.replace, self.uses = tgt.cname, sp, txt, harness, list(replace), list(uses)
        self.helpers, self.kind, self.note, self.loops, self.timeout = list(helpers), kind, note, loops, timeout
        self.selections = selections      # [(suffix, define, finding id or None)]


UTILS = 'src/base/QXmppUtils.cpp'
SELECT_TMPL = '#if defined(SEL_%s)\n__CPROVER_requires(%s)\n'


def build(work, tier):
    prof = profile()
    b = Builder('C08', work, prof)
    parts = {}
    helpers = {}

    def add(tgt, sp, harness, replace=(), uses=(), helpers_=(), kind='complete', note='', loops=0, selections=None):
        """lower the real function `tgt`, splice its contract; `uses` = other lowered functions it calls through their
        contracts; `helpers_` = lowered real functions it calls that are verified inline (no contract of their own)"""
        if isinstance(sp, str):
            sp = b.spec(sp)
        txt = b.lower(tgt, sp)
        parts[tgt.cname] = Part(tgt, sp, txt, harness, replace, uses, helpers_, kind, note, loops, selections or [('', None, None)])

    def helper(tgt, deps=()):
        helpers[tgt.cname] = (b.lower(tgt, None), list(deps))

    def manager(tgt, fresh, assigns='', findings=(), loops_text='', **kw):
        """the manager contract (manager.spec.in) for handleStanza of one manager.  `findings` = [(key, discriminator, id)]:
        the contract is verified with every discriminator excluded (must pass) and once per discriminator (KNOWN-FINDING)."""
        sel = ''
        if findings:
            for k, (key, disc, fid) in enumerate(findings):
                sel += ('#if' if k == 0 else '#elif') + ' defined(SEL_%s)\n__CPROVER_requires(%s)\n' % (key, disc)
            sel += '#else\n__CPROVER_requires(%s)\n#endif' % ' && '.join('!(%s)' % d for _, d, _ in findings)
        text = rd('manager.spec.in').replace('@FRESH@', fresh).replace('@ASSIGNS@', assigns).replace('@SELECT@', sel).replace('@LOOPS@', loops_text)
        selections = [('', None, None)] + [('.' + key, 'SEL_' + key, fid) for key, _, fid in findings]
        this = tgt.this
        add(tgt, Spec(b.subst(text)), 'void h_%s(void) { %s *self; qdom element; %s(self, element); }' % (tgt.cname, this, tgt.cname),
            selections=selections, **kw)

    # the enum constants the specification itself speaks about
    b.need_enums.setdefault((os.path.join(b_repo(), OC), ()), {}).update({k: set(v) for k, v in ENUMS.items()})

    # ------------------------------------------------------------------ stream fallback
    add(Target(OC, 'QXmppOutgoingClient::handleStanza', 'handleStanza', 'OC_handleStanza', this='QXmppOutgoingClient'),
        'oc_handleStanza.spec', 'void h_OC_handleStanza(void) { QXmppOutgoingClient *self; qdom stanza; OC_handleStanza(self, stanza); }',
        replace=['QXmppIq_parse', 'QXmppPresence_parse', 'QXmppMessage_parse'],
        note='fallback of the stream: every element, every id / from / type string (opaque)')
    # ------------------------------------------------------------------ extension chain
    add(Target(CL, 'StanzaPipeline::process', 'process', 'SP_process'),
        'sp_process.spec', 'void h_SP_process(void) { const ExtList *extensions; qdom element; const OptE2ee *e2ee; SP_process(extensions, element, e2ee); }',
        replace=['Ext_handleStanza1', 'Ext_handleStanza2'], kind='contract', loops=1,
        note='chain lemma on the real loop: any number of extensions, each satisfying the manager contract; loop closed by loop contract')
    add(Target(CL, 'MessagePipeline::process', 'process', 'MP_process4', nparams=4),
        'mp_process4.spec', 'void h_MP_process4(void) { QXmppClient *client; const ExtList *extensions; QXmppE2eeExtension *e2eeExt; qdom element; MP_process4(client, extensions, e2eeExt, element); }',
        replace=['MP_process3', 'QXmppMessage_parse', 'QXmppMessage_parse2', 'E2eeExt_isEncrypted'])
    add(Target(CL, 'QXmppClient::_q_elementReceived', '_q_elementReceived', 'Client_q_elementReceived', this='QXmppClient'),
        'cl_elementReceived.spec', 'void h_Client_q_elementReceived(void) { QXmppClient *self; qdom element; bool *handled; Client_q_elementReceived(self, element, handled); }',
        uses=['SP_process', 'MP_process4'])
    add(Target(CL, 'QXmppClient::injectIq', 'injectIq', 'Client_injectIq', this='QXmppClient'),
        'cl_injectIq.spec', 'void h_Client_injectIq(void) { QXmppClient *self; qdom element; const OptE2ee *e2ee; Client_injectIq(self, element, e2ee); }',
        uses=['SP_process'])
    # ------------------------------------------------------------------ helpers verified inline
    helper(Target(UTILS, 'QXmpp::Private::isIqType', 'isIqType', 'isIqType'))
    helper(Target('src/base/QXmppVCardIq.cpp', 'QXmppVCardIq::isVCard', 'isVCard', 'QXmppVCardIq_isVCard'), deps=['isIqType'])
    # ------------------------------------------------------------------ managers
    manager(Target('src/client/QXmppVCardManager.cpp', 'QXmppVCardManager::handleStanza', 'handleStanza', 'VCard_handleStanza', this='QXmppVCardManager'),
            fresh='__CPROVER_is_fresh(self, sizeof(*self)) && __CPROVER_is_fresh(self->d, sizeof(*self->d))',
            assigns=', self->d->clientVCard, self->d->isClientVCardReceived',
            findings=[('VCARD_REQUEST', 'IS_REQUEST(element) && PAYLOAD_IS(element, S("vCard"), S("vcard-temp"))', 'C08-vcard-request-swallowed')],
            replace=['QXmppIq_parse'], helpers_=['QXmppVCardIq_isVCard'],
            note='every element; vCard requests (get/set) split off as the recorded finding')

    helper(Target('src/base/QXmppRosterIq.cpp', 'QXmppRosterIq::isRosterIq', 'isRosterIq', 'QXmppRosterIq_isRosterIq'), deps=['isIqType'])
    ROSTER = 'PAYLOAD_IS(element, S("query"), S("jabber:iq:roster")) && IS_IQ(element) && ROSTER_AUTHORISED(element)'
    manager(Target('src/client/QXmppRosterManager.cpp', 'QXmppRosterManager::handleStanza', 'handleStanza', 'Roster_handleStanza', this='QXmppRosterManager'),
            fresh='__CPROVER_is_fresh(self, sizeof(*self)) && __CPROVER_is_fresh(self->d, sizeof(*self->d))',
            assigns=', self->d->entries, gh_item',
            findings=[('ROSTER_GET', ROSTER + ' && IQ_TYPE_ATTR(element) == S("get")', 'C08-roster-get-swallowed'),
                      ('ROSTER_SET_OWN_FULL_JID', ROSTER + ' && IQ_TYPE_ATTR(element) == S("set") && FROM(element) != 0 && FROM(element) != gh_cfg_jidBare', 'C08-roster-set-own-resource-misaddressed')],
            loops_text='''## loop 0
__CPROVER_assigns(__i0, gh_signals, gh_item, self->d->entries)
//: inv.index_in_range
__CPROVER_loop_invariant(0 <= __i0 && __i0 <= items.n)
__CPROVER_decreases(items.n - __i0)
''',
            replace=['QXmppIq_parse'], helpers_=['QXmppRosterIq_isRosterIq'], kind='contract', loops=1,
            note='every element, every number of push items (loop contract); authorised get and set-from-own-full-JID split off as recorded findings')

    ctxt = dedupe_lines(b.context())
    pre = ''.join(b.subst(rd(n)) for n in ('model.h', 'callees.h', 'chain.h', 'managers.h'))

    def closure(names, acc):
        for n in names:
            for d in helpers[n][1]:
                closure([d], acc)
            if n not in acc:
                acc.append(n)
        return acc

    proofs = []
    for cname, pt in parts.items():
        protos = ''.join(b.prototype(parts[u].txt) for u in pt.uses)
        hl = ''.join(helpers[h][0] + '\n' for h in closure(pt.helpers, []))
        c = '#include "opaque.h"\n' + prof.literal_ids.table() + ctxt + '\n' + pre + STRUCTS + protos + hl + pt.txt + '\n' + pt.harness + '\n'
        f = b.write(cname + '.c', c)
        for suffix, define, fid in pt.selections:
            p = Proof(cname + suffix, f, 'h_' + cname, enforce=cname, replace=pt.replace + pt.uses, kind=pt.kind, include_dirs=[QT], timeout=pt.timeout,
                      loop_contracts=(pt.kind == 'contract'), expect_loops=pt.loops, note=pt.note, defines=[define] if define else [])
            p.labels = {'post': {cname: pt.sp.labels}, 'inv': {cname: pt.sp.inv_labels.get(0, [])}}
            p.expect_post = len(pt.sp.labels)
            if fid:
                p.finding = fid
                p.note = 'restricted to the discriminator of finding %s' % fid
            proofs.append(p)
    alltext = ''.join(rd(n) for n in ('model.h', 'callees.h', 'chain.h', 'managers.h')) + open(os.path.join(QT, 'opaque.h')).read()
    return {
        'proofs': proofs, 'functions': b.functions, 'dropped': b.dropped, 'fired': b.fired, 'hooks': [],
        'assumed': [],
        'assumes': scan_assumes(alltext),
        'not_covered': [],
    }


def dedupe_lines(text):
    """the same enum / constant is needed by functions of several TUs: emit each definition once"""
    seen, out = set(), []
    for l in text.splitlines():
        if l.strip() and l in seen:
            continue
        seen.add(l)
        out.append(l)
    return '\n'.join(out)


def b_repo():
    from vlib.configure import REPO
    return REPO
