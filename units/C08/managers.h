/* C08 -- data members of the anchored managers that their handleStanza touches */
QXmppClient *gh_the_client;                                            /* QXmppClientExtension::client() */
static inline void QXmppIq_assign(QXmppIq *d, const QXmppIq *s) { *d = *s; }
typedef struct QXmppVCardManagerPrivate { QXmppIq clientVCard; bool isClientVCardReceived; } QXmppVCardManagerPrivate;
typedef struct QXmppVCardManager { QXmppVCardManagerPrivate *d; } QXmppVCardManager;
/* first child element of the IQ (what isIqType / checkIsIqRequest look at) */
#define PAYLOAD(e) __CPROVER_uninterpreted_dom_first_child((e), 0, 0)
#define PAYLOAD_IS(e, tag, ns) ((e) != 0 && PAYLOAD(e) != 0 && __CPROVER_uninterpreted_dom_tag(PAYLOAD(e)) == (tag) && __CPROVER_uninterpreted_dom_ns(PAYLOAD(e)) == (ns))
/* ---- roster manager: the push items and the entries map are irrelevant to the reply count; they are unconstrained
 *      (the roster view itself is property C12) */
typedef struct RosterItem { qstr bareJid; int subscriptionType; } RosterItem;
typedef struct ItemList { int n; } ItemList;                              /* QList<QXmppRosterIq::Item>: symbolic length */
typedef struct EntryMap { int opaque; } EntryMap;                         /* QMap<QString, QXmppRosterIq::Item> */
typedef struct QXmppRosterManagerPrivate { EntryMap entries; } QXmppRosterManagerPrivate;
typedef struct QXmppRosterManager { QXmppRosterManagerPrivate *d; } QXmppRosterManager;
RosterItem gh_item;                                                       /* the item the iteration currently looks at */
static inline void RosterIq_items(ItemList *ret, const QXmppIq *iq) { (void)iq; int n = nondet_int(); __CPROVER_assume(n >= 0); ret->n = n; }
static inline const RosterItem *ItemList_at(const ItemList *l, int i) { (void)l; (void)i; gh_item.bareJid = nondet_qstr(); gh_item.subscriptionType = nondet_int(); return &gh_item; }
static inline int EntryMap_remove(EntryMap *m, qstr k) { (void)k; m->opaque = nondet_int(); int r = nondet_int(); __CPROVER_assume(r >= 0); return r; }
static inline bool EntryMap_contains(const EntryMap *m, qstr k) { (void)m; (void)k; return nondet_bool(); }
static inline void EntryMap_insert(EntryMap *m, qstr k, const RosterItem *v) { (void)k; (void)v; m->opaque = nondet_int(); }
#define FROM(e) qdom_attribute((e), S("from"))
#define ROSTER_AUTHORISED(e) (FROM(e) == 0 || __CPROVER_uninterpreted_jid_bare(FROM(e)) == gh_cfg_jidBare)
/* ---- managers built on QXmpp::handleIqRequests (QXmppIqHandling.h) */
typedef struct TupleBQQ { bool f0; qstr f1; qstr f2; } TupleBQQ;          /* std::tuple<bool, QString, QString> */
static inline void TupleBQQ_ctor(TupleBQQ *t, bool a, qstr b, qstr c) { t->f0 = a; t->f1 = b; t->f2 = c; }
/* std::variant<SomeIq, QXmppStanza::Error>: index + both alternatives (only the active one is meaningful) */
typedef struct IqOrError { int index; QXmppIq alt0; StanzaError alt1; } IqOrError;
static inline void IqOrError_fromIq(IqOrError *v, const QXmppIq *q) { v->index = 0; v->alt0 = *q; v->alt1.type = -1; v->alt1.cond = -1; }
static inline void IqOrError_fromError(IqOrError *v, const StanzaError *e) { v->index = 1; v->alt1 = *e; QXmppIq_ctor0(&v->alt0); }
static inline void QXmppIq_setE2ee(QXmppIq *q, const OptE2ee *m) { (void)q; (void)m; }
static inline void QXmppIq_setStr(QXmppIq *q, qstr v) { (void)q; (void)v; }     /* payload setters: not part of the addressing */
static inline void QXmppIq_setInt(QXmppIq *q, int v) { (void)q; (void)v; }
typedef struct QXmppVersionManager { int opaque; } QXmppVersionManager;
typedef struct QXmppEntityTimeManager { int opaque; } QXmppEntityTimeManager;
typedef struct QXmppDiscoveryManagerPrivate { qstr clientCapabilitiesNode; } QXmppDiscoveryManagerPrivate;
typedef struct QXmppDiscoveryManager { QXmppDiscoveryManagerPrivate *d; } QXmppDiscoveryManager;
/* Qt date/time values used by QXmppEntityTimeManager::handleIq: opaque numbers (A-QDATETIME: the functions return some value) */
typedef long qdatetime; typedef int qtimezone;
static inline void qdatetime_setTimeZone(qdatetime *d, qtimezone z) { (void)z; *d = nondet_long(); }
static inline void QXmppIq_setLong(QXmppIq *q, long v) { (void)q; (void)v; }
/* QXmppDiscoveryManager::capabilities() (builds the caps answer from the installed extensions): assumed to write its
   result only (it is not an emission point) and to return an IQ whose type member holds an enumerator of QXmppIq::Type
   (src/client/QXmppDiscoveryManager.cpp:164-208 sets Result) */
void Disco_capabilities(QXmppDiscoveryManager *self, QXmppIq *_ret) __CPROVER_requires(true) __CPROVER_assigns(*_ret)
__CPROVER_ensures(_ret->type == QXmppIq_Type__Error || _ret->type == QXmppIq_Type__Get || _ret->type == QXmppIq_Type__Set || _ret->type == QXmppIq_Type__Result);
