/* C08 -- data members of the anchored managers that their handleStanza touches */
QXmppClient *gh_the_client;                                            /* QXmppClientExtension::client() */
static inline void QXmppIq_assign(QXmppIq *d, const QXmppIq *s) { *d = *s; }
typedef struct QXmppVCardManagerPrivate { QXmppIq clientVCard; bool isClientVCardReceived; } QXmppVCardManagerPrivate;
typedef struct QXmppVCardManager { QXmppVCardManagerPrivate *d; } QXmppVCardManager;
/* first child element of the IQ (what isIqType / checkIsIqRequest look at) */
#define PAYLOAD(e) __CPROVER_uninterpreted_dom_first_child((e), 0, 0)
#define PAYLOAD_IS(e, tag, ns) ((e) != 0 && PAYLOAD(e) != 0 && __CPROVER_uninterpreted_dom_tag(PAYLOAD(e)) == (tag) && __CPROVER_uninterpreted_dom_ns(PAYLOAD(e)) == (ns))
/* ---- roster manager: the push items and the entries map are irrelevant to the reply count; they are unconstrained
 *      (the roster view itself is property C12) */
typedef struct RosterItem { qstr bareJid; int subscriptionType; } RosterItem;
typedef struct ItemList { int n; } ItemList;                              /* QList<QXmppRosterIq::Item>: symbolic length */
typedef struct EntryMap { int opaque; } EntryMap;                         /* QMap<QString, QXmppRosterIq::Item> */
typedef struct QXmppRosterManagerPrivate { EntryMap entries; } QXmppRosterManagerPrivate;
typedef struct QXmppRosterManager { QXmppRosterManagerPrivate *d; } QXmppRosterManager;
RosterItem gh_item;                                                       /* the item the iteration currently looks at */
static inline void RosterIq_items(ItemList *ret, const QXmppIq *iq) { (void)iq; int n = nondet_int(); __CPROVER_assume(n >= 0); ret->n = n; }
static inline const RosterItem *ItemList_at(const ItemList *l, int i) { (void)l; (void)i; gh_item.bareJid = nondet_qstr(); gh_item.subscriptionType = nondet_int(); return &gh_item; }
static inline int EntryMap_remove(EntryMap *m, qstr k) { (void)k; m->opaque = nondet_int(); int r = nondet_int(); __CPROVER_assume(r >= 0); return r; }
static inline bool EntryMap_contains(const EntryMap *m, qstr k) { (void)m; (void)k; return nondet_bool(); }
static inline void EntryMap_insert(EntryMap *m, qstr k, const RosterItem *v) { (void)k; (void)v; m->opaque = nondet_int(); }
#define FROM(e) qdom_attribute((e), S("from"))
#define ROSTER_AUTHORISED(e) (FROM(e) == 0 || __CPROVER_uninterpreted_jid_bare(FROM(e)) == gh_cfg_jidBare)
