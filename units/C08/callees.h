/* C08 -- QXmpp callees that are NOT verified here: declared with an ASSUMED contract and replaced by it
 * (--replace-call-with-contract).  Each one is listed in the evidence under assumed_contracts. */

/* QXmppIq::parse (src/base/QXmppIq.cpp:82-90, QXmppStanza::parse src/base/QXmppStanza.cpp:1022-1027): id/to/from are the
 * element's attributes; the type is the enum named by the type attribute and Get when the attribute is absent or unknown
 * (enumFromString(...).value_or(Get)).  Payload parsing (parseElementFromChild of the subclass) is not represented. */
void QXmppIq_parse(QXmppIq *self, qdom element)
__CPROVER_assigns(*self)
__CPROVER_ensures(self->id == qdom_attribute(element, S("id")) && self->to == qdom_attribute(element, S("to")) && self->from == qdom_attribute(element, S("from")))
__CPROVER_ensures(self->type == (qdom_attribute(element, S("type")) == S("error") ? QXmppIq_Type__Error : qdom_attribute(element, S("type")) == S("set") ? QXmppIq_Type__Set : qdom_attribute(element, S("type")) == S("result") ? QXmppIq_Type__Result : QXmppIq_Type__Get))
/* QXmppDiscoveryIq::parseElementFromChild (src/base/QXmppDiscoveryIq.cpp:450-458) stores one of the two enumerators */
__CPROVER_ensures(self->queryType == 0 || self->queryType == 1)
;
/* QXmppPresence::parse / QXmppMessage::parse: write the object only, emit nothing */
typedef struct QXmppPresence { int opaque; } QXmppPresence;
typedef struct QXmppMessage { int opaque; } QXmppMessage;
void QXmppPresence_parse(QXmppPresence *self, qdom element) __CPROVER_assigns(*self);
void QXmppMessage_parse(QXmppMessage *self, qdom element) __CPROVER_assigns(*self);
