/* C08 -- value model of IQ stanzas, emission log (ghost), configuration getter.
 *
 * QXmppIq and its subclasses (QXmppVCardIq, QXmppRosterIq, QXmppVersionIq, QXmppEntityTimeIq, QXmppDiscoveryIq) are one C
 * struct: the addressing fields and the type are all this property talks about; payload setters are no-ops on it.
 * Field accessors mirror src/base/QXmppStanza.cpp / QXmppIq.cpp (id/to/from/type getters and setters, the constructor
 * that stores the type and generates a fresh id).  QXmppIq::parse is NOT modelled here: it is a declared callee with an
 * assumed contract (callees.h). */
typedef struct StanzaError { int type; int cond; } StanzaError;                         /* QXmppStanza::Error */
typedef struct QXmppIq { qstr id; qstr to; qstr from; int type; bool has_err; int err_cond; qstr queryNode; int queryType; } QXmppIq;
static inline void QXmppIq_ctor(QXmppIq *q, int type) { q->id = nondet_qstr(); q->to = 0; q->from = 0; q->type = type; q->has_err = false; q->err_cond = -1; q->queryNode = 0; q->queryType = 0; }
static inline void QXmppIq_ctor0(QXmppIq *q) { QXmppIq_ctor(q, QXmppIq_Type__Get); }     /* default argument of QXmppIq(Type = Get) */
static inline void QXmppIq_setId(QXmppIq *q, qstr v) { q->id = v; }
static inline void QXmppIq_setTo(QXmppIq *q, qstr v) { q->to = v; }
static inline void QXmppIq_setFrom(QXmppIq *q, qstr v) { q->from = v; }
static inline void QXmppIq_setType(QXmppIq *q, int t) { q->type = t; }
static inline void QXmppIq_setError(QXmppIq *q, const StanzaError *e) { q->has_err = true; q->err_cond = e->cond; }
static inline void QXmppIq_setQueryNode(QXmppIq *q, qstr v) { q->queryNode = v; }           /* QXmppDiscoveryIq payload members the manager branches on */
static inline void QXmppIq_setQueryType(QXmppIq *q, int v) { q->queryType = v; }
static inline void StanzaError_ctor2(StanzaError *e, int type, int cond) { e->type = type; e->cond = cond; }
static inline void StanzaError_ctor3(StanzaError *e, int type, int cond, qstr text) { (void)text; e->type = type; e->cond = cond; }

/* ---- emission log: every stanza handed to the stream by QXmppClient::sendPacket / QXmppClient::reply /
 *      StreamAckManager::send is one event (DESIGN 5.1; property C08 observe_at "stanzas emitted by the client") */
int gh_replies; qstr gh_reply_id; qstr gh_reply_to; int gh_reply_type; int gh_reply_cond; bool gh_reply_has_err;
static inline void ev_emit(const QXmppIq *q) { if (gh_replies < 1000) gh_replies++; gh_reply_id = q->id; gh_reply_to = q->to; gh_reply_type = q->type; gh_reply_cond = q->err_cond; gh_reply_has_err = q->has_err; }
int gh_signals;                                                                           /* Qt signal emissions (receivers are application code) */
static inline void ev_signal(void) { if (gh_signals < 1000) gh_signals++; }
bool gh_link_encrypted; int gh_cfg_security_mode;   /* socket()->isEncrypted(), configuration().streamSecurityMode() */
qstr gh_cfg_jidBare;                                                                      /* client()->configuration().jidBare() */

/* ---- the specification's vocabulary (property statement) */
#define IQ_TYPE_ATTR(e) qdom_attribute((e), S("type"))
#define IS_IQ(e) (qdom_tagName(e) == S("iq"))
#define IS_REQUEST(e) (IS_IQ(e) && (IQ_TYPE_ATTR(e) == S("get") || IQ_TYPE_ATTR(e) == S("set")))
#define IS_RESPONSE(e) (IS_IQ(e) && (IQ_TYPE_ATTR(e) == S("result") || IQ_TYPE_ATTR(e) == S("error")))
#define REPLY_TYPE_OK (gh_reply_type == QXmppIq_Type__Result || gh_reply_type == QXmppIq_Type__Error)
/* "back to the sender": to = from; a reply without 'to' is handled by the user's server on behalf of the account
   (RFC 6120 10.3), i.e. it is addressed to the own bare JID -- so it answers a sender that is the own bare JID (or absent) */
#define ADDRESSED_TO(to, from) ((to) == (from) || ((to) == 0 && (from) == gh_cfg_jidBare))
/* the one reply answers e: same id, addressed to the sender, type result or error */
#define REPLY_ANSWERS(e) (gh_reply_id == qdom_attribute((e), S("id")) && ADDRESSED_TO(gh_reply_to, qdom_attribute((e), S("from"))) && REPLY_TYPE_OK)
