// C08 native replay: feed one incoming IQ to a REAL QXmppClient (default extensions + discovery/time/version managers as
// QXmppClient installs them) exactly where the stream hands it over (QXmppOutgoingClient::handleElement) or through the
// public QXmppClient::injectIq, capture every stanza the client emits (logger, SentMessage) and evaluate the C08
// postcondition:  request (type get|set)  => exactly one <iq type=result|error id=<same> to=<from>/> ;  result|error => none.
//
// usage: replay_iq <stream|inject> <xml of the iq> [<xml> ...]      own JID is me@example.org/here
// output per stanza:  CASE <n> mode=... kind=request|response|other replies=<k> [id=.. to=.. type=..]  POST=ok|VIOLATED
// exit code: 0 if every postcondition holds, 1 if at least one is violated, 2 on usage/parse errors
#include "QXmppClient.h"
#include "QXmppClient_p.h"
#include "QXmppClientExtension.h"
#include "QXmppConfiguration.h"
#include "QXmppE2eeMetadata.h"
#include "QXmppLogger.h"
#include "QXmppOutgoingClient.h"

#include <QCoreApplication>
#include <QDomDocument>
#include <QStringList>
#include <cstdio>

class TestClient : public QXmppClient
{
public:
    TestClient() : QXmppClient()
    {
        configuration().setJid(QStringLiteral("me@example.org/here"));
        logger()->setLoggingType(QXmppLogger::SignalLogging);
        QObject::connect(logger(), &QXmppLogger::message, this, [this](QXmppLogger::MessageType type, const QString &text) {
            if (type == QXmppLogger::SentMessage) {
                sent << text;
            }
        });
    }
    void feedStream(const QDomElement &el) { d->stream->handleElement(el); }
    void feedInject(const QDomElement &el) { injectIq(el, std::nullopt); }   // private; TestClient is a friend
    QStringList sent;
};

// "back to the sender": to = from; a reply without 'to' goes to the user's server on behalf of the account (RFC 6120 10.3),
// i.e. to the own bare JID (same definition as ADDRESSED_TO in units/C08/model.h)
static bool addressedTo(const QString &to, const QString &from, const QString &ownBare)
{
    return to == from || (to.isEmpty() && from == ownBare);
}

int main(int argc, char **argv)
{
    QCoreApplication app(argc, argv);
    if (argc < 3) {
        fprintf(stderr, "usage: %s <stream|inject> <xml>...\n", argv[0]);
        return 2;
    }
    const QString mode = QString::fromUtf8(argv[1]);
    int violated = 0;
    for (int i = 2; i < argc; i++) {
        QDomDocument doc;
        QString err;
        if (!doc.setContent(QString::fromUtf8(argv[i]), true, &err)) {
            fprintf(stderr, "cannot parse stanza %d: %s\n", i - 1, qPrintable(err));
            return 2;
        }
        const QDomElement el = doc.documentElement();
        TestClient client;
        if (mode == QStringLiteral("inject")) {
            client.feedInject(el);
        } else {
            client.feedStream(el);
        }
        QCoreApplication::processEvents();

        const QString type = el.attribute(QStringLiteral("type"));
        const bool isIq = el.tagName() == QStringLiteral("iq");
        const bool request = isIq && (type == QStringLiteral("get") || type == QStringLiteral("set"));
        const bool response = isIq && (type == QStringLiteral("result") || type == QStringLiteral("error"));
        int replies = 0;
        bool answers = true;
        QString detail;
        for (const QString &xml : std::as_const(client.sent)) {
            QDomDocument out;
            if (!out.setContent(xml, true)) {
                continue;   // stream-level data that is not a complete element
            }
            const QDomElement o = out.documentElement();
            if (o.tagName() != QStringLiteral("iq")) {
                continue;
            }
            replies++;
            const QString otype = o.attribute(QStringLiteral("type"));
            detail += QStringLiteral(" [id=%1 to=%2 type=%3]").arg(o.attribute(QStringLiteral("id")), o.attribute(QStringLiteral("to")), otype);
            if (o.attribute(QStringLiteral("id")) != el.attribute(QStringLiteral("id")) || !addressedTo(o.attribute(QStringLiteral("to")), el.attribute(QStringLiteral("from")), client.configuration().jidBare()) ||
                (otype != QStringLiteral("result") && otype != QStringLiteral("error"))) {
                answers = false;
            }
        }
        const bool ok = request ? (replies == 1 && answers) : (replies == 0);
        if (!ok) {
            violated++;
        }
        printf("CASE %d mode=%s kind=%s replies=%d%s POST=%s\n      in: %s\n", i - 1, qPrintable(mode), request ? "request" : response ? "response" : "other", replies,
               qPrintable(detail), ok ? "ok" : "VIOLATED", argv[i]);
    }
    return violated ? 1 : 0;
}
