/* C08 -- callees of QXmppOutgoingClient::handleElement that are not verified here (ASSUMED contracts, replaced by contract) */
typedef struct StreamAckManager { int opaque; } StreamAckManager;
typedef struct OutgoingIqManager { int opaque; } OutgoingIqManager;
typedef struct QXmppOutgoingClientPrivate { StreamAckManager streamAckManager; OutgoingIqManager iqManager; } QXmppOutgoingClientPrivate;
typedef struct QXmppOutgoingClient { QXmppOutgoingClientPrivate *d; } QXmppOutgoingClient;
typedef struct QXmppStreamFeatures { int opaque; } QXmppStreamFeatures;
typedef struct StreamErrorElement { int opaque; } StreamErrorElement;
typedef struct StreamErrVariant { int index; StreamErrorElement alt0; } StreamErrVariant;
/* StreamAckManager::handleStanza (src/base/QXmppStreamManagement.cpp:172-188, property C09): consumes only <a/> and <r/> of
   urn:xmpp:sm:3, answers <r/> with an <a/> nonza (not an IQ), counts stanzas; an <iq/> is never consumed and never answered */
bool SAM_handleStanza(StreamAckManager *self, qdom stanza)
__CPROVER_requires(true) __CPROVER_assigns(*self)
__CPROVER_ensures(IS_IQ(stanza) ==> !__CPROVER_return_value)
;
/* OutgoingIqManager::handleStanza (src/client/QXmppOutgoingClient.cpp:1235-1283, property C07): consumes only responses
   (type result|error) that match an outstanding request; sends nothing */
bool OIM_handleStanza(OutgoingIqManager *self, qdom stanza)
__CPROVER_requires(true) __CPROVER_assigns(*self)
__CPROVER_ensures(__CPROVER_return_value ==> IS_RESPONSE(stanza))
;
/* stream-level branches that an <iq/> never reaches (isStreamFeatures / <stream:error/>): unconstrained */
void QXmppStreamFeatures_parse(QXmppStreamFeatures *self, qdom e) __CPROVER_requires(true) __CPROVER_assigns(*self) __CPROVER_ensures(true);
void OC_handleStreamFeatures(QXmppOutgoingClient *self, const QXmppStreamFeatures *f) __CPROVER_requires(true) __CPROVER_assigns(GH_EMIT, gh_signals) __CPROVER_ensures(true);
void OC_handleStreamError(QXmppOutgoingClient *self, const StreamErrorElement *e) __CPROVER_requires(true) __CPROVER_assigns(GH_EMIT, gh_signals) __CPROVER_ensures(true);
void StreamErrorElement_fromDom(StreamErrVariant *_ret, qdom e) __CPROVER_requires(true) __CPROVER_assigns(*_ret) __CPROVER_ensures(_ret->index == 0 || _ret->index == 1);
static inline StreamErrorElement *StreamErrVariant_getIf0(StreamErrVariant *v) { return v->index == 0 ? &v->alt0 : NULL; }
