// native replay for C11 / Configuration_jidBare: the REAL QXmppConfiguration::jidBare() on a battery of configurations.
// Postcondition evaluated: jidBare() == user + "@" + domain, or == domain for an account without user part; nothing else
// (host, resource, resource prefix, port) may enter it.
#include <QCoreApplication>
#include <cstdio>
#include "QXmppConfiguration.h"
int main(int argc, char **argv)
{
    QCoreApplication app(argc, argv);
    const QStringList users = { "", "romeo", "John.Doe", "a" };
    const QStringList domains = { "montague.example", "IM.example.org", "" };
    const QStringList hosts = { "", "xmpp.montague.example", "10.0.0.1" };
    const QStringList resources = { "", "balcony", "QXmpp" };
    int bad = 0, probes = 0;
    for (const auto &u : users) for (const auto &d : domains) for (const auto &h : hosts) for (const auto &r : resources) for (int port : { 5222, 0 }) {
        QXmppConfiguration c;
        c.setUser(u); c.setDomain(d); c.setHost(h); c.setPort(port);
        if (!r.isEmpty()) { c.setResource(r); c.setResourcePrefix(r); }
        const QString want = u.isEmpty() ? d : u + QChar('@') + d;
        probes++;
        if (c.jidBare() != want) {
            bad++;
            printf("VIOLATED post.own_bare_jid_is_user_at_domain_or_the_domain_alone: user='%s' domain='%s' host='%s' resource='%s' port=%d -> jidBare()='%s', expected '%s'\n",
                   qPrintable(u), qPrintable(d), qPrintable(h), qPrintable(r), port, qPrintable(c.jidBare()), qPrintable(want));
        }
        // the same postcondition after each setter that changes a part of the address (a configuration with a history)
        for (const auto &u2 : users) for (const auto &d2 : domains) {
            c.setUser(u2);
            const QString w1 = u2.isEmpty() ? d : u2 + QChar('@') + d;
            probes++;
            if (c.jidBare() != w1) {
                bad++;
                printf("VIOLATED post.own_bare_jid_is_user_at_domain_or_the_domain_alone: after jidBare() then setUser('%s') with domain='%s' -> jidBare()='%s', expected '%s'\n", qPrintable(u2), qPrintable(d), qPrintable(c.jidBare()), qPrintable(w1));
            }
            c.setDomain(d2);
            const QString w2 = u2.isEmpty() ? d2 : u2 + QChar('@') + d2;
            probes++;
            if (c.jidBare() != w2) {
                bad++;
                printf("VIOLATED post.own_bare_jid_is_user_at_domain_or_the_domain_alone: after jidBare() then setDomain('%s') with user='%s' -> jidBare()='%s', expected '%s'\n", qPrintable(d2), qPrintable(u2), qPrintable(c.jidBare()), qPrintable(w2));
            }
            c.setDomain(d);
        }
    }
    printf("%d probes, %d violated\n", probes, bad);
    return bad ? 1 : 0;
}
