/* C11 event log and message model */
typedef int qcfg;                           /* the client's QXmppConfiguration object: only its jidBare() / jid() getters are used */
qstr gh_cfg_jid;                            /* the configured own FULL JID (opaque; nothing relates it to the bare JID here) */
qstr gh_cfg_jidBare;                       /* the configured own bare JID (opaque) */
typedef struct QXmppMessage { qdom parsed_from; bool carbonForwarded; bool parsed; } QXmppMessage;
static inline void QXmppMessage_ctor(QXmppMessage *m) { m->parsed_from = 0; m->carbonForwarded = false; m->parsed = false; }
static inline void QXmppMessage_parse(QXmppMessage *m, qdom e) { m->parsed_from = e; m->carbonForwarded = false; m->parsed = true; }
static inline void QXmppMessage_setCarbonForwarded(QXmppMessage *m, bool f) { m->carbonForwarded = f; }
int gh_events; int gh_ev_kind; qdom gh_ev_node; bool gh_ev_forwarded;     /* kind: 1 injected, 2 messageSent, 3 messageReceived */
static inline void ev_deliver(int kind, const QXmppMessage *m) { if (gh_events < 1000) gh_events++; gh_ev_kind = kind; gh_ev_node = m->parsed ? m->parsed_from : 0; gh_ev_forwarded = m->carbonForwarded; }
static inline void ev_injectMessage(const QXmppMessage *m) { ev_deliver(1, m); }
static inline void ev_messageSent(const QXmppMessage *m) { ev_deliver(2, m); }
static inline void ev_messageReceived(const QXmppMessage *m) { ev_deliver(3, m); }
/* the specification's own description of "the inner message": first <message xmlns=jabber:client/> of the first
   <forwarded xmlns=urn:xmpp:forward:0/> of the carbon wrapper */
#define INNER_MESSAGE(carbon) __CPROVER_uninterpreted_dom_first_child(__CPROVER_uninterpreted_dom_first_child((carbon), S("forwarded"), S("urn:xmpp:forward:0")), S("message"), S("jabber:client"))
#define V1_CARBON(e) (__CPROVER_uninterpreted_dom_first_child((e), S("sent"), S("urn:xmpp:carbons:2")) != 0 ? __CPROVER_uninterpreted_dom_first_child((e), S("sent"), S("urn:xmpp:carbons:2")) : __CPROVER_uninterpreted_dom_first_child((e), S("received"), S("urn:xmpp:carbons:2")))

/* QDomElement::attribute(name, default): the default exactly when the attribute is absent */
static inline qstr qdom_attribute_or(qdom e, qstr name, qstr dflt) { return qdom_hasAttribute(e, name) ? qdom_attribute(e, name) : dflt; }
