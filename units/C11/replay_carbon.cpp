// native replay for C11: both carbon managers of the REAL library, probed with look-alike outer senders.
// A carbon wrapper must be unwrapped (message presented to the application) only if the outer from equals the own bare JID.
#include <QCoreApplication>
#include <QDomDocument>
#include <cstdio>
#include "QXmppCarbonManager.h"
#include "QXmppCarbonManagerV2.h"
#include "QXmppClient.h"
#include "QXmppConfiguration.h"
#include "QXmppE2eeMetadata.h"
#include "QXmppMessage.h"
static QDomElement dom(const QString &xml)
{
    QDomDocument doc;
    doc.setContent(xml, true);
    return doc.documentElement();
}
int main(int argc, char **argv)
{
    QCoreApplication app(argc, argv);
    const QStringList owns = { "romeo@montague.example", "john.doe@im.example.org" };
    int bad = 0, probes = 0;
    for (const QString &own : owns) {
        QStringList senders = { own, own + "/home", own + "/", own + ".evil.org", own + "s", "x" + own, own.toUpper(), QString(own).replace('.', 'x'),
                                QString(own).replace('.', '-'), own.left(own.size() - 1), "", "juliet@capulet.example", own.mid(own.indexOf('@') + 1) };
        for (const QString &from : senders) {
            for (const char *kind : { "sent", "received" }) {
                for (int gen = 1; gen <= 2; gen++) {
                    QXmppClient client;
                    client.configuration().setJid(own + "/balcony");
                    int presented = 0;
                    QXmppCarbonManager *v1 = nullptr;
                    QXmppCarbonManagerV2 *v2 = nullptr;
                    if (gen == 1) {
                        v1 = client.addNewExtension<QXmppCarbonManager>();
                        QObject::connect(v1, &QXmppCarbonManager::messageSent, [&](const QXmppMessage &) { presented++; });
                        QObject::connect(v1, &QXmppCarbonManager::messageReceived, [&](const QXmppMessage &) { presented++; });
                    } else {
                        v2 = client.addNewExtension<QXmppCarbonManagerV2>();
                        QObject::connect(&client, &QXmppClient::messageReceived, [&](const QXmppMessage &) { presented++; });
                    }
                    QString xml = QString("<message xmlns='jabber:client' %1 to='%2/balcony' type='chat'><%3 xmlns='urn:xmpp:carbons:2'>"
                                          "<forwarded xmlns='urn:xmpp:forward:0'><message xmlns='jabber:client' from='%2/orchard' to='juliet@capulet.example' type='chat'>"
                                          "<body>forged?</body></message></forwarded></%3></message>")
                                      .arg(from.isEmpty() ? QString() : "from='" + from + "'", own, kind);
                    QDomElement e = dom(xml);
                    bool handled = gen == 1 ? v1->handleStanza(e) : v2->handleStanza(e, std::nullopt);
                    probes++;
                    bool expected = (from == own);
                    if ((presented > 0) != expected || handled != expected) {
                        printf("VIOLATED: manager V%d, own bare JID '%s', <%s/> wrapper with outer from '%s': handled=%d presented=%d (expected %s)\n", gen,
                               qPrintable(own), kind, qPrintable(from), handled, presented, expected ? "unwrapped" : "ignored");
                        bad++;
                    }
                }
            }
        }
    }
    printf("%d probes, %d violations\n", probes, bad);
    return bad ? 1 : 0;
}
