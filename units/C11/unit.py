"""C11 -- carbon copies are trusted only when they come from the user's own account."""
import os
from vlib.unit import Builder, Target, VERIF, scan_assumes
from vlib.runner import Proof
from vlib.opaque_profile import opaque_profile
from vlib import ctx
from vlib.configure import REPO

QT = os.path.join(VERIF, 'qtmodel')
HERE = os.path.dirname(os.path.abspath(__file__))


def rd(name):
    return open(os.path.join(HERE, name)).read()


def profile():
    return opaque_profile(
        types={'QXmppConfiguration': 'qcfg', 'QXmppMessage': 'QXmppMessage', 'QXmppCarbonManagerV2': 'QXmppCarbonManagerV2', 'QXmppCarbonManager': 'QXmppCarbonManager'},
        class_types={'QXmppMessage', 'QXmppCarbonManagerV2', 'QXmppCarbonManager'},
        calls={
            'ctor:QXmppMessage()': ('fn', 'QXmppMessage_ctor'),
            'QXmppMessage::parse/1': ('fn', 'QXmppMessage_parse'),
            'QXmppMessage::setCarbonForwarded/1': ('fn', 'QXmppMessage_setCarbonForwarded'),
            # client()->configuration().jidBare(): pure getters of the configured account address
            '*::jidBare/0': ('const', 'gh_cfg_jidBare'),
            # the configuration object itself (a change may bind it to a local reference) and the configured FULL JID
            '*::configuration/0': ('const', '0'),
            '*::jid/0': ('const', 'gh_cfg_jid'),
            # attribute(name, default): the default is returned exactly when the attribute is absent (hasAttribute)
            'qdom::attribute/2': ('fn', 'qdom_attribute_or'),
            '*::injectMessage/1': ('expr', 'ev_injectMessage({1})'),
            '*::messageSent/1': ('expr', 'ev_messageSent({1})'),
            '*::messageReceived/1': ('expr', 'ev_messageReceived({1})'),
            # namespace-aware descendant lookup (a seeded change used it instead of firstChildElement): ANY matching descendant
            'qdom::elementsByTagNameNS/2': ('fn', 'qdom_elementsByTagNameNS'),
            'qnodelist::at/1': ('fn', 'qnodelist_at'), 'qnodelist::item/1': ('fn', 'qnodelist_at'),
            'qdom::toElement/0': ('arg', 0),
        },
        pure_fns={'client', 'configuration', 'jidBare', 'jid'},
    )


def build(work, tier):
    prof = profile()
    b = Builder('C11', work, prof)
    proofs = []
    units = []
    for cname, src, cls, specf in (('CarbonV2_handleStanza', 'src/client/QXmppCarbonManagerV2.cpp', 'QXmppCarbonManagerV2', 'v2.spec'),
                                   ('CarbonV1_handleStanza', 'src/client/QXmppCarbonManager.cpp', 'QXmppCarbonManager', 'v1.spec')):
        sp = b.spec(specf)
        txt = b.lower(Target(src, cls + '::handleStanza', 'handleStanza', cname, this=cls, parent=None), sp)
        # the manager's own data members, mirrored from the class definition on every run (a member added by a change -- a cached
        # copy of the own JID, say -- is then part of the state the contract quantifies over, with an arbitrary value)
        rec, _ = ctx.emit_record(os.path.join(REPO, src), cls, cls, cls, prof, opaque_ok=True)
        rec = rec.replace('{\n', '{\n  char _no_modelled_member;\n', 1)
        units.append((cname, sp, rec + '\n' + txt))
    ctxt = b.context()
    for cname, sp, txt in units:
        c = '#include "opaque.h"\n' + prof.literal_ids.table() + ctxt + '\n' + b.subst(rd('model.h')) + '\n'.join(getattr(b, 'lifted', [])) + '\n' + txt + '\nvoid h_%s(void) { qdom element; %s *self = malloc(sizeof(*self)); __CPROVER_assume(self != 0); %s(self, element%s); }\n' % (cname, cname.replace('CarbonV2_handleStanza', 'QXmppCarbonManagerV2').replace('CarbonV1_handleStanza', 'QXmppCarbonManager'), cname, ', 0' if 'V2' in cname else '')
        f = b.write(cname + '.c', c)
        p = Proof(cname, f, 'h_' + cname, enforce=cname, kind='complete', include_dirs=[QT], timeout=300, loop_contracts=False,
                  note='loop-free function, every DOM element and every sender string (opaque)')
        p.labels = {'post': {cname: sp.labels}}
        p.expect_post = len(sp.labels)
        proofs.append(p)
    # ---- what "the user's own bare JID" is: the real QXmppConfiguration::jidBare (the value the two handlers compare the outer sender with)
    cprof = opaque_profile(
        types={'QXmppConfiguration': 'QXmppConfiguration', 'QXmppConfigurationPrivate': 'QXmppConfigurationPrivate',
               'QSharedDataPointer<QXmppConfigurationPrivate>': 'QXmppConfigurationPrivate'},
        class_types={'QXmppConfiguration', 'QXmppConfigurationPrivate'},
        calls={'op->:QXmppConfigurationPrivate': ('expr', '{0}'), 'op+:qstr:quint16': ('fn', 'qstr_concat_char')})
    cb = Builder('C11', work, cprof)
    csp = cb.spec('jidbare.spec')
    CFG = 'src/client/QXmppConfiguration.cpp'
    ctxt2 = cb.lower(Target(CFG, 'QXmppConfiguration::jidBare', 'jidBare', 'QXmppConfiguration_jidBare', this='QXmppConfiguration', parent=None), csp)
    # a const member function may still write `mutable` members (a cache, say): the receiver is lowered without const, the frame stays empty
    ctxt2 = ctxt2.replace('const QXmppConfiguration *self', 'QXmppConfiguration *self')
    crec, _ = ctx.emit_record(os.path.join(REPO, CFG), 'QXmppConfigurationPrivate', 'QXmppConfigurationPrivate', 'QXmppConfigurationPrivate', cprof, opaque_ok=True)
    c = ('#include "opaque.h"\n' + cprof.literal_ids.table() + cb.context() + '\n' + cb.subst(rd('cfgmodel.h')) + '\n' + crec +
         '\ntypedef struct QXmppConfiguration { QXmppConfigurationPrivate d; } QXmppConfiguration;\n' + '\n'.join(getattr(cb, 'lifted', [])) + '\n' + ctxt2 +
         '\nvoid h_jidBare(void) { QXmppConfiguration *self; QXmppConfiguration_jidBare(self); }\n')
    f = cb.write('Configuration_jidBare.c', c)
    p = Proof('Configuration_jidBare', f, 'h_jidBare', enforce='QXmppConfiguration_jidBare', kind='complete', include_dirs=[QT], timeout=300, loop_contracts=False,
              note='loop-free getter, every configuration (all members arbitrary, strings opaque): the own bare JID is user@domain, or the domain for an account without user part; the resource never enters it')
    p.labels = {'post': {'QXmppConfiguration_jidBare': csp.labels}}
    p.expect_post = len(csp.labels)
    proofs.append(p)
    b.functions.extend(cb.functions)
    b.dropped.extend(cb.dropped)
    for k, v in cb.fired.items():
        b.fired[k] = b.fired.get(k, 0) + v
    return {
        'proofs': proofs, 'functions': b.functions, 'dropped': b.dropped, 'fired': b.fired, 'hooks': [],
        'assumed': ['A-DOM abstract DOM (qtmodel/opaque.h): tagName/attribute are functions of the node; firstChildElement returns null or a matching child',
                    'opaque-string axioms: equality only', 'QXmppMessage::parse records the element it parsed and resets carbonForwarded (units/C11/model.h); the parser itself is not verified here',
                    'client()->configuration().jidBare() in the handlers denotes the result of QXmppConfiguration::jidBare (verified separately against user@domain / domain: proof Configuration_jidBare) on the client\'s configuration; that the configuration does not change during handleStanza is assumed',
                    'QSharedDataPointer<QXmppConfigurationPrivate> is its payload held by value (copy-on-write sharing not modelled); QString + QChar is the opaque concatenation with a non-empty one-character string',
                    'injectMessage / messageSent / messageReceived deliver the message object unchanged (event log)'],
        'assumes': scan_assumes(rd('model.h') + rd('cfgmodel.h') + open(os.path.join(QT, 'opaque.h')).read()),
        'not_covered': ['QXmppMessage::parse itself (what "exactly the inner message" contains is whatever the message parser produces from the inner element)'],
    }


def find_input(unit, proof, ob, label, work):
    """concretisation table (DESIGN 6, C11): the opaque sender becomes a battery of look-alike strings on the real library"""
    from vlib import native
    if getattr(proof, 'id', '') == 'Configuration_jidBare':
        rc, out = native.run_driver(os.path.join(HERE, 'replay_jidbare.cpp'), [])
        bad = [l for l in out.splitlines() if l.startswith('VIOLATED')]
        return {'inputs': {'driver': 'units/C11/replay_jidbare.cpp', 'args': [], 'meaning': '4 user parts x 3 domains x 3 hosts x 3 resources x 2 ports on the real QXmppConfiguration',
                           'first_failing_probes': bad[:6]}, 'native_output': out[-3000:], 'reproduced': rc == 1}
    rc, out = native.run_driver(os.path.join(HERE, 'replay_carbon.cpp'), [])
    bad = [l for l in out.splitlines() if l.startswith('VIOLATED')]
    return {'inputs': {'driver': 'units/C11/replay_carbon.cpp', 'args': [], 'meaning': 'two own JIDs x 13 look-alike outer senders x sent/received x both manager generations',
                       'first_failing_probes': bad[:6]}, 'native_output': out[-3000:], 'reproduced': rc == 1}


def native_replay(rp):
    from vlib import native
    if 'jidbare' in str((rp.get('inputs') or {}).get('driver', '')):
        rc, out = native.run_driver(os.path.join(HERE, 'replay_jidbare.cpp'), [])
        return rc == 1, out[-3000:]
    rc, out = native.run_driver(os.path.join(HERE, 'replay_carbon.cpp'), [])
    return rc == 1, out[-3000:]
