/* C11, QXmppConfiguration::jidBare under contract: the one-character string of a QChar (uninterpreted, never empty) and the
   specification's own concatenation (the same uninterpreted symbol as qstr_concat, with "" as the neutral element) */
qstr __CPROVER_uninterpreted_str_of_char(unsigned short c);
static inline qstr qstr_fromChar(unsigned short c) { qstr r = __CPROVER_uninterpreted_str_of_char(c); __CPROVER_assume(r != 0); return r; }
static inline qstr qstr_concat_char(qstr a, unsigned short c) { return qstr_concat(a, qstr_fromChar(c)); }
#define SPEC_CONCAT(a, b) ((a) == 0 ? (b) : ((b) == 0 ? (a) : __CPROVER_uninterpreted_str_concat((a), (b))))
