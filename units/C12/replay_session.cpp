// C12 native replay driver for the session side: drives the REAL QXmppRosterManager (library built from the working tree)
// through pseudo-random histories of {connect (no SM / new / resumed), roster result or error, authorised push, push from
// a stranger, available / unavailable / other presence, disconnect (no SM / SM)} and compares, after every event, the
// roster view (getRosterBareJids / getRosterEntry) and the presence table (getResources) with a reference written from
// the property statement.
//
//   replay_session all          seeds 0..299, print the first violating history (exit 1) or "ALL HOLD" (exit 0)
//   replay_session <seed>       one history, verbose
#include "QXmppClient.h"
#include "QXmppClientExtension.h"
#include "QXmppClient_p.h"
#include "QXmppConfiguration.h"
#include "QXmppLogger.h"
#include "QXmppOutgoingClient.h"
#include "QXmppOutgoingClient_p.h"
#include "QXmppPresence.h"
#include "QXmppRosterManager.h"

#include <QCoreApplication>
#include <QDomDocument>
#include <QMap>
#include <QSet>
#include <QStringList>
#include <cstdio>

class TestClient : public QXmppClient
{
public:
    TestClient() : QXmppClient()
    {
        d->stream->enableStreamManagement(true);
        logger()->setLoggingType(QXmppLogger::SignalLogging);
        QObject::connect(logger(), &QXmppLogger::message, this, [this](QXmppLogger::MessageType t, const QString &text) {
            if (t == QXmppLogger::SentMessage && !text.startsWith(QStringLiteral("<r "))) sent << text;
        });
    }
    void setSm(int state)   // 0 none, 1 new stream, 2 resumed
    {
        d->stream->c2sStreamManager().setEnabled(state != 0);
        d->stream->c2sStreamManager().setResumed(state == 2);
    }
    void setAuthenticated(bool a) { d->stream->d->isAuthenticated = a; }
    void injectIq(const QDomElement &e) { d->stream->handleIqResponse(e); QCoreApplication::processEvents(); }
    QStringList sent;
};

static unsigned rngState;
static unsigned rnd(unsigned n) { rngState = rngState * 1103515245u + 12345u; return (rngState >> 16) % n; }

static QDomElement dom(const QString &xml, QDomDocument &doc) { doc.setContent(xml, true); return doc.documentElement(); }

static const char *JIDS[] = { "alice@example.org", "bob@example.org", "carol@example.org" };
static const char *RES[] = { "home", "phone", "" };

static QString itemsXml(QMap<QString, QString> &ref, bool fullRoster, int &counter, bool apply)
{
    QString x;
    QMap<QString, QString> next = fullRoster ? QMap<QString, QString>() : ref;
    const int n = rnd(4);
    for (int i = 0; i < n; i++) {
        const QString jid = JIDS[rnd(3)];
        const bool remove = !fullRoster && rnd(3) == 0;
        const QString name = QStringLiteral("n%1").arg(counter++);
        x += QStringLiteral("<item jid='%1' name='%2' subscription='%3'/>").arg(jid, name, remove ? "remove" : "both");
        if (remove) next.remove(jid); else next[jid] = name;
    }
    if (apply) ref = next;
    return x;
}

static QString run(unsigned seed, bool verbose)
{
    rngState = seed * 2654435761u + 7;
    const QString own = QStringLiteral("me@example.org");
    TestClient client;
    client.configuration().setJid(own + QStringLiteral("/replay"));
    client.setAuthenticated(true);
    auto *mgr = client.findExtension<QXmppRosterManager>();
    if (!mgr) return QStringLiteral("driver: no roster manager");

    QMap<QString, QString> ref;                    // roster view: jid -> name of the winning item
    QMap<QString, QSet<QString>> pref;             // presence table: contact -> available resources
    QString pendingRosterId;                       // id of the outstanding roster request of the current session
    int counter = 0;
    QStringList trace;
    const int len = 4 + rnd(12);
    for (int step = 0; step < len; step++) {
        QDomDocument doc;
        QString ev;
        switch (rnd(8)) {
        case 0: {   // a session starts
            const int sm = rnd(3);
            client.setSm(sm);
            client.sent.clear();
            ev = QStringLiteral("connect sm=%1").arg(sm);
            Q_EMIT client.connected();
            QCoreApplication::processEvents();
            if (sm != 2) { ref.clear(); pref.clear(); }
            pendingRosterId.clear();
            for (const auto &p : client.sent) {
                QDomDocument d2;
                const auto e = dom(p, d2);
                if (e.tagName() == "iq" && e.attribute("type") == "get" && !e.firstChildElement("query").isNull()) pendingRosterId = e.attribute("id");
            }
            break;
        }
        case 1: {   // the roster request is answered
            if (pendingRosterId.isEmpty()) { ev = "(no roster request outstanding)"; break; }
            const bool ok = rnd(4) != 0;
            QString xml;
            if (ok) {
                xml = QStringLiteral("<iq xmlns='jabber:client' id='%1' type='result'><query xmlns='jabber:iq:roster'>%2</query></iq>").arg(pendingRosterId, itemsXml(ref, true, counter, true));
            } else {
                xml = QStringLiteral("<iq xmlns='jabber:client' id='%1' type='error'><error type='cancel'><service-unavailable xmlns='urn:ietf:params:xml:ns:xmpp-stanzas'/></error></iq>").arg(pendingRosterId);
            }
            ev = QStringLiteral("roster answer: ") + xml;
            pendingRosterId.clear();
            client.injectIq(dom(xml, doc));
            break;
        }
        case 2: case 3: {   // a roster push
            static const char *FROM[] = { nullptr, "me@example.org", "me@example.org/other", "mallory@evil.example", "me@example.org.evil.example/x", "alice@example.org" };
            const int f = rnd(6);
            const bool authorised = f <= 2;
            const QString items = itemsXml(ref, false, counter, authorised);
            QString xml = QStringLiteral("<iq xmlns='jabber:client'%1 id='p%2' type='set'><query xmlns='jabber:iq:roster'>%3</query></iq>")
                              .arg(FROM[f] ? QStringLiteral(" from='%1'").arg(FROM[f]) : QString()).arg(step).arg(items);
            ev = QStringLiteral("push: ") + xml;
            client.sent.clear();
            const bool ret = mgr->handleStanza(dom(xml, doc));
            if (!authorised && (ret || !client.sent.isEmpty())) return QStringLiteral("a push from another entity was consumed or acknowledged\n") + trace.join('\n') + '\n' + ev;
            if (authorised && client.sent.size() != 1) return QStringLiteral("an authorised push was not acknowledged exactly once\n") + trace.join('\n') + '\n' + ev;
            break;
        }
        case 4: case 5: case 6: {   // a presence
            const QString bare = JIDS[rnd(3)];
            const QString res = RES[rnd(3)];
            const int t = rnd(5);
            QXmppPresence p;
            p.setFrom(res.isEmpty() ? bare : bare + '/' + res);
            p.setType(t <= 1 ? QXmppPresence::Available : t <= 3 ? QXmppPresence::Unavailable : QXmppPresence::Probe);
            ev = QStringLiteral("presence from=%1 type=%2").arg(p.from()).arg(int(p.type()));
            Q_EMIT client.presenceReceived(p);
            if (p.type() == QXmppPresence::Available) pref[bare].insert(res);
            if (p.type() == QXmppPresence::Unavailable) pref[bare].remove(res);
            break;
        }
        default: {  // the stream ends
            const int sm = rnd(2);
            client.setSm(sm);
            ev = QStringLiteral("disconnect sm=%1").arg(sm);
            Q_EMIT client.disconnected();
            if (sm == 0) { ref.clear(); pref.clear(); }
            pendingRosterId.clear();
            break;
        }
        }
        trace << QStringLiteral("  %1. %2").arg(step).arg(ev);
        if (verbose) printf("%s\n", qPrintable(trace.last()));
        // compare the exposed view with the reference
        QMap<QString, QString> got;
        for (const auto &j : mgr->getRosterBareJids()) got[j] = mgr->getRosterEntry(j).name();
        if (got != ref) {
            QStringList g, r;
            for (auto it = got.begin(); it != got.end(); ++it) g << it.key() + '=' + it.value();
            for (auto it = ref.begin(); it != ref.end(); ++it) r << it.key() + '=' + it.value();
            return QStringLiteral("roster view {%1} differs from last-full-roster-plus-authorised-pushes {%2}\n").arg(g.join(','), r.join(',')) + trace.join('\n');
        }
        for (const char *j : JIDS) {
            QSet<QString> have;
            for (const auto &r : mgr->getResources(j)) have.insert(r);
            if (have != pref.value(j)) return QStringLiteral("presence table of %1 differs from the resources whose latest presence was available\n").arg(j) + trace.join('\n');
        }
    }
    return QString();
}

int main(int argc, char **argv)
{
    QCoreApplication app(argc, argv);
    const QString arg = argc > 1 ? QString::fromLocal8Bit(argv[1]) : QStringLiteral("all");
    if (arg != QStringLiteral("all")) {
        const QString v = run(arg.toUInt(), true);
        if (!v.isEmpty()) { printf("VIOLATED seed=%u: %s\n", arg.toUInt(), qPrintable(v)); return 1; }
        printf("HOLDS seed=%u\n", arg.toUInt());
        return 0;
    }
    for (unsigned s = 0; s < 300; s++) {
        const QString v = run(s, false);
        if (!v.isEmpty()) { printf("VIOLATED seed=%u: %s\n", s, qPrintable(v)); return 1; }
    }
    printf("ALL HOLD (300 histories)\n");
    return 0;
}
