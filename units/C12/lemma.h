/* C12 lemma: the roster view is the last full roster plus the authorised pushes, and the presence table lists exactly the
 * resources whose latest presence was available -- by induction over histories.  Only the CONTRACTS of the six operations
 * are used here (every call below is replaced by the contract that the real function was verified against).
 *
 * Induction step: from ANY state in which the view of the witness JID g_j equals the reference value `ref` (what the
 * property statement prescribes for the history so far) and the listing of the witness resource (g_b, g_r) equals
 * `pref`, ANY single event leads to a state in which view == ref' and listing == pref', where ref' / pref' are computed
 * below directly from the property statement:
 *   new (non-resumed) session          ref' = absent, pref' = unlisted      resumed session: unchanged
 *   full roster result with items I    ref' = last item of I for g_j, absent if none      error result: unchanged
 *   roster IQ from own account/server, type set, items I:   ref' = fold of I over ref (last item for g_j wins, Remove deletes)
 *   any other stanza (other sender, other type, not a roster IQ):   unchanged
 *   disconnect of a stream that cannot be resumed: absent / unlisted      resumable: unchanged
 *   presence from (g_b, g_r): available -> listed with it, unavailable -> unlisted; any other presence: unchanged
 * Base case: a freshly constructed manager has an empty view (QXmppRosterManagerPrivate's members are default-constructed
 * maps; not an obligation here).  The witnesses are arbitrary, so the statement holds for every JID / resource. */
/* truth value of a bool (after a contract replacement CBMC may hold a bool as any non-zero byte) */
#define B(x) ((x) ? 1 : 0)
void lemma_step(void)
{
  QXmppRosterManagerPrivate dd; QXmppRosterManager m; QXmppRosterManager *self = &m;
  g_j = nondet_qstr(); g_b = nondet_qstr(); g_r = nondet_qstr(); gh_cfg_jidBare = nondet_qstr(); gh_cfg_domain = nondet_qstr(); gh_cfg_user = nondet_qstr(); gh_cfg_jid = nondet_qstr(); gh_sm_state = nondet_int();
  gh_authenticated = nondet_bool(); gh_roster_task = nondet_int();
  dd.entries.w_present = nondet_bool(); dd.entries.w_value = nondet_qitem();
  dd.presences.w_outer = nondet_bool(); dd.presences.w.w_present = nondet_bool(); dd.presences.w.w_value = nondet_qpres();
  dd.isRosterReceived = nondet_bool();
  m.d = &dd;
  __CPROVER_assume(!dd.presences.w.w_present || dd.presences.w_outer);     /* representation invariant (kept by every operation) */
  /* induction hypothesis: view == ref, listing == pref */
  bool ref_p = dd.entries.w_present; qitem ref_v = dd.entries.w_value;
  bool pref_p = dd.presences.w.w_present; qpres pref_v = dd.presences.w.w_value;
  /* per-call observers start fresh */
  gh_sent = 0; gh_signals = 0; gh_sig_ok = true; gh_sh_present = dd.entries.w_present; gh_sh_value = dd.entries.w_value;
  gh_roster_requests = 0; gh_then_calls = 0; gh_roster_received = 0; gh_pres_changed = 0;
  int ev = nondet_int();
  if (ev == 0) {                       /* a session starts */
    QXmppRosterManager__q_connected(self);
    if (gh_sm_state != QXmppClient_StreamManagementState__ResumedStream) { ref_p = false; pref_p = false; }
  } else if (ev == 1) {                /* the answer to the roster request arrives */
    RosterResult res; res.is_iq = nondet_bool(); res.iq.src = nondet_int(); res.iq.parsed = true;
    QXmppRosterManager_q_connected_rosterResult(self, &res);
    if (res.is_iq) {
      int L = LIST_LAST(IQ_ITEMS(res.iq.src));
      ref_p = L >= 0; ref_v = LIST_AT(IQ_ITEMS(res.iq.src), L);
    }
  } else if (ev == 2) {                /* any stanza is offered to the manager */
    qdom e = nondet_int();
    QXmppRosterManager_handleStanza(self, e);
    if (PUSH(e) && PUSH_L(e) >= 0) {
      ref_p = ITEM_SUB(PUSH_ITEM(e)) != QXmppRosterIq_Item_SubscriptionType__Remove; ref_v = PUSH_ITEM(e);
    }
    __CPROVER_assert(!(!SENDER_OK(e)) || gh_sent == 0, "[lemma.push_from_another_entity_is_not_acknowledged] no result IQ for an unauthorised roster IQ");
  } else if (ev == 3) {                /* the stream is lost / closed */
    QXmppRosterManager__q_disconnected(self);
    if (gh_sm_state == QXmppClient_StreamManagementState__NoStreamManagement) { ref_p = false; pref_p = false; }
  } else {                             /* a presence arrives */
    qpres p = nondet_qpres();
    QXmppRosterManager__q_presenceReceived(self, p);
    if (P_HITS(p) && PRES_TYPE(p) == QXmppPresence_Type__Available) { pref_p = true; pref_v = p; }
    if (P_HITS(p) && PRES_TYPE(p) == QXmppPresence_Type__Unavailable) { pref_p = false; }
  }
  __CPROVER_assert(B(dd.entries.w_present) == B(ref_p) && (!ref_p || dd.entries.w_value == ref_v), "[lemma.roster_view_is_last_full_roster_plus_authorised_pushes] view of the witness JID equals the reference after any event");
  __CPROVER_assert(B(dd.presences.w.w_present) == B(pref_p) && (!pref_p || dd.presences.w.w_value == pref_v), "[lemma.presence_table_lists_exactly_the_resources_whose_latest_presence_was_available] listing of the witness resource equals the reference after any event");
  __CPROVER_assert(!dd.presences.w.w_present || dd.presences.w_outer, "[lemma.presence_table_stays_well_formed] representation invariant kept");
}
