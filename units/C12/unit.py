"""C12 -- the roster view is the last full roster plus authorised pushes, nothing else."""
import os, re
from vlib.unit import Builder, Target, VERIF, scan_assumes
from vlib.runner import Proof
from vlib.opaque_profile import opaque_profile
from vlib import astx, ctx, cxx2c
from vlib.configure import REPO

QT = os.path.join(VERIF, 'qtmodel')
HERE = os.path.dirname(os.path.abspath(__file__))
SRC = 'src/client/QXmppRosterManager.cpp'


# ghost hook (DESIGN 5.8): snapshot of the specification's view of the item list, right after the function obtained it
SNAPSHOT = 'gh_n = LIST_N(items); gh_L = LIST_LAST(items); gh_Litem = LIST_AT(items, gh_L); gh_Lsub = ITEM_SUB(gh_Litem);'
HOOKS = [
    {'id': 'items_snapshot_push', 'fn': 'QXmppRosterManager_handleStanza', 'after': r'^\s*qitemlist items = ', 'emit': SNAPSHOT, 'count': 1},
    {'id': 'items_snapshot_result', 'fn': 'QXmppRosterManager_q_connected_rosterResult', 'after': r'^\s*qitemlist items = ', 'emit': SNAPSHOT, 'count': 1},
]


def rd(name):
    return open(os.path.join(HERE, name)).read()


def profile():
    return opaque_profile(
        types={
            'QXmppConfiguration': 'qcfg',      # the client's configuration object (a change may bind it to a local reference): only its getters are used
            'QXmppRosterManager': 'QXmppRosterManager',
            'QXmppRosterManagerPrivate': 'QXmppRosterManagerPrivate',
            'std::unique_ptr<QXmppRosterManagerPrivate>': 'QXmppRosterManagerPrivate*',
            'QMap<QString,QXmppRosterIq::Item>': 'RosterMap',
            'QMap<QString,QMap<QString,QXmppPresence>>': 'PresMap',
            'QMap<QString,QXmppPresence>': 'ResMap',
            'QXmppRosterIq': 'QXmppRosterIq', 'QXmppIq': 'QXmppIq', 'QXmppIq::Type': 'int',
            'QXmppRosterIq::Item': 'qitem', 'QList<QXmppRosterIq::Item>': 'qitemlist',
            'QXmppRosterIq::Item::SubscriptionType': 'int',
            'QSet<QString>': 'qstrset',
            'QMap<QString,QXmppRosterIq::Item>::const_iterator': 'RosterIt', 'QMap<QString,QXmppRosterIq::Item>::iterator': 'RosterIt',
            'QMap<QString,QXmppRosterIq::Item>::ConstIterator': 'RosterIt', 'QMap<QString,QXmppRosterIq::Item>::Iterator': 'RosterIt',
            'QXmppPresence': 'qpres', 'QXmppPresence::Type': 'int',
            'QXmppClient': 'QXmppClient', 'QXmppClient::StreamManagementState': 'int',
            'std::variant<QXmppRosterIq,QXmppError>': 'RosterResult',
            # result type of std::get_if<QXmppRosterIq>: clang 14 leaves remove_reference<T>::type unresolved in the dump (T is not a reference)
            'typename remove_reference<QXmppRosterIq>::type': 'QXmppRosterIq', 'add_pointer_t<QXmppRosterIq>': 'QXmppRosterIq*',
            'QXmppTask<QXmppRosterManager::RosterResult>': 'qtask',
            'QXmppTask<std::variant<QXmppRosterIq,QXmppError>>': 'qtask',
        },
        class_types={'QXmppRosterManager', 'QXmppRosterManagerPrivate', 'RosterMap', 'RosterIt', 'PresMap', 'ResMap', 'QXmppRosterIq', 'QXmppIq',
                     'QXmppClient', 'RosterResult'},
        calls={
            # QXmppUtils::jidToBareJid / jidToResource: uninterpreted functions of the JID with NO axiom beyond f("") == ""
            # (the C12 contracts need none; the shared rules of vlib/opaque_profile.py would add idempotence facts)
            'fn:jidToBareJid/1': ('expr', '{0} == 0 ? 0 : __CPROVER_uninterpreted_jid_bare({0})'),
            'fn:jidToResource/1': ('expr', '{0} == 0 ? 0 : __CPROVER_uninterpreted_jid_resource({0})'),
            # d-pointer: std::unique_ptr<Private>::operator-> is the pointer itself
            'op->:QXmppRosterManagerPrivate*': ('arg', 0),
            # the client and its configuration: pure getters (ASSUMED)
            '*::client/0': ('const', 'gh_client'),
            '*::jidBare/0': ('const', 'gh_cfg_jidBare'),
            # further getters of the configured account a changed sender check may consult: opaque values nothing relates to the bare JID
            '*::configuration/0': ('const', '0'),
            '*::domain/0': ('const', 'gh_cfg_domain'), '*::user/0': ('const', 'gh_cfg_user'), '*::jid/0': ('const', 'gh_cfg_jid'),
            'QXmppClient::streamManagementState/0': ('expr', 'gh_sm_state'),
            'QXmppClient::isAuthenticated/0': ('expr', 'gh_authenticated'),
            'QXmppClient::sendPacket/1': ('fn', 'QXmppClient_sendPacket'),
            # roster IQ / IQ value classes (ASSUMED contract of parse, see model.h)
            'fn:isRosterIq/1': ('fn', 'QXmppRosterIq_isRosterIq'),
            'ctor:QXmppRosterIq()': ('fn', 'QXmppRosterIq_ctor'),
            'QXmppRosterIq::parse/1': ('fn', 'QXmppRosterIq_parse'),
            'QXmppRosterIq::type/0': ('fn', 'QXmppRosterIq_type'),
            'QXmppRosterIq::id/0': ('fn', 'QXmppRosterIq_id'),
            'QXmppRosterIq::items/0': ('fn', 'QXmppRosterIq_items'),
            'ctor:QXmppIq(int)': ('fn', 'QXmppIq_ctor'),
            'QXmppIq::setId/1': ('fn', 'QXmppIq_setId'),
            'QXmppIq::setTo/1': ('fn', 'QXmppIq_setTo'),
            'QXmppRosterIq::from/0': ('fn', 'QXmppRosterIq_from'),
            'qitem::bareJid/0': ('fn', 'qitem_bareJid'),
            'qitem::subscriptionType/0': ('fn', 'qitem_subscriptionType'),
            'qitem::name/0': ('fn', 'qitem_name'), 'qitem::subscriptionStatus/0': ('fn', 'qitem_subscriptionStatus'),
            'qitem::groups/0': ('fn', 'qitem_groups'), 'qitem::isApproved/0': ('fn', 'qitem_isApproved'),
            'qitem::isMixChannel/0': ('fn', 'qitem_isMixChannel'), 'qitem::mixParticipantId/0': ('fn', 'qitem_mixParticipantId'),
            'op==:qstrset:qstrset': ('expr', '{0} == {1}'), 'op!=:qstrset:qstrset': ('expr', '{0} != {1}'),
            'rangefor:qitemlist': cxx2c.rangefor_indexed('qitemlist_size({r})', 'qitemlist_at({r}, {i})'),
            # containers (witness-key view, model.h)
            'RosterMap::remove/1': ('fn', 'RosterMap_remove'),
            'RosterMap::contains/1': ('fn', 'RosterMap_contains'),
            'RosterMap::insert/2': ('fn', 'RosterMap_insert'),
            'RosterMap::clear/0': ('fn', 'RosterMap_clear'),
            'RosterMap::value/1': ('fn', 'RosterMap_value'),
            'RosterMap::find/1': ('fnret', 'RosterMap_find', 'RosterIt'), 'RosterMap::constFind/1': ('fnret', 'RosterMap_find', 'RosterIt'),
            'RosterMap::end/0': ('fnret', 'RosterMap_end', 'RosterIt'), 'RosterMap::constEnd/0': ('fnret', 'RosterMap_end', 'RosterIt'),
            'RosterMap::cend/0': ('fnret', 'RosterMap_end', 'RosterIt'),
            'op==:RosterIt:RosterIt': ('fn', 'RosterIt_eq'), 'op!=:RosterIt:RosterIt': ('fn', 'RosterIt_ne'),
            'op*:RosterIt': ('fn', 'RosterIt_value'), 'RosterIt::value/0': ('fn', 'RosterIt_value'), 'RosterIt::key/0': ('fn', 'RosterIt_key'),
            'PresMap::clear/0': ('fn', 'PresMap_clear'),
            'op[]:PresMap:qstr': ('expr', '*PresMap_index({0}, {1})'),
            'op[]:ResMap:qstr': ('expr', '*ResMap_index({0}, {1})'),
            'ResMap::remove/1': ('fn', 'ResMap_remove'),
            'ResMap::size/0': ('fn', 'ResMap_size'),
            'ResMap::count/0': ('fn', 'ResMap_size'),
            'ResMap::isEmpty/0': ('fn', 'ResMap_isEmpty'),
            'ResMap::contains/1': ('fn', 'ResMap_contains'),
            'PresMap::value/1': ('fnret', 'PresMap_value'),
            'PresMap::remove/1': ('fn', 'PresMap_remove'),
            'PresMap::contains/1': ('fn', 'PresMap_contains'),
            'qpres::from/0': ('fn', 'qpres_from'),
            'qpres::type/0': ('fn', 'qpres_type'),
            # signals -> event log (events.h)
            'QXmppRosterManager::itemAdded/1': ('fn', 'ev_itemAdded'),
            'QXmppRosterManager::itemChanged/1': ('fn', 'ev_itemChanged'),
            'QXmppRosterManager::itemRemoved/1': ('fn', 'ev_itemRemoved'),
            'QXmppRosterManager::rosterReceived/0': ('fn', 'ev_rosterReceived'),
            'QXmppRosterManager::presenceChanged/2': ('fn', 'ev_presenceChanged'),
            # repository callees: lowered + verified themselves (clear) or used through an assumed frame contract
            'QXmppRosterManagerPrivate::clear/0': ('callee', 'QXmppRosterManagerPrivate_clear'),
            'QXmppRosterManager::requestRoster/0': ('callee', 'QXmppRosterManager_requestRoster'),
            'QXmppRosterManager::handleSubscriptionRequest/2': ('callee', 'QXmppRosterManager_handleSubscriptionRequest'),
            # continuation: registered, verified as its own target
            'qtask::then/2': ('fn', 'qtask_then'),
            'expr:LambdaExpr': lambda lw, n: 'LAMBDA_ROSTER_RESULT',
            'fn:get_if/1': ('fn', 'RosterResult_get_if_iq'),
        },
        pure_fns={'client', 'configuration', 'jidBare', 'domain', 'user', 'jid'},
    )


def find_result_lambda(decl):
    """the instantiated operator() of the (single) continuation lambda inside `decl`"""
    found = []

    def walk(n):
        if not isinstance(n, dict):
            return
        if n.get('kind') == 'LambdaExpr':
            for c in n.get('inner', []):
                if c.get('kind') != 'CXXRecordDecl':
                    continue
                for m in c.get('inner', []):
                    cands = m.get('inner', []) if m.get('kind') == 'FunctionTemplateDecl' and m.get('name') == 'operator()' else [m]
                    for s in cands:
                        if s.get('kind') == 'CXXMethodDecl' and s.get('name') == 'operator()' and astx.has_body(s) \
                                and 'auto' not in s.get('type', {}).get('qualType', ''):
                            found.append(s)
            return
        for c in n.get('inner', []):
            walk(c)
    walk(decl)
    if len(found) != 1:
        raise astx.ExtractError('expected exactly one instantiated continuation lambda in _q_connected, found %d' % len(found))
    if astx.contains_error_nodes(found[0]):
        raise astx.ExtractError('AST of the roster-result lambda contains clang error-recovery nodes')
    return found[0]


def build(work, tier):
    prof = profile()
    prof.hooks = HOOKS
    b = Builder('C12', work, prof)
    src = os.path.join(REPO, SRC)
    M = 'QXmppRosterManager'
    P = 'QXmppRosterManagerPrivate'
    LAMBDA = M + '_q_connected_rosterResult'

    specs, texts = {}, {}

    def lower(name, cname, cls, specf, decl=None):
        t = Target(SRC, cls + '::' + name, name, cname, this=cls, parent=None)
        if decl is not None:
            t.decl = decl
        specs[cname] = b.spec(specf)
        texts[cname] = b.lower(t, specs[cname])

    lower('handleStanza', M + '_handleStanza', M, 'handleStanza.spec')
    lower('clear', P + '_clear', P, 'clear.spec')
    lower('_q_connected', M + '__q_connected', M, 'connected.spec')
    # the continuation passed to requestRoster().then(): its instantiated operator() is a verification target of its own
    conn = astx.find_function(src, M + '::_q_connected', '_q_connected')
    lower('operator()', LAMBDA, M, 'rosterResult.spec', decl=find_result_lambda(conn))
    b.functions[-1]['function'] = M + '::_q_connected::<lambda(result)>'
    lower('_q_disconnected', M + '__q_disconnected', M, 'disconnected.spec')
    lower('_q_presenceReceived', M + '__q_presenceReceived', M, 'presenceReceived.spec')

    # enum constants the specifications name (case labels are lowered to their values and do not register them)
    for et, names in (('QXmppIq::Type', {'Set', 'Result'}), ('QXmppPresence::Type', {'Available', 'Unavailable'}),
                      ('QXmppClient::StreamManagementState', {'ResumedStream', 'NoStreamManagement'}),
                      ('QXmppRosterIq::Item::SubscriptionType', {'Remove'})):
        b.need_enums.setdefault((src, ()), {}).setdefault(et, set()).update(names)

    rec_p, _ = ctx.emit_record(src, P, P, P, prof)
    rec_m, _ = ctx.emit_record(src, M, M, M, prof, opaque_ok=True)
    ctxt = b.context()
    head = '#include "opaque.h"\n' + prof.literal_ids.table() + ctxt + '\n' + b.subst(rd('model.h')) + rec_p + '\n' + rec_m + '\n' + b.subst(rd('events.h'))
    havoc = ('g_j = nondet_qstr(); g_b = nondet_qstr(); g_r = nondet_qstr(); gh_cfg_jidBare = nondet_qstr(); gh_cfg_domain = nondet_qstr(); gh_cfg_user = nondet_qstr(); gh_cfg_jid = nondet_qstr(); gh_sm_state = nondet_int(); '
             'gh_authenticated = nondet_bool(); gh_roster_task = nondet_int();')
    proofs = []
    alltext = [head]

    def add(cname, harness, kind, replace=(), protos=(), expect_loops=0, note='', timeout=600):
        # a callee is replaced by its contract only where the lowered text really calls it (goto-instrument rejects a
        # replacement of a function that is not called, and a deleted call must show up as a failed postcondition)
        body = texts[cname][texts[cname].index('\n{'):]
        replace = [r for r in replace if re.search(r'\b%s\(' % re.escape(r), body)]
        c = head + ''.join(b.prototype(texts[r]) for r in protos) + texts[cname] + '\nvoid h_%s(void) { %s %s }\n' % (cname, havoc, harness)
        f = b.write(cname + '.c', c)
        p = Proof(cname, f, 'h_' + cname, enforce=cname, replace=list(replace), kind=kind, include_dirs=[QT], timeout=timeout,
                  loop_contracts=(kind == 'contract'), expect_loops=expect_loops, note=note)
        sp = specs[cname]
        p.labels = {'post': {cname: sp.labels}, 'inv': {cname: sp.inv_labels.get(0, [])}}
        p.expect_post = len(sp.labels)
        proofs.append(p)
        alltext.append(texts[cname])

    add(M + '_handleStanza', 'QXmppRosterManager *self; qdom element; %s_handleStanza(self, element);' % M, 'contract', expect_loops=1,
        note='every DOM element, every sender, every item list of any length (loop contract), stated for one arbitrary roster JID')
    add(P + '_clear', '%s *self; %s_clear(self);' % (P, P), 'complete', note='loop-free')
    add(M + '__q_connected', '%s *self; %s__q_connected(self);' % (M, M), 'complete', replace=[P + '_clear', M + '_requestRoster'], protos=[P + '_clear'],
        note='loop-free; clear() used through its verified contract, requestRoster() through an assumed frame contract')
    add(LAMBDA, 'const %s *self; RosterResult *result; %s(self, result);' % (M, LAMBDA), 'contract', expect_loops=1,
        note='every roster result (item list of any length, loop contract) or error')
    add(M + '__q_disconnected', '%s *self; %s__q_disconnected(self);' % (M, M), 'complete', replace=[P + '_clear'], protos=[P + '_clear'], note='loop-free')
    add(M + '__q_presenceReceived', '%s *self; qpres presence; %s__q_presenceReceived(self, presence);' % (M, M), 'complete',
        replace=[M + '_handleSubscriptionRequest'],
        note='loop-free; every presence, stated for one arbitrary (contact, resource); handleSubscriptionRequest() through an assumed frame contract')

    # lemma harness: induction step over histories, contracts only
    ops = [M + '_handleStanza', M + '__q_connected', LAMBDA, M + '__q_disconnected', M + '__q_presenceReceived']
    c = head + ''.join(b.prototype(texts[r]) for r in ops) + b.subst(rd('lemma.h'))
    f = b.write('lemma.c', c)
    p = Proof('lemma_history', f, 'lemma_step', enforce=None, replace=ops, kind='complete', include_dirs=[QT], timeout=600, loop_contracts=False,
              note='induction step of the history invariant; every operation replaced by the contract it was verified against')
    p.labels = {}
    p.expect_post = 4
    proofs.append(p)
    alltext.append(rd('lemma.h'))

    return {
        'proofs': proofs, 'functions': b.functions, 'dropped': b.dropped, 'fired': b.fired,
        'hooks': [h['id'] + ' (' + h['fn'] + '): ' + h['emit'] for h in HOOKS],
        'assumed': ASSUMED,
        'assumes': scan_assumes(rd('model.h') + rd('events.h') + open(os.path.join(QT, 'opaque.h')).read()),
        'not_covered': NOT_COVERED,
    }


ASSUMED = [
    'opaque-string axioms: equality only; jidToBareJid / jidToResource are uninterpreted functions of the JID with f("") == "" and no other axiom (QXmppUtils::jidToBareJid / jidToResource themselves are not verified here)',
    'A-DOM abstract DOM (qtmodel/opaque.h): tagName / attribute are functions of the node',
    'A-QMAP witness-key view of QMap<QString,Item> and QMap<QString,QMap<QString,QXmppPresence>> (units/C12/model.h): insert / remove / contains / operator[] / clear act on the witness key as QMap does; other keys are unconstrained',
    'A-QLIST QList<Item>: size and elements are functions of the list value; LIST_LAST is the last index whose item has the witness JID (its defining facts are assumed where the list is read)',
    'QXmppRosterIq::parse (with QXmppStanza::parse / QXmppIq::parse): id() == attribute("id"); type() in {Error,Get,Set,Result} and items() are functions of the parsed element; the parser is not verified here',
    'QXmppRosterIq::isRosterIq is a pure predicate of the element',
    'QXmppRosterIq::Item const getters (bareJid, subscriptionType, name, subscriptionStatus, groups, isApproved, isMixChannel, mixParticipantId) and QXmppPresence::from / type are pure getters: uninterpreted functions of the value; items that agree on getters are NOT assumed to be the same item',
    'A-QMAP lookups (units/C12/model.h): value(k), find / constFind / end / constEnd yield, for the witness key, end or the stored item; for any other key an unconstrained answer; iterators are read-only and never advanced; dereferencing end() is a safety obligation',
    'QXmppIq(Type) generates some fresh id; setId overwrites it; client()->sendPacket transmits the stanza object unchanged (event log)',
    'client()->configuration().jidBare(), streamManagementState(), isAuthenticated() are pure getters',
    'signal emission = synchronous call with no effect on the roster manager other than the event log (re-entrant slots are not modelled)',
    'frame: requestRoster() and handleSubscriptionRequest() do not modify entries / presences / isRosterReceived (used through a contract with an empty tracked-state assigns clause; not verified)',
    'std::get_if<QXmppRosterIq> on the roster result returns the IQ alternative or nullptr',
    'task.then(context, lambda) registers the continuation; it runs later, at most once, with the result of the roster request (QXmppTask: property C13)',
]
NOT_COVERED = [
    'QXmppRosterIq::parse / Item::parse (what the items of a push are is whatever the parser produces from the element)',
    'QXmppUtils::jidToBareJid / jidToResource on concrete strings (DESIGN planned a bounded check; here they are uninterpreted)',
    'that the connected / disconnected / presenceReceived signals of the client are wired to these slots and fire in session order (constructor connect() calls; event loop)',
    'the C08 aspect (an authorised roster get is consumed without an answer) is left to C08',
    'item identity is id equality: a variant that keeps the cached item because it compared EVERY member equal to the pushed one would be reported although it is observationally correct (QXmppRosterIq::Item has no operator==; no extensionality axiom is assumed)',
]


# ---------------------------------------------------------------------------------------------------- native replay
# A failed obligation is a VIOLATION whatever happens here; this only tries to attach a concrete input that shows the
# failure on the REAL library built from the working tree (DESIGN 3.3/3.4): the two drivers run a battery of concrete
# scenarios (look-alike senders, ordered add/update/remove items, session histories) and evaluate the property-level
# postcondition natively.
_native_cache = {}


def _run_native(driver, arg):
    from vlib import native
    key = (driver, str(arg))
    if key not in _native_cache:
        _native_cache[key] = native.run_driver(os.path.join(HERE, driver), args=[str(arg)], timeout=300)
    return _native_cache[key]


def _drivers_for(proof_id):
    if 'handleStanza' in proof_id:
        return ['replay_push.cpp']
    if 'lemma' in proof_id:
        return ['replay_push.cpp', 'replay_session.cpp']
    return ['replay_session.cpp']


def find_input(unit, p, o, lab, work):
    for drv in _drivers_for(p.id):
        rc, out = _run_native(drv, 'all')
        m = re.search(r'VIOLATED (?:scenario|seed)=(\d+)[^\n]*', out)
        if rc == 1 and m:
            return {'inputs': {'driver': drv, 'arg': int(m.group(1)), 'what': m.group(0)}, 'reproduced': True, 'native_output': out[-3000:]}
    return None


def native_replay(rp):
    inp = rp['inputs']
    rc, out = _run_native(inp['driver'], inp['arg'])
    return rc == 1 and 'VIOLATED' in out, out
