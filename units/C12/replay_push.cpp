// C12 native replay driver: builds concrete roster IQs, hands them to the REAL QXmppRosterManager::handleStanza of the
// library built from the working tree, and evaluates the C12 postcondition (written here from the property statement,
// independently of the code): a roster IQ from another entity changes nothing and is not acknowledged; an authorised
// push is acknowledged once with a result carrying its id and its items are applied in order.
//
//   replay_push all            run the whole scenario battery, print the first violating scenario (exit 1) or "ALL HOLD" (exit 0)
//   replay_push <index>        run one scenario (exit 1 if the postcondition is violated)
#include "QXmppClient.h"
#include "QXmppClientExtension.h"
#include "QXmppClient_p.h"
#include "QXmppConfiguration.h"
#include "QXmppLogger.h"
#include "QXmppOutgoingClient.h"
#include "QXmppRosterManager.h"
#include "QXmppStreamManagement_p.h"

#include <QCoreApplication>
#include <QDomDocument>
#include <QMap>
#include <QStringList>
#include <cstdio>

// QXmppClient declares `friend class TestClient` (used by the repository's own tests): gives access to the outgoing stream
class TestClient : public QXmppClient
{
public:
    TestClient() : QXmppClient()
    {
        d->stream->enableStreamManagement(true);   // packets are accepted (queued and logged) without a socket
        logger()->setLoggingType(QXmppLogger::SignalLogging);
        QObject::connect(logger(), &QXmppLogger::message, this, [this](QXmppLogger::MessageType t, const QString &text) {
            if (t == QXmppLogger::SentMessage && !text.startsWith(QStringLiteral("<r "))) {
                sent << text;
            }
        });
    }
    QStringList sent;
};

struct Item { QString jid, sub, name; bool approved = false; QString mixPid = QString(); /* null: not a MIX channel */ };
// everything the roster view exposes about an entry (the reference keeps the same string for the item that must be cached)
static QString sig(const Item &i)
{
    return QStringLiteral("%1|%2|%3|%4|%5").arg(i.name, i.sub).arg(i.approved).arg(!i.mixPid.isNull()).arg(i.mixPid);
}
static QString subStr(QXmppRosterIq::Item::SubscriptionType t)
{
    switch (t) {
    case QXmppRosterIq::Item::None: return QStringLiteral("none");
    case QXmppRosterIq::Item::From: return QStringLiteral("from");
    case QXmppRosterIq::Item::To: return QStringLiteral("to");
    case QXmppRosterIq::Item::Both: return QStringLiteral("both");
    case QXmppRosterIq::Item::Remove: return QStringLiteral("remove");
    default: return QString();
    }
}
static QString sig(const QXmppRosterIq::Item &i)
{
    return QStringLiteral("%1|%2|%3|%4|%5").arg(i.name(), subStr(i.subscriptionType())).arg(i.isApproved()).arg(i.isMixChannel()).arg(i.mixParticipantId());
}
struct Scenario {
    QString what, own, from, type, id;
    bool rosterNs = true;
    QList<Item> pre;     // entries before (installed through an authorised push without from)
    QList<Item> items;   // items of the IQ under test
};

static QString specBare(const QString &jid) { int p = jid.indexOf(QLatin1Char('/')); return p < 0 ? jid : jid.left(p); }

static QString iqXml(const QString &from, const QString &type, const QString &id, const QList<Item> &items, bool rosterNs)
{
    QString x = QStringLiteral("<iq xmlns='jabber:client'");
    if (!from.isNull()) x += QStringLiteral(" from='%1'").arg(from);
    x += QStringLiteral(" id='%1' type='%2'><query xmlns='%3'>").arg(id, type, rosterNs ? QStringLiteral("jabber:iq:roster") : QStringLiteral("jabber:iq:private"));
    for (const auto &i : items) {
        x += QStringLiteral("<item jid='%1' name='%2'").arg(i.jid, i.name);
        if (!i.sub.isEmpty()) x += QStringLiteral(" subscription='%1'").arg(i.sub);
        if (i.approved) x += QStringLiteral(" approved='true'");
        if (!i.mixPid.isNull()) x += QStringLiteral("><channel xmlns='urn:xmpp:mix:roster:0' participant-id='%1'/></item>").arg(i.mixPid);
        else x += QStringLiteral("/>");
    }
    return x + QStringLiteral("</query></iq>");
}

static QDomElement dom(const QString &xml, QDomDocument &doc)
{
    doc.setContent(xml, true);
    return doc.documentElement();
}

static QList<Scenario> battery()
{
    const QString own = QStringLiteral("me@example.org");
    const QList<Item> pre = { { "alice@example.org", "both", "Alice" }, { "bob@example.org", "to", "Bob" } };
    const QList<Item> upd = { { "carol@example.org", "none", "Carol" }, { "alice@example.org", "from", "Alice2" }, { "bob@example.org", "remove", "" },
                              { "carol@example.org", "both", "Carol2" }, { "bob@example.org", "to", "Bob2" }, { "bob@example.org", "remove", "" } };
    struct S { const char *what; QString from; };
    const QList<S> senders = {
        { "server (no from)", QString() }, { "own bare JID", own }, { "own full JID", own + "/phone" },
        { "stranger", "mallory@evil.example" }, { "stranger full JID", "mallory@evil.example/x" },
        { "look-alike: own bare JID as a prefix of another domain", own + ".evil.example" },
        { "look-alike: own bare JID as prefix, full JID", own + ".evil.example/me" },
        { "look-alike: own bare JID as resource of another account", "mallory@evil.example/" + own },
        { "look-alike: upper-case variant", "ME@example.org" },
        { "a contact of the roster", "alice@example.org/home" },
        { "the server's domain", "example.org" },
    };
    QList<Scenario> out;
    for (const auto &s : senders) {
        for (const QString &type : { QStringLiteral("set"), QStringLiteral("result"), QStringLiteral("get") }) {
            Scenario c;
            c.what = QStringLiteral("%1 roster IQ from %2").arg(type, s.what);
            c.own = own; c.from = s.from; c.type = type; c.id = QStringLiteral("push-%1").arg(out.size()); c.pre = pre; c.items = upd;
            out << c;
        }
    }
    Scenario n; n.what = "set IQ with another payload namespace from the server"; n.own = own; n.type = "set"; n.id = "x1"; n.pre = pre; n.items = upd; n.rosterNs = false;
    out << n;
    // pushes that differ from the cached item only in one attribute
    { Scenario c; c.what = "authorised push that only pre-approves a cached contact"; c.own = own; c.type = "set"; c.id = "x3"; c.pre = pre;
      Item i { "alice@example.org", "both", "Alice" }; i.approved = true; c.items = { i }; out << c; }
    { Scenario c; c.what = "authorised push that only turns a cached contact into a MIX channel"; c.own = own; c.type = "set"; c.id = "x4"; c.pre = pre;
      Item i { "bob@example.org", "to", "Bob" }; i.mixPid = QStringLiteral("123456#coven@mix.example.org"); c.items = { i }; out << c; }
    { Scenario c; c.what = "authorised push that only renames a cached contact"; c.own = own; c.type = "set"; c.id = "x5"; c.pre = pre;
      Item i { "bob@example.org", "to", "Robert" }; c.items = { i }; out << c; }
    Scenario e; e.what = "authorised push without items"; e.own = own; e.type = "set"; e.id = "x2"; e.pre = pre;
    out << e;
    return out;
}

// returns an empty string if the postcondition holds, otherwise what is violated
static QString run(const Scenario &sc, bool verbose)
{
    TestClient client;
    client.configuration().setJid(sc.own + QStringLiteral("/replay"));
    auto *mgr = client.findExtension<QXmppRosterManager>();
    if (!mgr) return QStringLiteral("driver: no roster manager");
    QDomDocument d0, d1;
    if (!sc.pre.isEmpty()) {
        mgr->handleStanza(dom(iqXml(QString(), "set", "pre", sc.pre, true), d0));
    }
    client.sent.clear();
    QStringList signalLog;
    QObject::connect(mgr, &QXmppRosterManager::itemAdded, mgr, [&](const QString &j) { signalLog << "added " + j; });
    QObject::connect(mgr, &QXmppRosterManager::itemChanged, mgr, [&](const QString &j) { signalLog << "changed " + j; });
    QObject::connect(mgr, &QXmppRosterManager::itemRemoved, mgr, [&](const QString &j) { signalLog << "removed " + j; });

    // reference: what the property statement prescribes
    QMap<QString, QString> ref;   // jid -> signature of the item that is the current entry
    for (const auto &i : sc.pre) ref[i.jid] = sig(i);
    const QMap<QString, QString> before = ref;
    const bool authorised = sc.from.isEmpty() || specBare(sc.from) == sc.own;
    const bool push = authorised && sc.rosterNs && sc.type == QStringLiteral("set");
    QStringList refSignals;
    if (push) {
        for (const auto &i : sc.items) {
            if (i.sub == QStringLiteral("remove")) {
                if (ref.remove(i.jid)) refSignals << "removed " + i.jid;
            } else {
                refSignals << (ref.contains(i.jid) ? "changed " : "added ") + i.jid;
                ref[i.jid] = sig(i);
            }
        }
    }
    const QString xml = iqXml(sc.from, sc.type, sc.id, sc.items, sc.rosterNs);
    const bool ret = mgr->handleStanza(dom(xml, d1));
    QCoreApplication::processEvents();

    QMap<QString, QString> got;
    for (const auto &j : mgr->getRosterBareJids()) got[j] = sig(mgr->getRosterEntry(j));
    if (verbose) {
        printf("  input: %s\n  handled=%d packets-sent=%d entries=%d signals=%d\n", qPrintable(xml), ret, int(client.sent.size()), int(got.size()), int(signalLog.size()));
    }
    if (!authorised || !sc.rosterNs) {
        if (ret) return QStringLiteral("an IQ that is not an authorised roster IQ was consumed (handleStanza returned true)");
        if (!client.sent.isEmpty()) return QStringLiteral("an IQ from another entity was acknowledged: ") + client.sent.first();
        if (got != before) return QStringLiteral("an IQ from another entity changed the roster view");
        if (!signalLog.isEmpty()) return QStringLiteral("an IQ from another entity caused roster signals");
        return QString();
    }
    if (got != ref) return QStringLiteral("the roster view is not the previous view with the push items applied in order");
    if (signalLog != refSignals) return QStringLiteral("the item signals do not match the changes");
    if (push) {
        if (!ret) return QStringLiteral("an authorised push was not consumed");
        if (client.sent.size() != 1) return QStringLiteral("an authorised push was acknowledged %1 times").arg(client.sent.size());
        QDomDocument d2;
        const auto r = dom(client.sent.first(), d2);
        if (r.tagName() != QStringLiteral("iq") || r.attribute("type") != QStringLiteral("result") || r.attribute("id") != sc.id)
            return QStringLiteral("the acknowledgement is not a result IQ with the id of the push: ") + client.sent.first();
    }
    return QString();
}

int main(int argc, char **argv)
{
    QCoreApplication app(argc, argv);
    const auto scs = battery();
    const QString arg = argc > 1 ? QString::fromLocal8Bit(argv[1]) : QStringLiteral("all");
    int bad = 0;
    for (int i = 0; i < scs.size(); i++) {
        if (arg != QStringLiteral("all") && arg.toInt() != i) continue;
        const QString v = run(scs[i], arg != QStringLiteral("all"));
        if (!v.isEmpty()) {
            printf("VIOLATED scenario=%d (%s): %s\n", i, qPrintable(scs[i].what), qPrintable(v));
            printf("  own=%s from=%s type=%s id=%s\n", qPrintable(scs[i].own), scs[i].from.isNull() ? "(none)" : qPrintable(scs[i].from), qPrintable(scs[i].type), qPrintable(scs[i].id));
            bad++;
            if (arg == QStringLiteral("all")) break;
        } else if (arg != QStringLiteral("all")) {
            printf("HOLDS scenario=%d (%s)\n", i, qPrintable(scs[i].what));
        }
    }
    if (!bad && arg == QStringLiteral("all")) printf("ALL HOLD (%d scenarios)\n", int(scs.size()));
    return bad ? 1 : 0;
}
