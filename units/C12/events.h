/* C12 -- event log of the roster manager's signals and of its asynchronous calls; included after the record definitions */
#define ENT_P(self) ((self)->d->entries.w_present)
#define ENT_V(self) ((self)->d->entries.w_value)

/* A listener that follows the witness JID through the itemAdded / itemChanged / itemRemoved signals only:
 * gh_sh_* is what it believes, gh_sig_ok says that every signal about g_j matched the transition that happened
 * (added: absent -> present, changed: present -> present, removed: present -> absent).  The listener reads the entry when it
 * is notified (getRosterEntry), so an un-notified change leaves its view stale. */
bool gh_sig_ok; bool gh_sh_present; qitem gh_sh_value; int gh_signals;
static inline void ev_item_signal(const QXmppRosterManager *self, qstr jid, int kind)
{
  if (gh_signals < 1000) gh_signals++;
  if (jid != g_j) return;
  bool now = self->d->entries.w_present;
  bool ok = kind == 1 ? (!gh_sh_present && now) : kind == 2 ? (gh_sh_present && now) : (gh_sh_present && !now);
  gh_sig_ok = gh_sig_ok && ok;
  gh_sh_present = now; gh_sh_value = self->d->entries.w_value;
}
static inline void ev_itemAdded(const QXmppRosterManager *self, qstr jid) { ev_item_signal(self, jid, 1); }
static inline void ev_itemChanged(const QXmppRosterManager *self, qstr jid) { ev_item_signal(self, jid, 2); }
static inline void ev_itemRemoved(const QXmppRosterManager *self, qstr jid) { ev_item_signal(self, jid, 3); }
#define SHADOW_IN_SYNC(self) (gh_sh_present == ENT_P(self) && (!ENT_P(self) || gh_sh_value == ENT_V(self)))

int gh_roster_received;
static inline void ev_rosterReceived(const QXmppRosterManager *self) { if (gh_roster_received < 1000) gh_roster_received++; }

int gh_pres_changed; qstr gh_pc_bare; qstr gh_pc_res;
static inline void ev_presenceChanged(const QXmppRosterManager *self, qstr bare, qstr res)
{
  if (gh_pres_changed < 1000) gh_pres_changed++;
  gh_pc_bare = bare; gh_pc_res = res;
}

/* ghost snapshot taken where a function obtains the item list it is going to apply (ghost hook `items_snapshot`):
 * loop invariants may not contain function symbols, so they speak about these copies */
int gh_n; int gh_L; qitem gh_Litem; int gh_Lsub;

/* task.then(context, lambda): the continuation is registered, not run (it is verified as its own target) */
#define LAMBDA_ROSTER_RESULT 1
int gh_then_calls; qtask gh_then_task; const void *gh_then_ctx; int gh_then_lambda;
static inline void qtask_then(qtask t, const void *ctx, int lambda)
{
  if (gh_then_calls < 1000) gh_then_calls++;
  gh_then_task = t; gh_then_ctx = ctx; gh_then_lambda = lambda;
}

/* ---- repository callees used through a contract only (ASSUMED: external-call frame, DESIGN 8.4) */
int gh_roster_requests; qtask gh_roster_task;
qtask QXmppRosterManager_requestRoster(QXmppRosterManager *self)
__CPROVER_requires(gh_roster_requests >= 0 && gh_roster_requests < 1000)
__CPROVER_assigns(gh_roster_requests)
__CPROVER_ensures(gh_roster_requests == __CPROVER_old(gh_roster_requests) + 1 && __CPROVER_return_value == gh_roster_task)
;
int gh_subreq;
void QXmppRosterManager_handleSubscriptionRequest(QXmppRosterManager *self, qstr bareJid, qpres presence)
__CPROVER_assigns(gh_subreq)
;

/* ---- specification vocabulary */
#define SENDER_OK(e) (IQ_FROM(e) == 0 || __CPROVER_uninterpreted_jid_bare(IQ_FROM(e)) == gh_cfg_jidBare)
#define PUSH(e) (IS_ROSTER_IQ(e) && SENDER_OK(e) && IQ_TYPE(e) == QXmppIq_Type__Set)
#define PUSH_L(e) LIST_LAST(IQ_ITEMS(e))
#define PUSH_ITEM(e) LIST_AT(IQ_ITEMS(e), PUSH_L(e))
#define RESULT_L(r) LIST_LAST(IQ_ITEMS((r)->iq.src))
#define P_BARE(p) (PRES_FROM(p) == 0 ? 0 : __CPROVER_uninterpreted_jid_bare(PRES_FROM(p)))
#define P_RES(p) (PRES_FROM(p) == 0 ? 0 : __CPROVER_uninterpreted_jid_resource(PRES_FROM(p)))
#define P_HITS(p) (P_BARE(p) != 0 && P_BARE(p) == g_b && P_RES(p) == g_r)
