/* C12 -- unit-owned models (ASSUMED contracts of Qt containers and of QXmpp value classes that are not lowered here),
 * ghost state and event log.  Opaque ids: equal ids = equal values; nothing else is known about a value.
 *
 * Witness-key view of the containers (DESIGN 5.5): the contracts speak about ONE arbitrary roster JID g_j and ONE arbitrary
 * (contact, resource) pair (g_b, g_r).  The witnesses are nondeterministic, so what is proved for them holds for every key.
 * The map models keep exactly the part of the map the witness can observe; an operation on another key leaves it alone
 * and answers nondeterministically (any other content is possible). */
typedef int qitem;     /* a QXmppRosterIq::Item value */
typedef int qitemlist; /* a QList<QXmppRosterIq::Item> value */
typedef int qpres;     /* a QXmppPresence value */
typedef int qtask;     /* a QXmppTask<RosterResult> handle */
qitem nondet_qitem(void);
qpres nondet_qpres(void);

qstr g_j;              /* witness roster JID */
qstr g_b, g_r;         /* witness contact (bare JID) and resource */

/* ---- QXmppRosterIq::Item : bareJid() / subscriptionType() are pure getters (functions of the item value) */
qstr __CPROVER_uninterpreted_item_bareJid(qitem i);
int __CPROVER_uninterpreted_item_subtype(qitem i);
#define ITEM_JID(i) __CPROVER_uninterpreted_item_bareJid(i)
#define ITEM_SUB(i) __CPROVER_uninterpreted_item_subtype(i)
static inline qstr qitem_bareJid(qitem i) { return ITEM_JID(i); }
static inline int qitem_subscriptionType(qitem i) { return ITEM_SUB(i); }
/* the other const getters of an item: each an (uninterpreted) function of the item value.  Nothing says that two items
 * which agree on some, or on all, of these observations are the same item: "the cached entry IS the pushed item" is id
 * equality, so code that keeps the cached item because a comparison of getters found no difference does not establish it. */
typedef int qstrset;   /* a QSet<QString> value (opaque; equal ids = equal sets) */
qstr __CPROVER_uninterpreted_item_name(qitem i);
qstr __CPROVER_uninterpreted_item_subscriptionStatus(qitem i);
qstrset __CPROVER_uninterpreted_item_groups(qitem i);
bool __CPROVER_uninterpreted_item_isApproved(qitem i);
bool __CPROVER_uninterpreted_item_isMixChannel(qitem i);
qstr __CPROVER_uninterpreted_item_mixParticipantId(qitem i);
static inline qstr qitem_name(qitem i) { return __CPROVER_uninterpreted_item_name(i); }
static inline qstr qitem_subscriptionStatus(qitem i) { return __CPROVER_uninterpreted_item_subscriptionStatus(i); }
static inline qstrset qitem_groups(qitem i) { return __CPROVER_uninterpreted_item_groups(i); }
static inline bool qitem_isApproved(qitem i) { return __CPROVER_uninterpreted_item_isApproved(i); }
static inline bool qitem_isMixChannel(qitem i) { return __CPROVER_uninterpreted_item_isMixChannel(i); }
static inline qstr qitem_mixParticipantId(qitem i) { return __CPROVER_uninterpreted_item_mixParticipantId(i); }

/* ---- QList<Item> : size and element are functions of the list value.
 * LIST_LAST(l) is the specification's own description of "the item that wins for the witness JID": the LAST index whose
 * item has bareJid == g_j, or -1 if there is none.  Such an index exists for every finite list; its defining facts
 *   (a) -1 <= L < size,  (b) L >= 0  =>  jid(at(L)) == g_j,  (c) for every index i: jid(at(i)) == g_j  =>  i <= L
 * are made available where the list is used ((c) at the index that is read).  They do not depend on the code under
 * verification: a loop that visits the items in another order, skips or stops early does not meet the postcondition. */
int __CPROVER_uninterpreted_itemlist_size(qitemlist l);
qitem __CPROVER_uninterpreted_itemlist_at(qitemlist l, int i);
int __CPROVER_uninterpreted_itemlist_last(qitemlist l, qstr key);
#define LIST_N(l) __CPROVER_uninterpreted_itemlist_size(l)
#define LIST_AT(l, i) __CPROVER_uninterpreted_itemlist_at((l), (i))
#define LIST_LAST(l) __CPROVER_uninterpreted_itemlist_last((l), g_j)
static inline int qitemlist_size(qitemlist l)
{
  int n = LIST_N(l), L = LIST_LAST(l);
  __CPROVER_assume(n >= 0 && L >= -1 && L < n && (L < 0 || ITEM_JID(LIST_AT(l, L)) == g_j));
  return n;
}
static inline qitem qitemlist_at(qitemlist l, int i)
{
  __CPROVER_assert(0 <= i && i < LIST_N(l), "[safety.list_index_in_range] QList element access within the list");
  qitem it = LIST_AT(l, i);
  __CPROVER_assume(ITEM_JID(it) != g_j || i <= LIST_LAST(l));
  return it;
}

/* ---- QMap<QString, Item> entries : view at key g_j */
typedef struct RosterMap { bool w_present; qitem w_value; } RosterMap;
static inline int RosterMap_remove(RosterMap *m, qstr k)
{
  if (k == g_j) { int r = m->w_present ? 1 : 0; m->w_present = false; return r; }
  return nondet_bool() ? 1 : 0;
}
static inline bool RosterMap_contains(const RosterMap *m, qstr k) { return k == g_j ? m->w_present : nondet_bool(); }
static inline void RosterMap_insert(RosterMap *m, qstr k, qitem v) { if (k == g_j) { m->w_present = true; m->w_value = v; } }
static inline void RosterMap_clear(RosterMap *m) { m->w_present = false; }
/* lookups: value(k) and (const) iterators obtained from find / constFind / end / constEnd.  An iterator of the witness view is
 * "end" or "at key k with the item stored there"; at another key than g_j the map's content is unknown, so the lookup answers
 * nondeterministically (found or not, any item).  Iterators are read-only here (no assignment through *it / it.value()) and
 * are never advanced (iteration over the map is not part of the witness view). */
static inline qitem RosterMap_value(const RosterMap *m, qstr k)
{
  if (k == g_j) return m->w_present ? m->w_value : 0 /* default-constructed item */;
  return nondet_bool() ? nondet_qitem() : 0;
}
typedef struct RosterIt { bool at_end; qstr key; qitem value; } RosterIt;
static inline void RosterMap_find(RosterIt *ret, const RosterMap *m, qstr k)
{
  ret->key = k;
  if (k == g_j) { ret->at_end = !m->w_present; ret->value = m->w_value; }
  else { ret->at_end = nondet_bool(); ret->value = nondet_qitem(); }
}
static inline void RosterMap_end(RosterIt *ret, const RosterMap *m) { ret->at_end = true; ret->key = 0; ret->value = 0; }
static inline bool RosterIt_eq(const RosterIt *a, const RosterIt *b) { return (a->at_end || b->at_end) ? (a->at_end && b->at_end) : a->key == b->key; }
static inline bool RosterIt_ne(const RosterIt *a, const RosterIt *b) { return !RosterIt_eq(a, b); }
static inline qitem RosterIt_value(const RosterIt *it)
{
  __CPROVER_assert(!it->at_end, "[safety.map_iterator_not_end] a QMap iterator is dereferenced only when it is not end()");
  return it->value;
}
static inline qstr RosterIt_key(const RosterIt *it)
{
  __CPROVER_assert(!it->at_end, "[safety.map_iterator_not_end] a QMap iterator is dereferenced only when it is not end()");
  return it->key;
}

/* ---- QMap<QString, QMap<QString, QXmppPresence>> presences : view at (g_b, g_r).
 * presences[g_b][g_r] exists  <=>  w.w_present   (the outer entry exists whenever the inner one does: w_outer) */
typedef struct ResMap { bool w_present; qpres w_value; } ResMap;
typedef struct PresMap { bool w_outer; ResMap w; } PresMap;
ResMap gh_other_resmap;   /* stands for the inner map of any other contact (content unknown) */
qpres gh_other_pres;      /* stands for the presence slot of any other resource */
static inline ResMap *PresMap_index(PresMap *m, qstr k)     /* operator[] : inserts an empty inner map if absent */
{
  if (k == g_b) { if (!m->w_outer) { m->w_outer = true; m->w.w_present = false; } return &m->w; }
  gh_other_resmap.w_present = nondet_bool(); gh_other_resmap.w_value = nondet_qpres();
  return &gh_other_resmap;
}
static inline qpres *ResMap_index(ResMap *m, qstr k)        /* operator[] : inserts a default presence if absent */
{
  if (k == g_r) { if (!m->w_present) { m->w_present = true; m->w_value = 0; } return &m->w_value; }
  return &gh_other_pres;
}
static inline int ResMap_remove(ResMap *m, qstr k)
{
  if (k == g_r) { int r = m->w_present ? 1 : 0; m->w_present = false; return r; }
  return nondet_bool() ? 1 : 0;
}
/* value(k): a COPY of the inner map (empty if absent); size(): the witness resource if present plus any number of other
 * resources (unknown to the witness view, so every count is possible); remove(k) on the outer map drops the whole contact */
static inline void PresMap_value(ResMap *out, const PresMap *m, qstr k)     /* (result first: lowering convention for class-valued returns) */
{
  if (k == g_b) { *out = m->w; if (!m->w_outer) out->w_present = false; return; }
  out->w_present = nondet_bool(); out->w_value = nondet_qpres();
}
static inline int ResMap_size(const ResMap *m)
{
  int others = nondet_int();
  __CPROVER_assume(others >= 0 && others < 1000000);
  return (m->w_present ? 1 : 0) + others;
}
static inline bool ResMap_isEmpty(const ResMap *m) { return ResMap_size(m) == 0; }
static inline int PresMap_remove(PresMap *m, qstr k)
{
  if (k == g_b) { int r = m->w_outer ? 1 : 0; m->w_outer = false; m->w.w_present = false; return r; }
  return nondet_bool() ? 1 : 0;
}
static inline bool PresMap_contains(const PresMap *m, qstr k) { return k == g_b ? m->w_outer : nondet_bool(); }
static inline bool ResMap_contains(const ResMap *m, qstr k) { return k == g_r ? m->w_present : nondet_bool(); }
static inline void PresMap_clear(PresMap *m) { m->w_outer = false; m->w.w_present = false; }
#define PRES_W(self) ((self)->d->presences.w.w_present)
#define PRES_WV(self) ((self)->d->presences.w.w_value)

/* ---- QXmppPresence : from() / type() are pure getters */
qstr __CPROVER_uninterpreted_pres_from(qpres p);
int __CPROVER_uninterpreted_pres_type(qpres p);
#define PRES_FROM(p) __CPROVER_uninterpreted_pres_from(p)
#define PRES_TYPE(p) __CPROVER_uninterpreted_pres_type(p)
static inline qstr qpres_from(qpres p) { return PRES_FROM(p); }
static inline int qpres_type(qpres p) { return PRES_TYPE(p); }

/* ---- QXmppIq / QXmppRosterIq.  ASSUMED contract of QXmppRosterIq::parse (QXmppStanza::parse, QXmppIq::parse and
 * QXmppRosterIq::parseElementFromChild are not lowered here): after parse(e)  id() == e.attribute("id"),
 * type() and items() are functions of e. */
typedef struct QXmppIq { int type; qstr id; qstr to; } QXmppIq;
static inline void QXmppIq_ctor(QXmppIq *q, int type) { q->type = type; q->id = nondet_qstr(); /* a freshly generated id */ q->to = 0; }
static inline void QXmppIq_setId(QXmppIq *q, qstr id) { q->id = id; }
static inline void QXmppIq_setTo(QXmppIq *q, qstr to) { q->to = to; }
typedef struct QXmppRosterIq { qdom src; bool parsed; } QXmppRosterIq;
int __CPROVER_uninterpreted_iq_type(qdom e);
qitemlist __CPROVER_uninterpreted_rosteriq_items(qdom e);
bool __CPROVER_uninterpreted_is_roster_iq(qdom e);
/* ASSUMED contract of QXmppIq::parse (QXmppIq.cpp: d->type = enumFromString<Type>(IQ_TYPES, attribute("type")).value_or(Get)):
   the type is the enumerator named by the type attribute: error = 0, get = 1, set = 2, result = 3, anything else Get */
#define IQ_TYPE_ATTR(e) ((e) == 0 ? 0 : __CPROVER_uninterpreted_dom_attr((e), S("type")))
#define IQ_TYPE(e) (IQ_TYPE_ATTR(e) == S("error") ? 0 : IQ_TYPE_ATTR(e) == S("set") ? 2 : IQ_TYPE_ATTR(e) == S("result") ? 3 : 1)
#define IQ_ITEMS(e) __CPROVER_uninterpreted_rosteriq_items(e)
#define IQ_ID(e) ((e) == 0 ? 0 : __CPROVER_uninterpreted_dom_attr((e), S("id")))
#define IQ_FROM(e) ((e) == 0 ? 0 : __CPROVER_uninterpreted_dom_attr((e), S("from")))
#define IS_ROSTER_IQ(e) ((e) != 0 && __CPROVER_uninterpreted_dom_tag(e) == S("iq") && __CPROVER_uninterpreted_is_roster_iq(e))
static inline void QXmppRosterIq_ctor(QXmppRosterIq *q) { q->src = 0; q->parsed = false; }
static inline void QXmppRosterIq_parse(QXmppRosterIq *q, qdom e) { q->src = e; q->parsed = true; }
static inline int QXmppRosterIq_type(const QXmppRosterIq *q)
{
  MODEL_LIMIT(q->parsed, "type() of a roster IQ that was not parsed");
  return IQ_TYPE(q->src);
}
static inline qstr QXmppRosterIq_from(const QXmppRosterIq *q) { MODEL_LIMIT(q->parsed, "from() of a roster IQ that was not parsed"); return IQ_FROM(q->src); }
static inline qstr QXmppRosterIq_id(const QXmppRosterIq *q) { MODEL_LIMIT(q->parsed, "id() of a roster IQ that was not parsed"); return IQ_ID(q->src); }
static inline qitemlist QXmppRosterIq_items(const QXmppRosterIq *q) { MODEL_LIMIT(q->parsed, "items() of a roster IQ that was not parsed"); return IQ_ITEMS(q->src); }
static inline bool QXmppRosterIq_isRosterIq(qdom e) { return e != 0 && __CPROVER_uninterpreted_is_roster_iq(e); }

/* the result of the roster request: std::variant<QXmppRosterIq, QXmppError> */
typedef struct RosterResult { bool is_iq; QXmppRosterIq iq; } RosterResult;
static inline QXmppRosterIq *RosterResult_get_if_iq(RosterResult *r) { return r->is_iq ? &r->iq : NULL; }

/* ---- the client: streamManagementState(), isAuthenticated(), configuration().jidBare() are pure getters */
typedef struct QXmppClient { int unused; } QXmppClient;
QXmppClient gh_client_obj;
#define gh_client (&gh_client_obj)
int gh_sm_state;
bool gh_authenticated;
qstr gh_cfg_jidBare;
typedef int qcfg;                  /* the QXmppConfiguration object: only its getters are used */
qstr gh_cfg_domain, gh_cfg_user, gh_cfg_jid;   /* configured domain, user part and full JID (opaque; nothing relates them to the bare JID here) */

/* ---- event log: packets sent, signals */
int gh_sent; int gh_sent_type; qstr gh_sent_id; qstr gh_sent_to;
static inline bool QXmppClient_sendPacket(QXmppClient *c, const QXmppIq *iq)
{
  if (gh_sent < 1000) gh_sent++;
  gh_sent_type = iq->type; gh_sent_id = iq->id; gh_sent_to = iq->to;
  return nondet_bool();
}
