"""NOT PART OF THE CHECK (units/C01/unit.py does not import this module): groundwork for one real stanza class.
Status: QXmppPresence::parse / parseExtension / toXml, QXmppStanza::parse and the getters lower completely and the generated C
type-checks, but the round-trip proof exhausts the solver's memory (see the unit's report); kept for a later attempt.

C01 extension: one real stanza class, QXmppPresence (parse / parseExtension / toXml) with QXmppStanza::parse and the
QXmppStanza getters, on the abstract XML tree.  Scalar members are verified; list-valued members and sub-objects (error,
MUC item, MUC status codes, Muji contents, extended addresses, unknown extensions, legacy caps ext) are opaque values that
must be empty (stated precondition) and are handled by contract-only stubs -- listed as not covered."""
import os, re, hashlib
from vlib import astx, ctx
from vlib.configure import REPO
from vlib.unit import Target, Spec
from vlib.cxx2c import Unsupported, strip_amp, strip_type, line_of, qt
import codec
from codec import make_lowerer, Resolver

PRES = 'src/base/QXmppPresence.cpp'
STANZA = 'src/base/QXmppStanza.cpp'

SUB_TYPES = ['QXmppMucItem', 'QList<int>', 'QVector<QXmppJingleIq::Content>', 'QList<QXmppJingleIq::Content>', 'QXmppJingleIq::Content', 'QXmppElementList',
             'QList<QXmppElement>', 'QList<QXmppExtendedAddress>', 'QXmppExtendedAddress', 'QXmppStanza::Error', 'Error', 'QXmppElement',
             'QSharedDataPointer<QXmppStanzaErrorPrivate>', 'QSharedDataPointer<QXmppE2eeMetadataPrivate>', 'Content']


def register_types():
    T = codec.SCALAR_TYPES
    for t in SUB_TYPES:
        T[t] = 'qsub'
    T.update({'QXmppPresence': 'QXmppPresence', 'QXmppStanza': 'QXmppStanza', 'QXmppPresencePrivate': 'QXmppPresencePrivate', 'QXmppStanzaPrivate': 'QXmppStanzaPrivate',
              'QSharedDataPointer<QXmppPresencePrivate>': 'QXmppPresencePrivate*', 'QSharedDataPointer<QXmppStanzaPrivate>': 'QXmppStanzaPrivate*',
              'QChar': 'quint16', 'Qt::SplitBehavior': 'int', 'QFlags<Qt::SplitBehaviorFlags>': 'int', 'Qt::SplitBehaviorFlags': 'int'})
    codec.OPAQUE_ENUMS.update({'QXmppPresence::VCardUpdateType', 'VCardUpdateType', 'QXmppPresence::AvailableStatusType', 'QXmppPresence::Type'})


# ---------------------------------------------------------------------------------------------------------------------
def base_call(cname, ret=None):
    """a QXmppStanza member called on the presence object: the real base-class function, on the base-class subobject"""
    def rule(lw, node, args):
        lw.repo_callees.add(cname)
        rest = [a for a in args[1:] if a != 'QT_DEFAULT_ARG']
        return '%s(&(%s)->stanza%s)' % (cname, args[0], ''.join(', ' + a for a in rest))
    return rule


def stub(fn, nargs=None, mut=False):
    def rule(lw, node, args):
        a = [x for x in args if x != 'QT_DEFAULT_ARG']
        if mut and not a[0].startswith('&'):
            a[0] = lw.addr_of(a[0]) if not a[0].startswith('(*') else a[0][2:-1]
        return '%s(%s)' % (fn, ', '.join(a))
    return rule


def rangefor_sub(lw, n, rinit, lv, body, ind):
    """range-for over an opaque list-valued member: the list must be empty (stated precondition of the presence proofs);
    the loop body is NOT lowered (listed as dropped / not covered)"""
    sp = '  ' * ind
    r = lw.expr(rinit)
    lw.flush(sp)
    lw.emit('%sMODEL_LIMIT(%s == 0, "opaque list-valued member is not empty (its elements are not represented)");' % (sp, r))
    lw.dropped.append({'call': 'body of the range-for over the opaque list %s (sub-object serialisation, not covered)' % r, 'line': line_of(n)})


def rule_sub_toxml(lw, node, args):
    me = lw.skip(node['inner'][0])
    base = lw.skip(me['inner'][0])
    t = lw.ntype(base).rstrip('*')
    if t == 'qsub':
        return 'qsub_toXml(%s, %s)' % (args[0], args[1])
    return codec.rule_to_xml(lw, node, args)


def rule_append(lw, node, args):
    from vlib.cxx2c import Lowerer
    return 'qsub_append(%s, %s)' % (Lowerer.addr_of(args[0]), args[1])


def rule_split(lw, node, args):
    t = lw.newtmp()
    lw.pre.append('qstrlist %s; qstr_split_stub(&%s, %s);' % (t, t, args[0]))
    return t


def presence_calls():
    return {
        'op->:QXmppPresencePrivate*': ('arg', 0), 'op->:QXmppStanzaPrivate*': ('arg', 0),
        # QXmppStanza members called on the presence (real functions, lowered)
        'QXmppPresence::parse/1': base_call('QXmppStanza_parse'),
        'QXmppPresence::lang/0': base_call('QXmppStanza_lang'), 'QXmppPresence::id/0': base_call('QXmppStanza_id'),
        'QXmppPresence::to/0': base_call('QXmppStanza_to'), 'QXmppPresence::from/0': base_call('QXmppStanza_from'),
        'QXmppPresence::parseExtension/2': ('callee', 'QXmppPresence_parseExtension'),
        # contract-only stubs (sub-objects, not covered)
        'QXmppPresence::error/0': ('expr', 'QXmppStanza_error_stub(&({0})->stanza)'),
        'QXmppPresence::extensionsToXml/1': lambda lw, node, args: 'QXmppStanza_extensionsToXml_stub(&(%s)->stanza, %s)' % (args[0], args[1]),
        'QXmppPresence::setExtensions/1': ('expr', 'QXmppStanza_setExtensions_stub(&({0})->stanza, {1})'),
        '*::toXml/1': rule_sub_toxml,
        'qsub::parse/1': ('fnmut', 'qsub_parse'),
        'qsub::isNull/0': ('expr', '{0} == 0'), 'qsub::isEmpty/0': ('expr', '{0} == 0'), 'qsub::isValid/0': ('expr', '{0} != 0'),
        'qsub::clear/0': ('fnmut', 'qsub_clear'), 'qsub::append/1': ('fnmut', 'qsub_append'),
        'op<<:qsub:qdom': rule_append, 'op<<:qsub:qint32': rule_append, 'op<<:qsub:qsub': rule_append,
        'rangefor:qsub': rangefor_sub,
        'ctor:qsub()': ('const', '0'), 'ctor:qsub(qdom)': ('expr', '{0}'),
        # strings / bytes used by presence
        'qstr::toLatin1/0': ('fn', 'qstr_toLatin1'),
        'fn:fromBase64/1': lambda lw, node, args: 'qbytes_fromBase64(%s)' % args[0],
        'fn:fromHex/1': ('fn', 'qbytes_fromHex'),
        'qbytes::toHex/0': ('fn', 'qbytes_toHex'),
        'qbytes::toBase64/0': ('fn', 'qbytes_toBase64_l1'),
        'qstr::split/2': rule_split,
        'qdt::isNull/0': ('expr', '{0} == 0'), 'qdt::isValid/0': ('expr', '{0} != 0'),
        'op=:qstrlist:qstrlist': ('expr', '{v0} = {v1}'),
        'op=:qbytes:char*': ('expr', '{v0} = 0'),          # d->photoHash = {}  (QByteArray::operator=(const char *) with a null pointer: the empty array)
        'expr:InitListExpr:char*': lambda lw, n: 'NULL',
    }


HELPERS = {
    'QXmppPresence_parse': (PRES, 'QXmppPresence::parse', 'parse', {'this': 'QXmppPresence'}, ''),
    'QXmppPresence_parseExtension': (PRES, 'QXmppPresence::parseExtension', 'parseExtension', {'this': 'QXmppPresence'}, ''),
    'QXmppPresence_toXml': (PRES, 'QXmppPresence::toXml', 'toXml', {'this': 'QXmppPresence'}, ''),
    'QXmppStanza_parse': (STANZA, 'QXmppStanza::parse', 'parse', {'this': 'QXmppStanza', 'nparams': 1}, ''),
    'QXmppStanza_lang': (STANZA, 'QXmppStanza::lang', 'lang', {'this': 'QXmppStanza', 'nparams': 0}, ''),
    'QXmppStanza_id': (STANZA, 'QXmppStanza::id', 'id', {'this': 'QXmppStanza', 'nparams': 0}, ''),
    'QXmppStanza_to': (STANZA, 'QXmppStanza::to', 'to', {'this': 'QXmppStanza', 'nparams': 0}, ''),
    'QXmppStanza_from': (STANZA, 'QXmppStanza::from', 'from', {'this': 'QXmppStanza', 'nparams': 0}, ''),
}


def private_record(src, cls, cname):
    """C record of a ...Private class from its real definition; members of unmodelled (sub-object) types become qsub"""
    decls = [d for d in astx.find_decls(os.path.join(REPO, src), cls, 'CXXRecordDecl', cls) if d.get('completeDefinition')]
    if len({d['id'] for d in decls}) != 1:
        raise astx.ExtractError('record %s: %d complete definitions found' % (cls, len({d['id'] for d in decls})))
    res = Resolver(())
    fields = []
    for c in decls[0]['inner']:
        if c.get('kind') != 'FieldDecl':
            continue
        ct = None
        for cand in (c['type'].get('desugaredQualType'), c['type'].get('qualType')):
            if cand:
                ct = res.resolve(strip_type(cand))
                if ct:
                    break
        if ct is None:
            raise Unsupported('member %s::%s of type %s is not modelled' % (cls, c['name'], c['type'].get('qualType')))
        if c.get('hasInClassInitializer') and not codec._field_default_is_zero(c):
            raise Unsupported('member %s::%s has a non-zero default initialiser' % (cls, c['name']))
        fields.append((c['name'], ct))
    return 'typedef struct %s {\n%s} %s;' % (cname, ''.join('  %s %s;\n' % (t, f) for f, t in fields), cname), fields


def lower_private_ctor(kit):
    """QXmppPresencePrivate::QXmppPresencePrivate(): its member initialisers, from the AST (the body must be empty)"""
    src = os.path.join(REPO, PRES)
    d = astx.find_function(src, 'QXmppPresencePrivate::QXmppPresencePrivate', 'QXmppPresencePrivate', nparams=0)
    lw = make_lowerer('')(d, 'QXmppPresencePrivate_ctor', kit.prof, this_type='QXmppPresencePrivate')
    lw.source_files = [src]
    out = ['void QXmppPresencePrivate_ctor(QXmppPresencePrivate *self)', '{', '  memset(self, 0, sizeof(*self));   /* default-constructed members: empty / null / in-class initialisers (checked to be zero) */']
    for c in d['inner']:
        k = c.get('kind')
        if k == 'CXXCtorInitializer':
            if 'baseInit' in c:
                continue        # QSharedData(): the reference count, not represented
            name = c['anyInit']['name']
            e = lw.skip(c['inner'][0])
            if e.get('kind') in ('CXXConstructExpr', 'CXXDefaultInitExpr') and not [x for x in e.get('inner', []) if x.get('kind') != 'CXXDefaultArgExpr']:
                continue
            out.append('  self->%s = %s;' % (name, lw.expr(c['inner'][0])))
        elif k == 'CompoundStmt':
            if c.get('inner'):
                raise Unsupported('QXmppPresencePrivate constructor body is not empty')
    out.append('}')
    for et, names in lw.need_enums.items():
        kit.b.need_enums.setdefault((src, ()), {}).setdefault(et, set()).update(names)
    text = '\n'.join(out)
    b0, e0 = astx.src_range(d)
    kit.b.functions.append({'function': 'QXmppPresencePrivate::QXmppPresencePrivate', 'cname': 'QXmppPresencePrivate_ctor', 'file': PRES, 'lines': [b0, e0],
                            'ast_hash': astx.node_hash(d), 'lowered_c_sha': hashlib.sha256(text.encode()).hexdigest()[:16], 'loops': 0, 'rules_fired': len(lw.fired), 'calls_dropped': 0})
    return text


STUBS = '''
/* ---- contract-only stubs for the sub-objects of a stanza (NOT covered): an opaque value, 0 = null / empty / absent.  The presence
   proofs require them to be empty; whatever they would write or read is not represented (MODEL_LIMIT when non-empty). */
typedef int qsub;
qsub nondet_qsub(void);
static inline void qsub_toXml(qsub s, xw *w) { (void)w; MODEL_LIMIT(s == 0, "opaque sub-object is not null (its serialisation is not represented)"); }
static inline void qsub_parse(qsub *s, qdom e) { (void)e; *s = nondet_qsub(); }
static inline void qsub_clear(qsub *s) { *s = 0; }
static inline void qsub_append(qsub *s, int x) { (void)x; *s = nondet_qsub(); __CPROVER_assume(*s != 0); }
static inline void qstr_split_stub(qstrlist *_ret, qstr s) { (void)s; _ret->n = 0; }     /* legacy caps `ext` list: never serialised, not represented */
'''
STUBS2 = '''
/* QXmppStanza::error() / extensionsToXml() / setExtensions(): sub-objects, contract-only */
static inline qsub QXmppStanza_error_stub(const QXmppStanza *s) { return s->d->error; }
static inline void QXmppStanza_extensionsToXml_stub(const QXmppStanza *s, xw *w) { (void)w; MODEL_LIMIT(s->d->extensions == 0 && s->d->extendedAddresses == 0, "stanza carries extensions / extended addresses (not represented)"); }
static inline void QXmppStanza_setExtensions_stub(QXmppStanza *s, qsub l) { s->d->extensions = l; }
/* with namespace processing the attribute written as xml:lang is read back under its local name (checked natively: units/C01/replay_presence.cpp) */
static inline void xw_writeAttribute_ns(xw *w, qstr k, qstr v) { xw_writeAttribute(w, k == S("xml:lang") ? S("lang") : k, v); }
'''


SCALARS = [   # (member of QXmppPresencePrivate, C type, condition under which toXml serialises it at all ('1' = always))
    ('type', 'int', '1'), ('availableStatusType', 'int', '1'), ('statusText', 'qstr', '1'), ('priority', 'qint32', '1'),
    ('mucSupported', 'bool', '1'), ('mucPassword', 'qstr', 'X.mucSupported'),
    ('capabilityHash', 'qstr', 'CAPS_COMPLETE'), ('capabilityNode', 'qstr', 'CAPS_COMPLETE'), ('capabilityVer', 'qbytes', 'CAPS_COMPLETE'),
    ('vCardUpdateType', 'int', '1'), ('photoHash', 'qbytes', 'X.vCardUpdateType == QXmppPresence_VCardUpdateType__VCardUpdateValidPhoto'),
    ('isPreparingMujiSession', 'bool', '1'), ('lastUserInteraction', 'qdt', '1'), ('mixUserJid', 'qstr', '1'), ('mixUserNick', 'qstr', '1'), ('oldJid', 'qstr', '1'),
]
SUBOBJECTS = ['mucItem', 'mucStatusCodes', 'mujiContents']          # QXmppPresencePrivate members that must be empty
STANZA_SUB = ['error', 'extensions', 'extendedAddresses']            # QXmppStanzaPrivate members that must be empty


def build_kit(work):
    register_types()
    codec.HELPERS.update(HELPERS)
    kit = codec.Kit('C01', work)
    kit.prof.calls.update(presence_calls())
    kit.prof.calls['xw::writeAttribute/2'] = ('fn', 'xw_writeAttribute_ns')
    kit.prof.class_types |= {'QXmppPresence', 'QXmppStanza', 'QXmppPresencePrivate', 'QXmppStanzaPrivate'}
    kit.prof.pure_fns |= {'lang', 'id', 'to', 'from'}
    kit.prof.field_rules['qsub::d'] = '{b}'       # QXmppStanza::Error::d: the shared error value inside an Error object
    kit.prefetch([(PRES, 'QXmppPresencePrivate'), (STANZA, 'QXmppStanzaPrivate'), (PRES, 'QXmppPresence::parse'), (PRES, 'QXmppPresence::toXml'), (PRES, 'QXmppPresence::parseExtension'),
                  (STANZA, 'QXmppStanza::parse'), (STANZA, 'QXmppStanza::lang'), (STANZA, 'QXmppStanza::id'), (STANZA, 'QXmppStanza::to'), (STANZA, 'QXmppStanza::from'),
                  (PRES, 'enumFromString')])
    rp, fp = private_record(PRES, 'QXmppPresencePrivate', 'QXmppPresencePrivate')
    rs, fs = private_record(STANZA, 'QXmppStanzaPrivate', 'QXmppStanzaPrivate')
    kit.pfields, kit.sfields = dict(fp), dict(fs)
    for f, t, _ in SCALARS:
        if kit.pfields.get(f) != t:
            raise Unsupported('QXmppPresencePrivate::%s has type %s, the contract expects %s' % (f, kit.pfields.get(f), t))
    kit.records = (STUBS.split('typedef int qsub;')[0] + 'typedef int qsub;\n' + kit.records + rs + '\n' + rp + '\n'
                   + 'typedef struct QXmppStanza { QXmppStanzaPrivate *d; } QXmppStanza;\ntypedef struct QXmppPresence { QXmppStanza stanza; QXmppPresencePrivate *d; } QXmppPresence;\n'
                   + STUBS.split('typedef int qsub;')[1] + kit.b.subst(STUBS2))
    return kit


def contract(kit, requires=()):
    """parse(tree(toXml(x))) reports the same member values, for every value of every scalar member"""
    X = '(*x->d)'
    Y = '(*y->d)'
    caps = '(%s.capabilityNode != 0 && %s.capabilityVer != 0 && %s.capabilityHash != 0)' % (X, X, X)
    L = ['__CPROVER_requires(__CPROVER_is_fresh(x, sizeof(*x)) && __CPROVER_is_fresh(x->d, sizeof(*x->d)) && __CPROVER_is_fresh(x->stanza.d, sizeof(*x->stanza.d)))',
         '__CPROVER_requires(__CPROVER_is_fresh(y, sizeof(*y)) && __CPROVER_is_fresh(y->d, sizeof(*y->d)) && __CPROVER_is_fresh(y->stanza.d, sizeof(*y->stanza.d)))',
         '/* type invariants of the enum members (declared enumerators) */',
         '__CPROVER_requires(%s.type >= 0 && %s.type <= %d && %s.availableStatusType >= 0 && %s.availableStatusType <= %d && %s.vCardUpdateType >= 0 && %s.vCardUpdateType <= %d)'
         % (X, X, kit.enum_max['Type'], X, X, kit.enum_max['AvailableStatusType'], X, X, kit.enum_max['VCardUpdateType']),
         '/* stated domain: sub-objects and list-valued members are empty (not covered); a "valid photo" update carries a hash */',
         '__CPROVER_requires(%s)' % ' && '.join('%s.%s == 0' % (X, f) for f in SUBOBJECTS),
         '__CPROVER_requires(%s)' % ' && '.join('x->stanza.d->%s == 0' % f for f in STANZA_SUB),
         '__CPROVER_requires(%s.vCardUpdateType != QXmppPresence_VCardUpdateType__VCardUpdateValidPhoto || %s.photoHash != 0)' % (X, X)]
    L += ['__CPROVER_requires(%s)' % r for r in requires]
    L += ['__CPROVER_assigns(*y->d, *y->stanza.d, gh_x)',
          '//: post.output_is_one_complete_well_formed_element',
          '__CPROVER_ensures(XW_ONE_COMPLETE_ELEMENT())']
    for f in ('to', 'from', 'id', 'lang'):
        L += ['//: post.member_%s_survives_the_round_trip' % f, '__CPROVER_ensures(y->stanza.d->%s == x->stanza.d->%s)' % (f, f)]
    for f, t, cond in SCALARS:
        c = cond.replace('CAPS_COMPLETE', caps).replace('X.', X + '.')
        eq = '(!%s.%s == !%s.%s)' % (Y, f, X, f) if t == 'bool' else '(%s.%s == %s.%s)' % (Y, f, X, f)
        L += ['//: post.member_%s_survives_the_round_trip' % f, '__CPROVER_ensures(%s)' % (eq if c == '1' else '(%s) ==> %s' % (c, eq))]
    return Spec(kit.b.subst('## contract\n' + '\n'.join(L) + '\n'))


def proofs(work, mk_proof, qtdir):
    kit = build_kit(work)
    for c in ('QXmppPresence_toXml', 'QXmppPresence_parse'):
        kit.need(c)
    ctor = lower_private_ctor(kit)
    src = os.path.join(REPO, PRES)
    kit.enum_max = {}
    for e in ('Type', 'AvailableStatusType', 'VCardUpdateType'):
        vals = ctx.enum_values(src, 'QXmppPresence::' + e)
        vs = sorted(vals.values())
        if vs != list(range(0, len(vs))):
            raise Unsupported('enum QXmppPresence::%s is not 0..n' % e)
        kit.enum_max[e] = vs[-1]
        kit.b.need_enums.setdefault((src, ()), {}).setdefault('QXmppPresence::' + e, set())
    X = '(*x->d)'
    ext_default = ('!%s.mucSupported && %s.capabilityNode == 0 && %s.capabilityVer == 0 && %s.capabilityHash == 0 && %s.vCardUpdateType == QXmppPresence_VCardUpdateType__VCardUpdateNone'
                   ' && %s.photoHash == 0 && !%s.isPreparingMujiSession && %s.oldJid == 0 && %s.lastUserInteraction == 0 && %s.mixUserJid == 0 && %s.mixUserNick == 0'
                   % ((X,) * 11))
    core_default = ('%s.type == QXmppPresence_Type__Available && %s.availableStatusType == QXmppPresence_AvailableStatusType__Online && %s.statusText == 0 && %s.priority == 0' % ((X,) * 4))
    slices = [('QXmppPresence_roundtrip_core', [ext_default], 5, 'SLICE core: every value of to / from / id / lang / type / show / status / priority (whole int range); all extension members at their defaults'),
              ('QXmppPresence_roundtrip_extensions', [core_default], 12, 'SLICE extensions: every value of the MUC / caps / vCard-update / Muji-preparing / moved / idle / MIX scalars and of to / from / id / lang; type, show, status, priority at their defaults')]
    out = []
    for pid, reqs, nloop, what in slices:
        if pid.endswith('extensions') and os.environ.get('VERIF_C01_PRESENCE_EXT', '1') == '0':
            continue
        sp = contract(kit, reqs)
        body = ('void QXmppPresence_roundtrip(const QXmppPresence *x, QXmppPresence *y)\n%s\n{\n  xw w;\n  xw_reset();\n  QXmppPresence_toXml(x, &w);\n  xw_finish();\n'
                '  /* y = QXmppPresence(): default-constructed private records (real member initialisers) */\n  QXmppPresencePrivate_ctor(y->d);\n  memset(y->stanza.d, 0, sizeof(*y->stanza.d));\n'
                '  QXmppPresence_parse(y, gh_x.root);\n}\n' % sp.contract)
        harness = 'void h_QXmppPresence_roundtrip(void) { QXmppPresence *x; QXmppPresence *y; QXmppPresence_roundtrip(x, y); }'
        p = mk_proof(kit, pid, ['QXmppPresence_toXml', 'QXmppPresence_parse'], 'QXmppPresence_roundtrip', sp, ctor + '\n' + body, harness,
                     defines=['XWIDE', 'XN=18'], timeout=1500,
                     unwindset=['QXmppPresence_parse.0:%d' % nloop, 'QXmppPresence_parseExtension.0:4', 'QXmppPresence_parseExtension.1:4', 'QXmppStanza_parse.0:4'],
                     note='real QXmppPresence::toXml, parse, parseExtension, QXmppStanza::parse and getters inlined; ' + what + '; sub-objects / list-valued members empty '
                          '(stated precondition, contract-only stubs); the child-element loop of parse is fully unwound (unwinding assertions on)')
        out.append(p)
    return kit, out
