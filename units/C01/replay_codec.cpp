// Native replay of the C01 findings against the REAL library built from the working tree (private headers).
//   replay_codec <scenario>      exit 1 + "REPRODUCED ..." when the defect shows, exit 0 + "NOT-REPRODUCED ..." otherwise
// Each scenario builds the object, serialises it with the real toXml through a real QXmlStreamWriter, parses the bytes with
// QDomDocument (namespace processing on, as XmppSocket does) and hands the element to the real fromDom: exactly the
// round trip of the property statement.
#include "QXmppSasl_p.h"
#include "QXmppStreamManagement_p.h"
#include "QXmppUtils_p.h"

#include <QDomDocument>
#include <QXmlStreamWriter>
#include <cstdio>
#include <cstring>

using namespace QXmpp::Private;

template<typename T>
static QByteArray ser(const T &x)
{
    QByteArray out;
    QXmlStreamWriter w(&out);
    x.toXml(&w);
    return out;
}

template<typename T>
static std::optional<T> roundtrip(const T &x, QByteArray *xml, bool *wellFormed)
{
    *xml = ser(x);
    QDomDocument doc;
    *wellFormed = bool(doc.setContent(*xml, true));
    if (!*wellFormed) {
        return {};
    }
    return T::fromDom(doc.documentElement());
}

static int verdict(bool defect, const char *what)
{
    printf("%s %s\n", defect ? "REPRODUCED" : "NOT-REPRODUCED", what);
    return defect ? 1 : 0;
}

int main(int argc, char **argv)
{
    const char *sc = argc > 1 ? argv[1] : "";
    QByteArray xml;
    bool wf = false;
    if (!strcmp(sc, "uint8")) {
        // every value of the type must be accepted: parseInt<uint8_t>(serializeInt<uint8_t>(v)) == v
        int rejected = 0, wrong = 0, first = -1;
        for (int v = 0; v <= 255; v++) {
            auto r = parseInt<uint8_t>(serializeInt<uint8_t>(uint8_t(v)));
            if (!r) {
                rejected++;
                if (first < 0) {
                    first = v;
                }
            } else if (*r != v) {
                wrong++;
            }
        }
        printf("parseInt<uint8_t>: %d of 256 values rejected (first %d), %d wrong\n", rejected, first, wrong);
        // the other seven instantiations at their bounds
        bool others = parseInt<int8_t>(u"-128") && parseInt<int8_t>(u"127") && !parseInt<int8_t>(u"128") && !parseInt<int8_t>(u"-129") &&
            parseInt<uint16_t>(u"65535") && !parseInt<uint16_t>(u"65536") && parseInt<int16_t>(u"-32768") && !parseInt<int16_t>(u"32768") &&
            parseInt<uint32_t>(u"4294967295") && !parseInt<uint32_t>(u"4294967296") && parseInt<int32_t>(u"-2147483648") && !parseInt<int32_t>(u"2147483648") &&
            parseInt<uint64_t>(u"18446744073709551615") && !parseInt<uint64_t>(u"18446744073709551616") && parseInt<int64_t>(u"-9223372036854775808") &&
            !parseInt<int64_t>(u"9223372036854775808") && !parseInt<uint8_t>(u"256") && !parseInt<uint8_t>(u"-1");
        printf("other instantiations at their bounds: %s\n", others ? "as specified" : "DEVIATION");
        return verdict(rejected > 0 || wrong > 0, "parseInt<uint8_t> rejects values of its own type (128..255)");
    }
    if (!strcmp(sc, "smenabled")) {
        SmEnabled x { true, QStringLiteral("some-id"), 300, QStringLiteral("example.org:5222") };
        auto y = roundtrip(x, &xml, &wf);
        printf("xml: %s\nwell-formed: %d, accepted by SmEnabled::fromDom: %d\n", xml.constData(), wf, y.has_value());
        return verdict(!y, "SmEnabled::fromDom rejects the output of SmEnabled::toXml");
    }
    if (!strcmp(sc, "bind2bound")) {
        Bind2Bound x { {}, SmEnabled { true, QStringLiteral("some-id"), 300, {} } };
        auto y = roundtrip(x, &xml, &wf);
        printf("xml: %s\nwell-formed: %d, accepted: %d, smEnabled present after the round trip: %d\n", xml.constData(), wf, y.has_value(), y && y->smEnabled.has_value());
        return verdict(!y || !y->smEnabled, "Bind2Bound loses its smEnabled member in the round trip");
    }
    if (!strcmp(sc, "sasl2success")) {
        Sasl2::Success x;
        x.authorizationIdentifier = QStringLiteral("user@example.org");
        x.bound = Bind2Bound { {}, SmEnabled { false, QStringLiteral("i"), 0, {} } };
        auto y = roundtrip(x, &xml, &wf);
        bool kept = y && y->bound && y->bound->smEnabled;
        printf("xml: %s\nwell-formed: %d, accepted: %d, bound.smEnabled present after the round trip: %d\n", xml.constData(), wf, y.has_value(), kept);
        return verdict(!kept, "Sasl2::Success loses bound.smEnabled in the round trip");
    }
    if (!strcmp(sc, "smfailed-nocondition")) {
        SmFailed x { QXmppStanza::Error::NoCondition };
        auto y = roundtrip(x, &xml, &wf);
        printf("xml: %s\nwell-formed: %d\n", xml.constData(), wf);
        return verdict(!wf, "SmFailed{NoCondition}::toXml writes an element without a name (output is not XML)");
    }
    if (!strcmp(sc, "smfailed-all-conditions")) {
        int bad = 0;
        for (int c = 0; c <= int(QXmppStanza::Error::PolicyViolation); c++) {
            SmFailed x { QXmppStanza::Error::Condition(c) };
            auto y = roundtrip(x, &xml, &wf);
            if (!wf || !y || !y->error || int(*y->error) != c) {
                printf("condition %d: %s\n", c, xml.constData());
                bad++;
            }
        }
        return verdict(bad > 0, "SmFailed with a proper condition does not survive the round trip");
    }
    if (!strcmp(sc, "fastfeature-tls0rtt")) {
        FastFeature x { { QStringLiteral("HT-SHA-256-ENDP") }, true };
        auto y = roundtrip(x, &xml, &wf);
        printf("xml: %s\nwell-formed: %d, accepted: %d, tls0rtt after the round trip: %d\n", xml.constData(), wf, y.has_value(), y && y->tls0rtt);
        return verdict(!y || !y->tls0rtt, "FastFeature::toXml never writes tls-0rtt: tls0rtt=true is lost in the round trip");
    }
    if (!strcmp(sc, "useragent-standalone")) {
        Sasl2::UserAgent x { QUuid::createUuid(), QStringLiteral("sw"), QStringLiteral("dev") };
        auto y = roundtrip(x, &xml, &wf);
        printf("xml: %s\nwell-formed: %d, accepted: %d\n", xml.constData(), wf, y.has_value());
        Sasl2::Authenticate a;
        a.mechanism = QStringLiteral("PLAIN");
        a.userAgent = x;
        QByteArray xml2;
        auto b = roundtrip(a, &xml2, &wf);
        bool inContext = b && b->userAgent && b->userAgent->id == x.id && b->userAgent->software == x.software && b->userAgent->device == x.device;
        printf("inside <authenticate/>: %s\nuser agent survives there: %d\n", xml2.constData(), inContext);
        return verdict(!inContext, "Sasl2::UserAgent does not survive inside its parent element");
    }
    fprintf(stderr, "unknown scenario '%s'\n", sc);
    return 2;
}
