// Native checks for the IQ extension of C01 / C02 (real library built from the working tree).
//   replay_iq tzo               assumed contract of timezoneOffsetToString/FromString on its stated domain (exit 0 = holds)
//   replay_iq entitytime-fixpoint   parse -> toXml -> parse of <tzo>+30:00</tzo> and of a <time/> without <utc/>
//   replay_iq iq-lang           QXmppIq with a language: does xml:lang survive serialise -> parse?
//   replay_iq payloads          round trip of every covered payload class with sample values (sanity of the model's predictions)
#include "QXmppBindIq.h"
#include "QXmppEntityTimeIq.h"
#include "QXmppIbbIq.h"
#include "QXmppIq.h"
#include "QXmppJingleIq.h"
#include "QXmppNonSASLAuth.h"
#include "QXmppRosterIq.h"
#include "QXmppStanza.h"
#include "QXmppUtils.h"
#include "QXmppVersionIq.h"

#include <QDateTime>
#include <QDomDocument>
#include <QXmlStreamWriter>
#include <cstdio>
#include <cstring>
#include <cstdlib>
#include <new>

// every heap block starts filled with 0xAB, so a member without initialiser shows as garbage deterministically (scenario error-maxfilesize)
static bool g_poison = false;
void *operator new(std::size_t n)
{
    void *p = std::malloc(n ? n : 1);
    if (!p) {
        throw std::bad_alloc();
    }
    if (g_poison) {
        memset(p, 0xAB, n);
    }
    return p;
}
void operator delete(void *p) noexcept { std::free(p); }
void operator delete(void *p, std::size_t) noexcept { std::free(p); }

template<typename T>
static QByteArray ser(const T &x)
{
    QByteArray out;
    QXmlStreamWriter w(&out);
    x.toXml(&w);
    return out;
}
template<typename T>
static bool reparse(const QByteArray &xml, T &y)
{
    QDomDocument doc;
    if (!doc.setContent(xml, true)) {
        return false;
    }
    y.parse(doc.documentElement());
    return true;
}

int main(int argc, char **argv)
{
    const char *sc = argc > 1 ? argv[1] : "";
    if (!strcmp(sc, "tzo")) {
        int bad = 0;
        for (int s = -86400 + 60; s < 86400; s += 60) {
            if (QXmppUtils::timezoneOffsetFromString(QXmppUtils::timezoneOffsetToString(s)) != s) {
                bad++;
            }
        }
        bool empty = QXmppUtils::timezoneOffsetFromString(QString()) == 0;
        printf("%s timezone offset: %d whole-minute offsets below 24 h do not survive; empty string reads as 0: %d\n", bad || !empty ? "REPRODUCED" : "NOT-REPRODUCED", bad, empty);
        return bad || !empty ? 1 : 0;
    }
    if (!strcmp(sc, "entitytime-fixpoint")) {
        int bad = 0;
        for (const char *in : { "<iq xmlns='jabber:client' type='result'><time xmlns='urn:xmpp:time'><tzo>+30:00</tzo><utc>2024-01-02T03:04:05Z</utc></time></iq>",
                                "<iq xmlns='jabber:client' type='result'><time xmlns='urn:xmpp:time'><tzo>+01:00</tzo></time></iq>" }) {
            QXmppEntityTimeIq a, b;
            reparse(QByteArray(in), a);
            QByteArray out = ser(a);
            reparse(out, b);
            printf("in:  %s\nout: %s\ntzo after first parse %d, after second parse %d\n", in, out.constData(), a.tzo(), b.tzo());
            bad += a.tzo() != b.tzo();
        }
        printf("%s QXmppEntityTimeIq: %d of 2 inputs are not a parse/serialise fixpoint\n", bad ? "REPRODUCED" : "NOT-REPRODUCED", bad);
        return bad ? 1 : 0;
    }
    if (!strcmp(sc, "iq-lang")) {
        QXmppIq x(QXmppIq::Set), y;
        x.setId(QStringLiteral("i1"));
        x.setTo(QStringLiteral("a@b"));
        x.setFrom(QStringLiteral("c@d"));
        x.setLang(QStringLiteral("de"));
        QByteArray xml = ser(x);
        reparse(xml, y);
        printf("xml: %s\nlang before '%s', after '%s'; id/to/from/type survive: %d\n", xml.constData(), qPrintable(x.lang()), qPrintable(y.lang()),
               x.id() == y.id() && x.to() == y.to() && x.from() == y.from() && x.type() == y.type());
        bool lost = x.lang() != y.lang();
        printf("%s QXmppIq::toXml does not write xml:lang: the language is lost in the round trip\n", lost ? "REPRODUCED" : "NOT-REPRODUCED");
        return lost ? 1 : 0;
    }
    if (!strcmp(sc, "payloads")) {
        int bad = 0;
        {
            QXmppIbbDataIq x, y;
            x.setSid(QStringLiteral("s"));
            x.setSequence(65535);
            x.setPayload(QByteArray("\x00\x01\xff", 3));
            reparse(ser(x), y);
            bad += !(y.sid() == x.sid() && y.sequence() == x.sequence() && y.payload() == x.payload());
        }
        {
            QXmppIbbOpenIq x, y;
            x.setSid(QStringLiteral("s"));
            x.setBlockSize(-5);
            reparse(ser(x), y);
            bad += !(y.sid() == x.sid() && y.blockSize() == x.blockSize());
        }
        {
            QXmppNonSASLAuthIq x, y;
            x.setUsername(QStringLiteral("u"));
            x.setPassword(QStringLiteral("p"));
            x.setDigest(QStringLiteral("sid"), QStringLiteral("pw"));
            x.setResource(QStringLiteral("r"));
            reparse(ser(x), y);
            bad += !(y.username() == x.username() && y.password() == x.password() && y.digest() == x.digest() && y.resource() == x.resource());
        }
        {
            QXmppEntityTimeIq x, y;
            x.setTzo(-5400);
            x.setUtc(QDateTime(QDate(2024, 1, 2), QTime(3, 4, 5, 6), Qt::UTC));
            reparse(ser(x), y);
            bad += !(y.tzo() == x.tzo() && y.utc() == x.utc());
        }
        {
            QXmppBindIq x, y;
            x.setJid(QStringLiteral("a@b/c"));
            x.setResource(QStringLiteral("c"));
            reparse(ser(x), y);
            bad += !(y.jid() == x.jid() && y.resource() == x.resource());
        }
        {
            QXmppVersionIq x, y;
            x.setName(QStringLiteral("n"));
            x.setOs(QStringLiteral("o"));
            x.setVersion(QStringLiteral("v"));
            reparse(ser(x), y);
            bad += !(y.name() == x.name() && y.os() == x.os() && y.version() == x.version());
        }
        printf("%s %d of 6 sample payload round trips lose a member\n", bad ? "REPRODUCED" : "NOT-REPRODUCED", bad);
        return bad ? 1 : 0;
    }
    if (!strcmp(sc, "roster-item")) {
        QXmppRosterIq::Item x, y;
        x.setBareJid(QStringLiteral("a@b"));
        x.setName(QStringLiteral("n"));
        x.setSubscriptionType(QXmppRosterIq::Item::Both);
        x.setSubscriptionStatus(QStringLiteral("subscribe"));
        x.setIsApproved(true);
        x.setGroups({ QStringLiteral("g1"), QStringLiteral("g2") });
        x.setIsMixChannel(true);
        x.setMixParticipantId(QStringLiteral("pid"));
        QByteArray xml = ser(x);
        reparse(xml, y);
        bool same = y.bareJid() == x.bareJid() && y.name() == x.name() && y.subscriptionType() == x.subscriptionType() && y.subscriptionStatus() == x.subscriptionStatus() &&
            y.isApproved() == x.isApproved() && y.groups() == x.groups() && y.isMixChannel() == x.isMixChannel() && y.mixParticipantId() == x.mixParticipantId();
        printf("xml: %s\n%s roster item (incl. the MIX channel child whose namespace is written as an xmlns attribute) %s the round trip\n", xml.constData(), same ? "NOT-REPRODUCED" : "REPRODUCED", same ? "survives" : "does not survive");
        return same ? 0 : 1;
    }
    if (!strcmp(sc, "stanzaerror-fixpoint")) {
        int bad = 0;
        for (const char *in : { "<error type='cancel' code='-5'><bad-request xmlns='urn:ietf:params:xml:ns:xmpp-stanzas'/></error>",
                                "<error type='cancel'><gone xmlns='urn:ietf:params:xml:ns:xmpp-stanzas'>xmpp:new@example.org</gone><bad-request xmlns='urn:ietf:params:xml:ns:xmpp-stanzas'/></error>",
                                "<error type='wait'><resource-constraint xmlns='urn:ietf:params:xml:ns:xmpp-stanzas'/><file-too-large xmlns='urn:xmpp:http:upload:0'><max-file-size>5</max-file-size></file-too-large><retry xmlns='urn:xmpp:http:upload:0' stamp='2024-01-02T03:04:05Z'/></error>" }) {
            QXmppStanza::Error a, b;
            reparse(QByteArray(in), a);
            QByteArray out = ser(a);
            reparse(out, b);
            bool same = a.code() == b.code() && a.redirectionUri() == b.redirectionUri() && a.retryDate() == b.retryDate();
            printf("in:  %s\nout: %s\ncode %d -> %d, redirection '%s' -> '%s', retry date valid %d -> %d\n", in, out.constData(), a.code(), b.code(), qPrintable(a.redirectionUri()),
                   qPrintable(b.redirectionUri()), a.retryDate().isValid(), b.retryDate().isValid());
            bad += !same;
        }
        printf("%s QXmppStanza::Error: %d of 3 inputs are not a parse/serialise fixpoint\n", bad ? "REPRODUCED" : "NOT-REPRODUCED", bad);
        return bad ? 1 : 0;
    }
    if (!strcmp(sc, "error-maxfilesize")) {
        g_poison = true;
        QXmppStanza::Error e;
        qint64 v = e.maxFileSize();
        g_poison = false;
        printf("default-constructed QXmppStanza::Error on a poisoned heap: fileTooLarge() = %d, maxFileSize() = %lld (0x%llx)\n", e.fileTooLarge(), (long long)v, (unsigned long long)v);
        printf("%s maxFileSize() of a default-constructed error is indeterminate (QXmppStanzaErrorPrivate::maxFileSize has no initialiser)\n", v != 0 ? "REPRODUCED" : "NOT-REPRODUCED");
        return v != 0 ? 1 : 0;
    }
    if (!strcmp(sc, "payloadtype-channels-zero")) {
        const char *in = "<payload-type xmlns='urn:xmpp:jingle:apps:rtp:1' id='96' name='opus' channels='0'/>";
        QXmppJinglePayloadType a, b;
        reparse(QByteArray(in), a);
        QByteArray out = ser(a);
        reparse(out, b);
        printf("in:  %s\nout: %s\nchannels after first parse %d, after second parse %d\n", in, out.constData(), a.channels(), b.channels());
        bool bad = a.channels() != b.channels();
        printf("%s QXmppJinglePayloadType with channels='0' is not a parse/serialise fixpoint\n", bad ? "REPRODUCED" : "NOT-REPRODUCED");
        return bad ? 1 : 0;
    }
    fprintf(stderr, "unknown scenario\n");
    return 2;
}
