"""C01 / C02 coverage extension 2: QXmppStanza::Error (parse / toXml, with the state its constructor REALLY leaves: a member
without initialiser is indeterminate) and QXmppJingleMessageInitiationElement (recogniser, parse, toXml, type <-> tag table).

Definedness (C02 anchor "members default-initialised only by parse"): for every scalar data member that neither has an in-class
initialiser nor is zero-initialised by the `new T()` that creates the private object, a ghost flag gh_def_<member> is false after
construction, set by every assignment to the member in the lowered parser, and ASSERTED at every read of the member in the lowered
serialiser (obligation safety.member_<m>_defined_when_read).  The instrumentation is mechanical (instrument_def below)."""
import os, re, hashlib
from vlib import astx, ctx
from vlib.configure import REPO
from vlib.unit import Spec
from vlib.cxx2c import Unsupported, strip_type
import codec
from codec import Resolver
import presence, iq

STANZA = 'src/base/QXmppStanza.cpp'
JINGLE = 'src/base/QXmppJingleData.cpp'


# ---------------------------------------------------------------------------------------------------------------------
def private_state(kit, src, cls, ctor_filter, ctor_name):
    """(record text, fields, constructor-state C function body lines, [members left indeterminate])
    fields with an in-class initialiser get it (lowered); class-typed members are default-constructed (empty = 0); other scalars are
    zero iff the object is created by a zeroing `new T()` (clang: CXXConstructExpr.zeroing), else INDETERMINATE"""
    srcp = os.path.join(REPO, src)
    decls = [d for d in astx.find_decls(srcp, cls, 'CXXRecordDecl', cls) if d.get('completeDefinition')]
    if len({d['id'] for d in decls}) != 1:
        raise astx.ExtractError('record %s: %d complete definitions found' % (cls, len({d['id'] for d in decls})))
    # how the owning class creates it
    docs, _ = astx.dump(srcp, ctor_filter)
    news = []

    def walk(n):
        if isinstance(n, dict):
            if n.get('kind') == 'CXXNewExpr' and cls in n.get('type', {}).get('qualType', ''):
                news.append(n)
            for c in n.get('inner', []):
                walk(c)
    for d in docs:
        walk(d)
    if not news:
        raise Unsupported('no `new %s` found in %s' % (cls, ctor_filter))
    zeroing = all(any(c.get('kind') == 'CXXConstructExpr' and c.get('zeroing') for c in n.get('inner', [])) for n in news)
    res = Resolver(())
    lw = codec.make_lowerer('')({'inner': []}, cls + '_init', kit.prof, this_type=cls)
    lw.source_files = [srcp]
    fields, lines, indet = [], [], []
    for c in decls[0]['inner']:
        if c.get('kind') != 'FieldDecl':
            continue
        ct = None
        for cand in (c['type'].get('desugaredQualType'), c['type'].get('qualType')):
            if cand:
                ct = res.resolve(strip_type(cand))
                if ct:
                    break
        if ct is None:
            raise Unsupported('member %s::%s of type %s is not modelled' % (cls, c['name'], c['type'].get('qualType')))
        fields.append((c['name'], ct))
        is_class = strip_type(c['type'].get('desugaredQualType') or c['type'].get('qualType')).split('<')[0] in ('QString', 'QDateTime', 'QByteArray', 'std::optional', 'QUuid')
        inits = [x for x in c.get('inner', []) if isinstance(x, dict) and x.get('kind') and not x['kind'].endswith('Comment')]
        if c.get('hasInClassInitializer') and inits:
            e = lw.skip(inits[-1])
            if e.get('kind') == 'InitListExpr' and len(e.get('inner', [])) == 1:
                e = e['inner'][0]      # T m { value };
            lines.append('  self->%s = %s;' % (c['name'], lw.expr(e)))
        elif is_class or ct in ('qsub',):
            lines.append('  self->%s = 0;   /* default-constructed */' % c['name'])
        elif zeroing:
            lines.append('  self->%s = 0;   /* zero-initialised by `new %s()` */' % (c['name'], cls))
        else:
            lines.append('  self->%s = nondet_%s();   /* NO initialiser: indeterminate */\n  gh_def_%s = false;' % (c['name'], re.sub(r'\W', '_', ct), c['name']))
            indet.append((c['name'], ct))
    for et, names in lw.need_enums.items():
        kit.b.need_enums.setdefault((srcp, ()), {}).setdefault(et, set()).update(names)
    rec = 'typedef struct %s {\n%s} %s;' % (cls, ''.join('  %s %s;\n' % (t, f) for f, t in fields), cls)
    return rec, fields, lines, indet


def instrument_def(text, members, mode):
    """mode 'parse': after every assignment to ->m, set its ghost flag; mode 'read': before every line that READS ->m, assert the flag"""
    out = []
    for l in text.split('\n'):
        ind = l[:len(l) - len(l.lstrip())]
        for m, _ in members:
            if mode == 'parse' and re.search(r'->%s = ' % m, l):
                out.append(l)
                out.append(ind + 'gh_def_%s = true;   /* ghost: member written */' % m)
                break
            if mode == 'read' and re.search(r'->%s\b(?! = )' % m, l) and not l.lstrip().startswith('/*'):
                out.append(ind + '__CPROVER_assert(gh_def_%s, "[safety.member_%s_defined_when_read] the serialiser reads %s, which no initialiser and no parser assignment has defined");' % (m, m, m))
                out.append(l)
                break
        else:
            out.append(l)
    return '\n'.join(out)


# ---------------------------------------------------------------------------------------------------------------------
# QXmppStanza::Error
ERR_HELPERS = {
    'StanzaError_parse': (STANZA, 'QXmppStanza::Error::parse', 'parse', {'this': 'StanzaError'}, ''),
    'StanzaError_toXml': (STANZA, 'QXmppStanza::Error::toXml', 'toXml', {'this': 'StanzaError'}, ''),
    'typeFromString': (STANZA, 'typeFromString', 'typeFromString', {}, codec.NS),
    'typeToString': (STANZA, 'typeToString', 'typeToString', {}, codec.NS),
}
ERR_FINDING = 'stanzaerror-not-normalised'


def error_kit(uid, work):
    T = codec.SCALAR_TYPES
    T.update({'QXmppStanza::Error': 'StanzaError', 'Error': 'StanzaError', 'QXmppStanzaErrorPrivate': 'QXmppStanzaErrorPrivate',
              'QSharedDataPointer<QXmppStanzaErrorPrivate>': 'QXmppStanzaErrorPrivate*'})
    codec.OPAQUE_ENUMS.update({'QXmppStanza::Error::Type', 'Error::Type'})
    codec.HELPERS.update(ERR_HELPERS)
    kit = codec.Kit(uid, work)
    kit.prof.calls.update(iq.iq_calls())
    kit.prof.calls.update({
        'op->:QXmppStanzaErrorPrivate*': ('arg', 0),
        'fn:typeFromString/1': ('calleeret', 'typeFromString', 'OptEnum'), 'fn:typeToString/1': ('callee', 'typeToString'),
        'qstr::clear/0': ('expr', '{0} = 0'),
        'xw::writeAttribute/2': ('fn', 'xw_writeAttribute'),
    })
    kit.prof.class_types |= {'StanzaError', 'QXmppStanzaErrorPrivate'}
    kit.prefetch([(STANZA, 'QXmppStanzaErrorPrivate'), (STANZA, 'QXmppStanza::Error::Error'), (STANZA, 'QXmppStanza::Error::parse'), (STANZA, 'QXmppStanza::Error::toXml'),
                  (STANZA, 'typeFromString'), (STANZA, 'typeToString'), (STANZA, 'conditionFromString'), (STANZA, 'conditionToString')])
    rec, fields, init, indet = private_state(kit, STANZA, 'QXmppStanzaErrorPrivate', 'QXmppStanza::Error::Error', 'Error')
    kit.fields, kit.indet = fields, indet
    ghost = ''.join('bool gh_def_%s;   /* ghost: the member holds a defined value */\n' % m for m, _ in indet)
    kit.init_fn = ('/* the state QXmppStanza::Error::Error() leaves: in-class initialisers, default-constructed class members, everything else as `new` leaves it */\n'
                   'void QXmppStanzaErrorPrivate_init(QXmppStanzaErrorPrivate *self)\n{\n' + '\n'.join(init) + '\n}\n')
    kit.records = (kit.records + 'qint64 nondet_qint64(void);\n' + ghost + rec + '\ntypedef struct StanzaError { QXmppStanzaErrorPrivate *d; } StanzaError;\n')
    for r in ('StanzaError_parse', 'StanzaError_toXml'):
        kit.need(r)
    kit.texts['StanzaError_parse'] = instrument_def(kit.texts['StanzaError_parse'], indet, 'parse')
    kit.texts['StanzaError_toXml'] = instrument_def(kit.texts['StanzaError_toXml'], indet, 'read')
    src = os.path.join(REPO, STANZA)
    kit.tvals = sorted(ctx.enum_values(src, 'QXmppStanza::Error::Type').values())
    kit.cvals, kit.cnames = codec.enum_range('QXmppStanza::Error::Condition')
    kit.tnames = ctx.enum_values(src, 'QXmppStanza::Error::Type')
    for e in ('QXmppStanza::Error::Type', 'QXmppStanza::Error::Condition'):
        kit.b.need_enums.setdefault((src, ()), {}).setdefault(e, set())
    return kit


def err_conditions(kit, v):
    """input classes in which the serialiser drops information the parser keeps (C expressions over the object v)"""
    gone = '(%s->d->condition == %d || %s->d->condition == %d)' % (v, kit.cnames['Gone'], v, kit.cnames['Redirect'])
    silent = '(%s->d->condition == %d && %s->d->type == %d)' % (v, kit.cnames['NoCondition'], v, kit.tnames['NoType'])
    lossy = '(%s->d->code < 0 || (%s->d->redirectionUri != 0 && !%s) || (%s->d->fileTooLarge && %s->d->retryDate != 0))' % (v, v, gone, v, v)
    return gone, silent, lossy


def err_members(kit, a, b, gone_b):
    out = []
    for f, t in kit.fields:
        e = iq.eq(t, '%s->d->%s' % (a, f), '%s->d->%s' % (b, f))
        if f == 'maxFileSize':
            e = '(%s->d->fileTooLarge) ==> %s' % (b, e)
        out.append((f, e))
    return out


def error_proofs(uid, work, mk_proof, which):
    kit = error_kit(uid, work)
    roots = ['StanzaError_toXml', 'StanzaError_parse']
    fresh = '__CPROVER_is_fresh({v}, sizeof(*{v})) && __CPROVER_is_fresh({v}->d, sizeof(*{v}->d))'
    tinv = '((' + ' || '.join('{v}->d->type == %d' % x for x in kit.tvals) + ') && (' + ' || '.join('{v}->d->condition == %d' % x for x in kit.cvals) + '))'
    ghosts = ''.join(', gh_def_%s' % m for m, _ in kit.indet)
    out = []
    if which == 'roundtrip':
        gone, silent, lossy = err_conditions(kit, 'x')
        L = ['__CPROVER_requires(%s)' % fresh.format(v='x'), '__CPROVER_requires(%s)' % fresh.format(v='y'),
             '__CPROVER_requires(%s)   /* type invariants */' % tinv.format(v='x'),
             '/* stated domain: an error that says something (else nothing is written at all), a non-negative legacy code, a redirection URI only with <gone/> / <redirect/>,',
             '   a retry date only without file-too-large; maxFileSize is meaningful only with fileTooLarge */',
             '__CPROVER_requires(!%s && !%s)' % (silent, lossy),
             '__CPROVER_assigns(*y->d, gh_x%s)' % ghosts,
             '//: post.output_is_one_complete_well_formed_element', '__CPROVER_ensures(XW_ONE_COMPLETE_ELEMENT())']
        for f, e in err_members(kit, 'y', 'x', None):
            L += ['//: post.member_%s_survives_the_round_trip' % f, '__CPROVER_ensures(%s)' % e]
        sp = Spec(kit.b.subst('## contract\n' + '\n'.join(L) + '\n'))
        sets = ''.join('  gh_def_%s = true;   /* x is a fully defined value */\n' % m for m, _ in kit.indet)
        body = kit.init_fn + ('void StanzaError_roundtrip(const StanzaError *x, StanzaError *y)\n%s\n{\n  xw w;\n  xw_reset();\n%s  StanzaError_toXml(x, &w);\n  xw_finish();\n'
                              '  QXmppStanzaErrorPrivate_init(y->d);   /* y = QXmppStanza::Error() */\n  StanzaError_parse(y, gh_x.root);\n}\n' % (sp.contract, sets))
        out.append(mk_proof(kit, 'QXmppStanzaError_roundtrip', roots, 'StanzaError_roundtrip', sp, body, 'void h_StanzaError_roundtrip(void) { StanzaError *x; StanzaError *y; StanzaError_roundtrip(x, y); }',
                            unwindset=['StanzaError_parse.0:6'],
                            note='real QXmppStanza::Error::toXml, parse, typeToString/FromString, conditionToString/FromString; the parsed object starts in the state its constructor really leaves '
                                 '(maxFileSize indeterminate); every value of every member within the stated domain; child loop of parse fully unwound over the ghost element'))
    else:
        macros = kit.b.subst('#define CH1(e) __CPROVER_uninterpreted_dom_first_child((e), 0, 0)\n#define CH2(e) __CPROVER_uninterpreted_dom_next_sibling(CH1(e), 0, 0)\n'
                             '#define CH3(e) __CPROVER_uninterpreted_dom_next_sibling(CH2(e), 0, 0)\n#define CH4(e) __CPROVER_uninterpreted_dom_next_sibling(CH3(e), 0, 0)\n')
        gone, silent, lossy = err_conditions(kit, 'a')
        fid = '%s-%s' % (uid, ERR_FINDING)
        for pid, guard, f in (('QXmppStanzaError_fixpoint', '!%s && !%s' % (silent, lossy), None), ('QXmppStanzaError_fixpoint@' + fid, '!%s && %s' % (silent, lossy), fid)):
            L = ['__CPROVER_requires(%s)' % fresh.format(v='a'), '__CPROVER_requires(%s)' % fresh.format(v='b'),
                 '__CPROVER_requires(!X_BUILT(e))',
                 '/* BOUND of this stand-in: the foreign <error/> has at most three child elements */',
                 '__CPROVER_requires(e == 0 || CH1(e) == 0 || CH2(e) == 0 || CH3(e) == 0 || CH4(e) == 0)',
                 '__CPROVER_assigns(*a->d, *b->d, gh_x%s)' % ghosts,
                 '//: post.parsed_object_satisfies_its_type_invariants', '__CPROVER_ensures(%s)' % tinv.format(v='a'),
                 '//: post.parsed_object_serialises_to_at_most_one_well_formed_element', '__CPROVER_ensures(gh_x.wf && gh_x.depth == 0 && gh_x.roots <= 1)']
            for m, e in err_members(kit, 'b', 'a', None):
                L += ['//: post.second_parse_gives_the_same_%s' % m, '__CPROVER_ensures((%s) ==> (%s))' % (guard, e)]
            sp = Spec(kit.b.subst('## contract\n' + '\n'.join(L) + '\n'))
            body = kit.init_fn + macros + ('void StanzaError_fixpoint(qdom e, StanzaError *a, StanzaError *b)\n%s\n{\n  xw w;\n  xw_reset();\n  QXmppStanzaErrorPrivate_init(a->d);   /* a = QXmppStanza::Error() */\n'
                                           '  StanzaError_parse(a, e);\n  StanzaError_toXml(a, &w);   /* every read of a member without initialiser is checked (safety.member_*_defined_when_read) */\n  xw_finish();\n'
                                           '  QXmppStanzaErrorPrivate_init(b->d);\n  if (gh_x.roots == 1) StanzaError_parse(b, gh_x.root);   /* nothing is written for an error that says nothing */\n}\n' % sp.contract)
            out.append(mk_proof(kit, pid, roots, 'StanzaError_fixpoint', sp, body, 'void h_StanzaError_fixpoint(void) { qdom e; StanzaError *a; StanzaError *b; StanzaError_fixpoint(e, a, b); }',
                                finding=f, kind='bounded', bound_text='the foreign <error/> element has at most 3 child elements; loop of QXmppStanza::Error::parse unwound 6 times with unwinding assertions',
                                unwindset=['StanzaError_parse.0:6'],
                                note='ARBITRARY foreign <error/>; the object starts in the state its constructor really leaves (maxFileSize indeterminate, ghost flag false); real parse, toXml (every read of '
                                     'maxFileSize asserted defined), parse' + ('; RESTRICTED to parse results in the input class of finding ' + f if f else '; parse results in the input class of the recorded finding %s excluded from the fixpoint clauses (the definedness, type-invariant and well-formedness obligations are NOT restricted)' % fid)))
    if which == 'fixpoint':
        # the public getter of the member without initialiser, on a default-constructed error (recorded finding)
        codec.HELPERS['StanzaError_maxFileSize'] = (STANZA, 'QXmppStanza::Error::maxFileSize', 'maxFileSize', {'this': 'StanzaError', 'nparams': 0}, '')
        kit.need('StanzaError_maxFileSize')
        kit.texts['StanzaError_maxFileSize'] = instrument_def(kit.texts['StanzaError_maxFileSize'], kit.indet, 'read')
        fid = '%s-stanzaerror-maxfilesize-uninit' % uid
        L = ['__CPROVER_requires(%s)' % fresh.format(v='a'), '__CPROVER_assigns(*a->d%s)' % ghosts,
             '//: post.getter_returns_the_member', '__CPROVER_ensures(__CPROVER_return_value == a->d->maxFileSize)']
        sp = Spec('## contract\n' + '\n'.join(L) + '\n')
        body = kit.init_fn + 'qint64 StanzaError_default_maxFileSize(StanzaError *a)\n%s\n{\n  QXmppStanzaErrorPrivate_init(a->d);   /* QXmppStanza::Error() */\n  return StanzaError_maxFileSize(a);\n}\n' % sp.contract
        out.append(mk_proof(kit, 'QXmppStanzaError_default_maxFileSize@' + fid, ['StanzaError_maxFileSize'], 'StanzaError_default_maxFileSize', sp, body,
                            'void h_StanzaError_default_maxFileSize(void) { StanzaError *a; StanzaError_default_maxFileSize(a); }', finding=fid,
                            note='real QXmppStanza::Error::maxFileSize() on a default-constructed error (constructor state from the class definition: maxFileSize has no initialiser and the '
                                 'private object is created by a non-zeroing `new`): the read is asserted defined'))
    return kit, out


# ---------------------------------------------------------------------------------------------------------------------
# QXmppJingleMessageInitiationElement
JQ = 'QXmppJingleMessageInitiationElement'
JMI_HELPERS = {
    'Jmi_parse': (JINGLE, JQ + '::parse', 'parse', {'this': 'JmiElement'}, ''),
    'Jmi_toXml': (JINGLE, JQ + '::toXml', 'toXml', {'this': 'JmiElement'}, ''),
    'Jmi_isJmiElement': (JINGLE, JQ + '::isJingleMessageInitiationElement', 'isJingleMessageInitiationElement', {}, ''),
    'jmiElementTypeToString': (JINGLE, JQ + '::jmiElementTypeToString', 'jmiElementTypeToString', {}, ''),
    'stringToJmiElementType': (JINGLE, JQ + '::stringToJmiElementType', 'stringToJmiElementType', {}, ''),
}
JMI_STUBS = '''
/* QXmppJingleDescription / QXmppJingleReason inside std::optional: opaque sub-objects (NOT covered), 0 = nullopt */
typedef int qsub;
qsub nondet_qsub(void);
static inline void qsub_toXml(qsub s, xw *w) { (void)w; MODEL_LIMIT(s == 0, "opaque sub-object is present (its serialisation is not represented)"); }
static inline void qsub_parse(qsub *s, qdom e) { (void)e; *s = nondet_qsub(); __CPROVER_assume(*s != 0); }
static inline qsub qsub_some(void) { qsub s = nondet_qsub(); __CPROVER_assume(s != 0); return s; }
'''


def jmi_kit(uid, work):
    T = codec.SCALAR_TYPES
    T.update({JQ: 'JmiElement', JQ + 'Private': 'JmiPrivate', 'QSharedDataPointer<%sPrivate>' % JQ: 'JmiPrivate*',
              'std::optional<QXmppJingleDescription>': 'qsub', 'std::optional<QXmppJingleReason>': 'qsub', 'QXmppJingleDescription': 'qsub', 'QXmppJingleReason': 'qsub'})
    codec.OPAQUE_ENUMS.update({JQ + '::Type', 'Type'})
    codec.HELPERS.update(JMI_HELPERS)
    kit = codec.Kit(uid, work)
    kit.prof.calls.update({
        'op->:JmiPrivate*': ('arg', 0),
        'qdom::nodeName/0': ('fn', 'xdom_tagName'),       # no prefixes in the abstract tree: nodeName() is tagName()
        'fn:stringToJmiElementType/1': ('calleeret', 'stringToJmiElementType', 'OptEnum'),
        'fn:jmiElementTypeToString/1': ('callee', 'jmiElementTypeToString'),
        'qsub::operator bool/0': ('expr', '{0} != 0'),
        'op->:qsub': lambda lw, node, args: lw.addr_of(lw.expr(node['inner'][1])),
        'qsub*::parse/1': ('fn', 'qsub_parse'), 'qsub*::toXml/1': lambda lw, node, args: 'qsub_toXml(*%s, %s)' % (args[0], args[1]),
        'qsub::parse/1': ('fnmut', 'qsub_parse'),
        'op=:qsub:qsub': ('expr', '{v0} = qsub_some()'),
        'ctor:qsub()': ('const', '0'),
        'expr:InitListExpr:OptEnum': lambda lw, n: lw.expr(n['inner'][0]),      # std::optional<Type> type { f(x) };
        '*::toXml/1': presence.rule_sub_toxml,
    })
    kit.prof.class_types |= {'JmiElement', 'JmiPrivate'}
    kit.prefetch([(JINGLE, JQ + 'Private'), (JINGLE, JQ + '::' + JQ)] + [(v[0], v[1]) for v in JMI_HELPERS.values()])
    rec, fields, init, indet = private_state(kit, JINGLE, JQ + 'Private', JQ + '::' + JQ, JQ)
    rec = rec.replace(JQ + 'Private', 'JmiPrivate')
    kit.fields, kit.indet = fields, indet
    ghost = ''.join('bool gh_def_%s;   /* ghost: the member holds a defined value */\n' % m for m, _ in indet)
    kit.init_fn = ('/* the state QXmppJingleMessageInitiationElement() leaves: in-class initialisers; the rest as `new ...Private()` leaves it */\n'
                   'void JmiPrivate_init(JmiPrivate *self)\n{\n' + '\n'.join(init) + '\n}\n')
    kit.records = kit.records + JMI_STUBS + ghost + rec + '\ntypedef struct JmiElement { JmiPrivate *d; } JmiElement;\n'
    for r in ('Jmi_parse', 'Jmi_toXml', 'Jmi_isJmiElement'):
        kit.need(r)
    kit.texts['Jmi_parse'] = instrument_def(kit.texts['Jmi_parse'], indet, 'parse')
    kit.texts['Jmi_toXml'] = instrument_def(kit.texts['Jmi_toXml'], indet, 'read')
    src = os.path.join(REPO, JINGLE)
    kit.tn = ctx.enum_values(src, JQ + '::Type')
    kit.b.need_enums.setdefault((src, ()), {}).setdefault(JQ + '::Type', set())
    return kit


def jmi_proofs(uid, work, mk_proof, which):
    kit = jmi_kit(uid, work)
    roots = ['Jmi_toXml', 'Jmi_parse', 'Jmi_isJmiElement']
    fresh = '__CPROVER_is_fresh({v}, sizeof(*{v})) && __CPROVER_is_fresh({v}->d, sizeof(*{v}->d))'
    tn = kit.tn
    vs = sorted(tn.values())
    tinv = '({v}->d->type >= %d && {v}->d->type <= %d)' % (vs[0], vs[-1])
    ghosts = ''.join(', gh_def_%s' % m for m, _ in kit.indet)
    scal = [(f, t) for f, t in kit.fields if t != 'qsub']
    subs = [f for f, t in kit.fields if t == 'qsub']
    out = []
    if which == 'roundtrip':
        L = ['__CPROVER_requires(%s)' % fresh.format(v='x'), '__CPROVER_requires(%s)' % fresh.format(v='y'),
             '__CPROVER_requires(%s)   /* type invariant */' % tinv.format(v='x'),
             '/* stated domain: the element has a type (Type::None is "not a JMI element"); a tie-break only in <reject/> / <retract/>, a migration target only in <finish/>;',
             '   description / reason sub-objects absent (not covered) */',
             '__CPROVER_requires(x->d->type != %d)' % tn['None'],
             '__CPROVER_requires(!x->d->containsTieBreak || x->d->type == %d || x->d->type == %d)' % (tn['Reject'], tn['Retract']),
             '__CPROVER_requires(x->d->migratedTo == 0 || x->d->type == %d)' % tn['Finish'],
             '__CPROVER_requires(%s)' % ' && '.join('x->d->%s == 0' % f for f in subs),
             '__CPROVER_assigns(*y->d, gh_x%s)' % ghosts,
             '//: post.output_is_one_complete_well_formed_element', '__CPROVER_ensures(XW_ONE_COMPLETE_ELEMENT())',
             '//: post.own_output_is_recognised_as_a_jmi_element', '__CPROVER_ensures(__CPROVER_return_value)   /* only if it carries an id, as the recogniser demands */']
        for f, t in scal:
            L += ['//: post.member_%s_survives_the_round_trip' % f, '__CPROVER_ensures(%s)' % iq.eq(t, 'y->d->' + f, 'x->d->' + f)]
        L.insert(9, '__CPROVER_requires(x->d->id != 0)   /* a JMI element carries its session id */')
        sp = Spec(kit.b.subst('## contract\n' + '\n'.join(L) + '\n'))
        body = kit.init_fn + ('bool Jmi_roundtrip(const JmiElement *x, JmiElement *y)\n%s\n{\n  xw w;\n  xw_reset();\n  Jmi_toXml(x, &w);\n  xw_finish();\n  JmiPrivate_init(y->d);\n'
                              '  bool rec = Jmi_isJmiElement(gh_x.root);\n  Jmi_parse(y, gh_x.root);\n  return rec;\n}\n' % sp.contract)
        out.append(mk_proof(kit, 'QXmppJmiElement_roundtrip', roots, 'Jmi_roundtrip', sp, body, 'void h_Jmi_roundtrip(void) { JmiElement *x; JmiElement *y; Jmi_roundtrip(x, y); }',
                            note='real QXmppJingleMessageInitiationElement::toXml, parse, isJingleMessageInitiationElement, jmiElementTypeToString, stringToJmiElementType; every type, id, tie-break and '
                                 'migration target within the stated domain; description / reason sub-objects absent'))
    else:
        macros = kit.b.subst('#define NOSUB(e) (__CPROVER_uninterpreted_dom_first_child((e), S("description"), 0) == 0 && __CPROVER_uninterpreted_dom_first_child((e), S("reason"), 0) == 0)\n')
        L = ['__CPROVER_requires(%s)' % fresh.format(v='a'), '__CPROVER_requires(%s)' % fresh.format(v='b'),
             '__CPROVER_requires(!X_BUILT(e) && e != 0)',
             '__CPROVER_requires(NOSUB(e))   /* no <description/> / <reason/> child: those sub-objects are not covered */',
             '__CPROVER_assigns(*a->d, *b->d, gh_x%s)' % ghosts,
             '//: post.recognised_element_parses_to_a_jmi_type',
             '__CPROVER_ensures(__CPROVER_return_value ==> a->d->type != %d)' % tn['None'],
             '//: post.parsed_type_is_a_declared_enumerator', '__CPROVER_ensures(%s)' % tinv.format(v='a'),
             '//: post.recognised_element_serialises_to_one_well_formed_element_with_a_name',
             '__CPROVER_ensures(__CPROVER_return_value ==> XW_ONE_COMPLETE_ELEMENT())',
             '//: post.output_of_the_parsed_object_is_recognised_again',
             '__CPROVER_ensures(__CPROVER_return_value && a->d->id != 0 ==> gh_rec2)   /* an EMPTY id attribute satisfies the recogniser but is not written back (observation, listed) */']
        for f, t in scal:
            L += ['//: post.second_parse_gives_the_same_%s' % f, '__CPROVER_ensures(__CPROVER_return_value ==> %s)' % iq.eq(t, 'b->d->' + f, 'a->d->' + f)]
        sp = Spec(kit.b.subst('## contract\n' + '\n'.join(L) + '\n'))
        sp.contract = sp.contract.replace('gh_x' + ghosts + ')', 'gh_x, gh_rec2' + ghosts + ')')
        body = kit.init_fn + macros + ('bool gh_rec2;\nbool Jmi_fixpoint(qdom e, JmiElement *a, JmiElement *b)\n%s\n{\n  xw w;\n  xw_reset();\n  gh_rec2 = false;\n  JmiPrivate_init(a->d);\n  JmiPrivate_init(b->d);\n'
                                       '  bool rec = Jmi_isJmiElement(e);      /* QXmppMessage::parseExtension parses and stores the element exactly when this holds */\n'
                                       '  if (rec) {\n    Jmi_parse(a, e);\n    Jmi_toXml(a, &w);\n    xw_finish();\n    if (gh_x.roots == 1) { gh_rec2 = Jmi_isJmiElement(gh_x.root); Jmi_parse(b, gh_x.root); }\n  }\n  return rec;\n}\n' % sp.contract)
        out.append(mk_proof(kit, 'QXmppJmiElement_fixpoint', roots, 'Jmi_fixpoint', sp, body, 'void h_Jmi_fixpoint(void) { qdom e; JmiElement *a; JmiElement *b; Jmi_fixpoint(e, a, b); }',
                            note='ARBITRARY foreign element; real isJingleMessageInitiationElement decides (as at the QXmppMessage::parseExtension call site) whether the element is parsed; then real parse, toXml, '
                                 'recogniser and parse again; object starts as its constructor leaves it; description / reason children excluded (sub-objects not covered)'))
    return kit, out


ASSUMED_EXT = [
    'definedness instrumentation (units/C01/ext.py instrument_def): a scalar data member without in-class initialiser whose owner is created by a non-zeroing `new T` (read from clang\'s AST: CXXConstructExpr.zeroing) starts indeterminate (nondeterministic value, ghost flag false); every assignment to it in the lowered parser sets the flag, every read in the lowered serialiser / getter asserts it (obligation safety.member_<m>_defined_when_read); members of class type (QString, QDateTime, std::optional) are default-constructed',
    'QXmppStanza::Error: the parsed object starts in the state QXmppStanza::Error() leaves; stated domain of the round trip: the error says something (condition or type set; otherwise toXml writes nothing), legacy code >= 0, redirection URI only with <gone/> / <redirect/>, retry date only without file-too-large, maxFileSize only with fileTooLarge; C02 stand-in bounded to foreign <error/> elements with at most 3 children',
    'QXmppJingleMessageInitiationElement: std::optional<QXmppJingleDescription> / std::optional<QXmppJingleReason> are opaque sub-objects that must be absent (contract-only stubs; foreign elements with a <description/> or <reason/> child excluded); QDomNode::nodeName() = tagName() (no prefixes in the abstract tree); stated domain of the round trip: type != None, non-empty id, tie-break only in <reject/> / <retract/>, migration target only in <finish/>; observation: an element with an EMPTY id attribute satisfies isJingleMessageInitiationElement but its re-serialisation (id omitted) does not',
    'the call site QXmppMessage::parseExtension (stores a JMI element exactly when isJingleMessageInitiationElement holds, then parse) is a listed call site: the harness makes the same decision with the real recogniser; QXmppMessage itself is not lowered',
]
